package main

// C04: repository contents leak no plaintext and never reuse a nonce.
//
// A case is a small history (init, backup of a tree whose every observable string is a
// unique marker token, then a drawn suffix of operations). Both repositories of a case
// (the primary one and the destination of `copy`) live on the recording harness
// backend, which logs every Save with its bytes: the oracle therefore sees every file
// that was EVER written, including the ones deleted later (locks, replaced snapshots,
// repacked packs, superseded indexes).

import (
	"bytes"
	"context"
	"crypto/sha256"
	"encoding/base64"
	"encoding/binary"
	"encoding/hex"
	"encoding/json"
	"fmt"
	"io"
	"math/rand/v2"
	"os"
	"path/filepath"
	"sort"
	"strings"
	"testing"

	"github.com/klauspost/compress/zstd"
	"github.com/restic/restic/internal/backend"
	"github.com/restic/restic/internal/data"
	"github.com/restic/restic/internal/filter"
	"github.com/restic/restic/internal/global"
	"github.com/restic/restic/internal/repository"
	"github.com/restic/restic/internal/repository/crypto"
	"github.com/restic/restic/internal/repository/pack"
	"github.com/restic/restic/internal/restic"
	"github.com/restic/restic/internal/verifkit"
	"github.com/restic/restic/internal/verifkit/vbe"
	"golang.org/x/sys/unix"
	"pgregory.net/rapid"
)

// ---------------------------------------------------------------------------
// markers

// carrier classes that every non-trivial case must have (found in decrypted plaintext)
var vCarriersC04 = []string{"content", "name", "linktarget", "xattr", "tag", "host", "path"}

type vMarkC04 struct {
	Class   string // content, name, linktarget, xattr, xattrval, tag, host, path, exclude, keyinfo, password
	Tok     string // the marker itself (what is put into the source / the command line)
	KeyInfo bool   // allowed (only) in the informational fields of key files
}

type vPatC04 struct {
	b    []byte
	mark int
	form string
}

const vAlnumC04 = "ABCDEFGHIJKLMNOPQRSTUVWXYZabcdefghijklmnopqrstuvwxyz0123456789"

// vTokC04 is a 24-character alphanumeric token (about 130 bits) derived from the drawn case seed.
func vTokC04(seed uint64, class string, i int) string {
	h := sha256.Sum256([]byte(fmt.Sprintf("C04/%d/%s/%d", seed, class, i)))
	b := make([]byte, 22)
	for j := range b {
		b[j] = vAlnumC04[int(h[j])%len(vAlnumC04)]
	}
	return "vM" + string(b)
}

// vB64FormsC04: the base64 text of any byte string that contains p contains one of these (one per alignment).
func vB64FormsC04(p []byte, enc *base64.Encoding) [][]byte {
	var out [][]byte
	for a := 0; a < 3; a++ {
		buf := append(make([]byte, a), p...)
		s := enc.EncodeToString(buf)
		start := []int{0, 2, 3}[a]
		end := len(s)
		if len(buf)%3 != 0 {
			end-- // the last character also depends on the following byte
		}
		out = append(out, []byte(s[start:end]))
	}
	return out
}

// vFormsC04 lists the encodings of one marker the raw scan looks for.
func vFormsC04(tok string) map[string][]byte {
	p := []byte(tok)
	f := map[string][]byte{"raw": p}
	f["hex"] = []byte(hex.EncodeToString(p))
	f["HEX"] = []byte(strings.ToUpper(hex.EncodeToString(p)))
	for a, b := range vB64FormsC04(p, base64.RawStdEncoding) {
		f[fmt.Sprintf("b64/%d", a)] = b
	}
	for a, b := range vB64FormsC04(p, base64.RawURLEncoding) {
		if !bytes.Equal(b, f[fmt.Sprintf("b64/%d", a)]) {
			f[fmt.Sprintf("b64url/%d", a)] = b
		}
	}
	// JSON-quoted (with and without HTML escaping), only when it differs from raw
	for _, html := range []bool{true, false} {
		var bb bytes.Buffer
		enc := json.NewEncoder(&bb)
		enc.SetEscapeHTML(html)
		_ = enc.Encode(tok)
		q := bytes.TrimSpace(bb.Bytes())
		q = q[1 : len(q)-1]
		if !bytes.Equal(q, p) {
			f[fmt.Sprintf("json/html=%v", html)] = append([]byte(nil), q...)
		}
	}
	return f
}

type vScanC04 struct {
	marks []vMarkC04
	pats  []vPatC04 // all forms (raw scan)
	plain []vPatC04 // forms expected in decrypted plaintext (carrier presence)
	dec   *zstd.Decoder
}

func (s *vScanC04) add(class, tok string, keyinfo bool) string {
	s.marks = append(s.marks, vMarkC04{Class: class, Tok: tok, KeyInfo: keyinfo})
	i := len(s.marks) - 1
	forms := vFormsC04(tok)
	names := make([]string, 0, len(forms))
	for n := range forms {
		names = append(names, n)
	}
	sort.Strings(names)
	for _, n := range names {
		s.pats = append(s.pats, vPatC04{b: forms[n], mark: i, form: n})
		if n == "raw" || strings.HasPrefix(n, "json/") || (class == "xattrval" && strings.HasPrefix(n, "b64/")) {
			s.plain = append(s.plain, vPatC04{b: forms[n], mark: i, form: n})
		}
	}
	return tok
}

// find returns the first marker form occurring in b ("" if none). Markers for which skip returns true are ignored.
func (s *vScanC04) find(b []byte, pats []vPatC04, skip func(m *vMarkC04) bool) string {
	for i := range pats {
		p := &pats[i]
		m := &s.marks[p.mark]
		if skip != nil && skip(m) {
			continue
		}
		if at := bytes.Index(b, p.b); at >= 0 {
			return fmt.Sprintf("marker %q (class %s) in form %s at offset %d", m.Tok, m.Class, p.form, at)
		}
	}
	return ""
}

var vZstdMagicC04 = []byte{0x28, 0xb5, 0x2f, 0xfd}

// scanRaw is oracle (a) for one raw byte string: no marker in any form, and no zstd frame
// (at any offset) that decompresses to something containing a marker. Returns the number of
// zstd magics seen (chance hits in ciphertext are expected at rate size/2^32).
func (s *vScanC04) scanRaw(b []byte, skip func(m *vMarkC04) bool) (string, int) {
	if hit := s.find(b, s.pats, skip); hit != "" {
		return hit, 0
	}
	magics := 0
	for off := 0; ; {
		i := bytes.Index(b[off:], vZstdMagicC04)
		if i < 0 {
			break
		}
		at := off + i
		off = at + 1
		magics++
		if s.dec == nil {
			d, err := zstd.NewReader(nil, zstd.WithDecoderConcurrency(1), zstd.WithDecoderMaxMemory(64<<20))
			if err != nil {
				panic(err)
			}
			s.dec = d
		}
		if err := s.dec.Reset(bytes.NewReader(b[at:])); err != nil {
			continue
		}
		// whatever decodes before the first error counts
		out, _ := io.ReadAll(io.LimitReader(s.dec, 32<<20))
		if hit := s.find(out, s.pats, skip); hit != "" {
			return fmt.Sprintf("unencrypted zstd frame at offset %d decompresses to %d bytes with %s", at, len(out), hit), magics
		}
	}
	return "", magics
}

// ---------------------------------------------------------------------------
// source tree

type vEntC04 struct {
	Rel     string // slash separated, relative to the backup root
	Kind    byte   // 'd', 'f', 'l'
	Content []byte
	Target  string
	Xattrs  map[string][]byte
}

func vPrfC04(seed uint64, n int) []byte {
	r := rand.New(rand.NewPCG(seed, 0xc04))
	b := make([]byte, n)
	for i := range b {
		b[i] = byte(r.Uint32())
	}
	return b
}

type vGenC04 struct {
	seed uint64
	n    int
	scan *vScanC04
}

func (g *vGenC04) tok(class string) string {
	g.n++
	return g.scan.add(class, vTokC04(g.seed, class, g.n), class == "keyinfo")
}

// special marker: contains characters that JSON escapes, so the quoted form differs from the raw one
func (g *vGenC04) tokQuoted(class string) string {
	g.n++
	t := vTokC04(g.seed, class, g.n)
	t = t[:6] + `"` + t[6:11] + `\` + t[11:16] + `<&` + t[16:]
	return g.scan.add(class, t, false)
}

func (g *vGenC04) content(t *rapid.T, kinds *[]string, nonEmpty bool) []byte {
	k := rapid.SampledFrom([]string{"tiny", "tiny", "compressible", "compressible", "entropy", "entropy", "mixed", "empty", "large"}).Draw(t, "ckind")
	if k == "large" && rapid.IntRange(0, 3).Draw(t, "largeRare") != 0 {
		k = "compressible"
	}
	if k == "empty" && nonEmpty {
		k = "tiny" // the content carrier class must be present in every case
	}
	*kinds = append(*kinds, k)
	switch k {
	case "empty":
		return nil
	case "tiny":
		return []byte(g.tok("content"))
	case "compressible":
		m := g.tok("content")
		return bytes.Repeat([]byte(m+" lorem ipsum dolor sit amet\n"), rapid.IntRange(20, 400).Draw(t, "rep"))
	case "entropy":
		m := g.tok("content")
		s := rapid.Uint64().Draw(t, "eseed")
		a := vPrfC04(s, rapid.IntRange(0, 3000).Draw(t, "pre"))
		b := vPrfC04(s+1, rapid.IntRange(0, 3000).Draw(t, "post"))
		return append(append(a, m...), b...)
	case "mixed":
		var bb bytes.Buffer
		s := rapid.Uint64().Draw(t, "mseed")
		for i := 0; i < rapid.IntRange(2, 6).Draw(t, "parts"); i++ {
			bb.Write(vPrfC04(s+uint64(i), 500))
			bb.Write(bytes.Repeat([]byte(g.tok("content")+"\t"), 30))
		}
		return bb.Bytes()
	default: // large: several chunks (chunker minimum is 512 KiB), compressible lines plus entropy islands
		var bb bytes.Buffer
		s := rapid.Uint64().Draw(t, "lseed")
		m := g.tok("content")
		total := rapid.IntRange(600, 1800).Draw(t, "lkb") * 1024
		for i := 0; bb.Len() < total; i++ {
			bb.WriteString(fmt.Sprintf("%s line %d of the large file\n", m, i))
			if i%512 == 0 {
				bb.Write(vPrfC04(s+uint64(i), 4096))
			}
			if i%4096 == 0 {
				m = g.tok("content")
			}
		}
		return bb.Bytes()
	}
}

// tree draws nEnt entries below the directories in dirs (which it extends).
func (g *vGenC04) tree(t *rapid.T, tr map[string]*vEntC04, dirs *[]string, nEnt int, kinds *[]string, first bool) {
	suffixes := []string{"", ".txt", " sp", "é", ".tar.gz"}
	mk := func(name string) string {
		parent := (*dirs)[rapid.IntRange(0, len(*dirs)-1).Draw(t, "parent")]
		if parent == "" {
			return name
		}
		return parent + "/" + name
	}
	if first {
		// one of each carrier so that every class is present
		p := mk(g.tok("name") + ".d")
		tr[p] = &vEntC04{Rel: p, Kind: 'd'}
		*dirs = append(*dirs, p)
		p = mk(g.tokQuoted("name"))
		tr[p] = &vEntC04{Rel: p, Kind: 'f', Content: g.content(t, kinds, true)}
		p = mk(g.tok("name") + ".lnk")
		tr[p] = &vEntC04{Rel: p, Kind: 'l', Target: "../" + g.tok("linktarget") + "/x"}
		p = mk(g.tok("name") + ".xa")
		tr[p] = &vEntC04{Rel: p, Kind: 'f', Content: g.content(t, kinds, false), Xattrs: map[string][]byte{
			"user." + g.tok("xattr"): append([]byte{0, 0xff, 1}, g.tok("xattrval")...),
		}}
	}
	for i := 0; i < nEnt; i++ {
		name := g.tok("name") + rapid.SampledFrom(suffixes).Draw(t, "suffix")
		switch k := rapid.IntRange(0, 9).Draw(t, "ekind"); {
		case k <= 1 && len(*dirs) < 5:
			p := mk(name)
			tr[p] = &vEntC04{Rel: p, Kind: 'd'}
			*dirs = append(*dirs, p)
		case k == 2:
			p := mk(name)
			tr[p] = &vEntC04{Rel: p, Kind: 'l', Target: g.tok("linktarget")}
		case k == 3:
			p := mk(name)
			tr[p] = &vEntC04{Rel: p, Kind: 'f', Content: g.content(t, kinds, false), Xattrs: map[string][]byte{
				"user." + g.tok("xattr"): []byte(g.tok("xattrval")),
			}}
		default:
			p := mk(name)
			tr[p] = &vEntC04{Rel: p, Kind: 'f', Content: g.content(t, kinds, false)}
		}
	}
}

func vMaterializeC04(root string, tr map[string]*vEntC04) (xattrOK bool, err error) {
	ps := make([]string, 0, len(tr))
	for p := range tr {
		ps = append(ps, p)
	}
	sort.Strings(ps)
	xattrOK = true
	for _, p := range ps {
		e := tr[p]
		full := filepath.Join(root, filepath.FromSlash(p))
		switch e.Kind {
		case 'd':
			err = os.Mkdir(full, 0o755)
		case 'l':
			err = os.Symlink(e.Target, full)
		default:
			err = os.WriteFile(full, e.Content, 0o644)
		}
		if err != nil {
			return false, err
		}
		for k, v := range e.Xattrs {
			if err := unix.Lsetxattr(full, k, v, 0); err != nil {
				xattrOK = false
			}
		}
	}
	return xattrOK, nil
}

// ---------------------------------------------------------------------------
// decrypt walk: oracle (b) and carrier presence

type vWalkC04 struct {
	nonces   map[[16]byte]string // nonce -> first holder
	objects  int
	byKind   map[string]int
	carriers map[string]int
	scan     *vScanC04
	zdec     *zstd.Decoder
	seenFile map[string]bool // store/type/name/hash of files already walked (a retried identical save is the same object)
	ks       []vKsC04        // key stream blocks (ciphertext XOR plaintext) of every object walked
	ksHolder []string
}

type vKsC04 struct {
	a, b uint64
	obj  int32
	blk  int32
}

// keystream records the 16-byte key stream blocks of one object (obj = nonce||ciphertext||mac,
// pt = what it decrypts to, before decompression).
func (w *vWalkC04) keystream(obj, pt []byte, holder string) {
	if len(obj) < crypto.Extension || len(obj)-crypto.Extension != len(pt) {
		return
	}
	ct := obj[16 : len(obj)-16]
	w.ksHolder = append(w.ksHolder, holder)
	oi := int32(len(w.ksHolder) - 1)
	for i := 0; i+16 <= len(ct); i += 16 {
		w.ks = append(w.ks, vKsC04{
			a:   binary.LittleEndian.Uint64(ct[i:]) ^ binary.LittleEndian.Uint64(pt[i:]),
			b:   binary.LittleEndian.Uint64(ct[i+8:]) ^ binary.LittleEndian.Uint64(pt[i+8:]),
			obj: oi, blk: int32(i / 16),
		})
	}
}

// keystreamReuse: no 16-byte pad may be used for two plaintext blocks anywhere in the history.
func (w *vWalkC04) keystreamReuse() error {
	sort.Slice(w.ks, func(i, j int) bool {
		if w.ks[i].a != w.ks[j].a {
			return w.ks[i].a < w.ks[j].a
		}
		return w.ks[i].b < w.ks[j].b
	})
	for i := 1; i < len(w.ks); i++ {
		p, q := w.ks[i-1], w.ks[i]
		if p.a == q.a && p.b == q.b {
			return fmt.Errorf("key stream block reused: %s offset %d and %s offset %d are encrypted with the same 16-byte pad", w.ksHolder[p.obj], int(p.blk)*16, w.ksHolder[q.obj], int(q.blk)*16)
		}
	}
	return nil
}

func (w *vWalkC04) nonce(n []byte, holder, kind string) error {
	if len(n) != 16 {
		return fmt.Errorf("%s: nonce of %d bytes", holder, len(n))
	}
	var k [16]byte
	copy(k[:], n)
	if k == ([16]byte{}) {
		return fmt.Errorf("%s: all-zero nonce", holder)
	}
	if other, ok := w.nonces[k]; ok {
		return fmt.Errorf("nonce %x used twice: by %s and by %s", n, other, holder)
	}
	w.nonces[k] = holder
	w.objects++
	w.byKind[kind]++
	return nil
}

func (w *vWalkC04) plaintext(p []byte) {
	for i := range w.scan.plain {
		pt := &w.scan.plain[i]
		if bytes.Contains(p, pt.b) {
			c := w.scan.marks[pt.mark].Class
			if c == "xattrval" {
				c = "xattr"
			}
			w.carriers[c]++
		}
	}
}

// open decrypts nonce||ciphertext||mac.
func vOpenC04(k *crypto.Key, buf []byte) ([]byte, error) {
	if len(buf) < crypto.Extension {
		return nil, fmt.Errorf("too short for an encrypted object (%d bytes)", len(buf))
	}
	return k.Open(nil, buf[:16], buf[16:], nil)
}

// file walks one raw repository file that was written at some point of the history.
func (w *vWalkC04) file(store string, key *crypto.Key, passwords []string, op vbe.Op, allowedKeyInfo map[string]bool) error {
	id := fmt.Sprintf("%s:%s", store, op.Key)
	sum := sha256.Sum256(op.Data)
	fkey := fmt.Sprintf("%s/%x", id, sum[:8])
	if w.seenFile[fkey] {
		return nil
	}
	w.seenFile[fkey] = true
	b := op.Data
	switch op.Key.Type {
	case backend.PackFile:
		entries, hdrSize, err := pack.List(key, bytes.NewReader(b), int64(len(b)))
		if err != nil {
			return fmt.Errorf("%s: pack header does not decrypt with the master key: %v", id, err)
		}
		if int(hdrSize) > len(b) || hdrSize < 4+crypto.Extension {
			return fmt.Errorf("%s: header size %d of %d", id, hdrSize, len(b))
		}
		hdr := b[len(b)-int(hdrSize) : len(b)-4]
		if err := w.nonce(hdr[:16], id+" header", "packheader"); err != nil {
			return err
		}
		if hpt, err := vOpenC04(key, hdr); err == nil {
			w.keystream(hdr, hpt, id+" header")
		}
		// the blobs must tile the part before the header exactly: no unaccounted (unencrypted) bytes
		pos := uint(0)
		for _, en := range entries {
			if en.Offset != pos {
				return fmt.Errorf("%s: blob %v at offset %d, expected %d", id, en.ID.Str(), en.Offset, pos)
			}
			pos += en.Length
			if int(pos) > len(b)-int(hdrSize) {
				return fmt.Errorf("%s: blob %v overlaps the header", id, en.ID.Str())
			}
			ct := b[en.Offset : en.Offset+en.Length]
			pt, err := vOpenC04(key, ct)
			if err != nil {
				return fmt.Errorf("%s: blob %v does not decrypt with the master key: %v", id, en.ID.Str(), err)
			}
			w.keystream(ct, pt, fmt.Sprintf("%s blob %v@%d", id, en.ID.Str(), en.Offset))
			if en.IsCompressed() {
				pt, err = w.zdec.DecodeAll(pt, nil)
				if err != nil {
					return fmt.Errorf("%s: blob %v: %v", id, en.ID.Str(), err)
				}
			}
			if restic.Hash(pt) != en.ID {
				return fmt.Errorf("%s: blob %v has plaintext hash %v", id, en.ID.Str(), restic.Hash(pt))
			}
			if err := w.nonce(ct[:16], fmt.Sprintf("%s blob %v@%d", id, en.ID.Str(), en.Offset), "blob/"+en.Type.String()); err != nil {
				return err
			}
			w.plaintext(pt)
		}
		if int(pos) != len(b)-int(hdrSize) {
			return fmt.Errorf("%s: %d bytes between the last blob and the header are not covered by any encrypted object", id, len(b)-int(hdrSize)-int(pos))
		}
	case backend.IndexFile, backend.SnapshotFile, backend.LockFile, backend.ConfigFile:
		pt, err := vOpenC04(key, b)
		if err != nil {
			return fmt.Errorf("%s: not an object encrypted with the master key: %v (first bytes %q)", id, err, b[:min(len(b), 40)])
		}
		w.keystream(b, pt, id)
		if op.Key.Type != backend.ConfigFile && len(pt) > 0 && pt[0] == 2 {
			pt, err = w.zdec.DecodeAll(pt[1:], nil)
			if err != nil {
				return fmt.Errorf("%s: %v", id, err)
			}
		}
		if !json.Valid(pt) {
			return fmt.Errorf("%s: plaintext is not JSON", id)
		}
		if err := w.nonce(b[:16], id, "unpacked/"+op.Key.Type.String()); err != nil {
			return err
		}
		w.plaintext(pt)
	case backend.KeyFile:
		var raw map[string]json.RawMessage
		if err := json.Unmarshal(b, &raw); err != nil {
			return fmt.Errorf("%s: key file is not JSON: %v", id, err)
		}
		var names []string
		for k := range raw {
			names = append(names, k)
		}
		sort.Strings(names)
		// doc/design.rst, "Keys, Encryption and MAC"
		if got, want := strings.Join(names, ","), "N,created,data,hostname,kdf,p,r,salt,username"; got != want {
			return fmt.Errorf("%s: key file fields %s, documented are %s", id, got, want)
		}
		var kf struct {
			Hostname string `json:"hostname"`
			Username string `json:"username"`
			KDF      string `json:"kdf"`
			N        int    `json:"N"`
			R        int    `json:"r"`
			P        int    `json:"p"`
			Created  string `json:"created"`
			Data     []byte `json:"data"`
			Salt     []byte `json:"salt"`
		}
		dec := json.NewDecoder(bytes.NewReader(b))
		dec.DisallowUnknownFields()
		if err := dec.Decode(&kf); err != nil {
			return fmt.Errorf("%s: key file: %v", id, err)
		}
		if kf.KDF != "scrypt" {
			return fmt.Errorf("%s: kdf %q", id, kf.KDF)
		}
		// informational fields: hostname/username may carry only what was given to `key add`
		for _, v := range []string{kf.Hostname, kf.Username} {
			if strings.HasPrefix(v, "vM") && !allowedKeyInfo[v] {
				return fmt.Errorf("%s: key file hostname/username %q is not what key add was given", id, v)
			}
		}
		// data = nonce || ciphertext || mac under the user key; must contain the master key
		var master *crypto.Key
		for _, pw := range passwords {
			uk, err := crypto.KDF(crypto.Params{N: kf.N, R: kf.R, P: kf.P}, kf.Salt, pw)
			if err != nil {
				return fmt.Errorf("%s: kdf: %v", id, err)
			}
			pt, err := vOpenC04(uk, kf.Data)
			if err != nil {
				continue
			}
			master = &crypto.Key{}
			if err := json.Unmarshal(pt, master); err != nil {
				return fmt.Errorf("%s: key data plaintext: %v", id, err)
			}
			break
		}
		if master == nil {
			return fmt.Errorf("%s: key data does not decrypt with any password of the case", id)
		}
		if master.EncryptionKey != key.EncryptionKey || master.MACKey != key.MACKey {
			return fmt.Errorf("%s: key file holds a different master key", id)
		}
		if err := w.nonce(kf.Data[:16], id+" data", "keydata"); err != nil {
			return err
		}
	default:
		return fmt.Errorf("%s: unexpected file type", id)
	}
	return nil
}

// ---------------------------------------------------------------------------
// the property

type vCaseC04 struct {
	Seed        uint64   `json:"seed"`
	Version     string   `json:"version"`
	Compression string   `json:"compression"`
	PackSize    uint     `json:"pack_size"`
	Entries     int      `json:"entries"`
	Content     []string `json:"content_kinds"`
	Ops         []string `json:"ops"`
}

func vCompressionsC04() map[string]repository.CompressionMode {
	return map[string]repository.CompressionMode{"auto": repository.CompressionAuto, "off": repository.CompressionOff,
		"max": repository.CompressionMax, "fastest": repository.CompressionFastest, "better": repository.CompressionBetter}
}

func vBucketC04(n int) string {
	switch {
	case n < 20:
		return "<20"
	case n < 50:
		return "20-49"
	case n < 100:
		return "50-99"
	default:
		return ">=100"
	}
}

func TestVerifC04NoPlaintextFreshNonces(t *testing.T) {
	vSetup(t)
	st := verifkit.Begin(t, "C04")
	rapid.Check(t, func(t *rapid.T) {
		c := vCaseC04{Seed: rapid.Uint64().Draw(t, "markerSeed")}
		c.Version = rapid.SampledFrom([]string{"1", "2", "2", "2"}).Draw(t, "version")
		// max/better are rarer: klauspost/zstd zeroes GOMAXPROCS large encoder tables per opened repository at these levels
		c.Compression = rapid.SampledFrom([]string{"auto", "auto", "auto", "off", "off", "off", "fastest", "fastest", "max", "better"}).Draw(t, "compression")
		scan := &vScanC04{}
		g := &vGenC04{seed: c.Seed, scan: scan}

		e, err := vNewEnv(true)
		if err != nil {
			t.Fatal(err)
		}
		defer e.Close()
		e.gopts.Compression = vCompressionsC04()[c.Compression]
		if rapid.IntRange(0, 2).Draw(t, "smallpacks") == 0 {
			c.PackSize = 4 // MiB, the minimum: large files then spread over several packs
			e.gopts.PackSize = c.PackSize
		}
		e.store.StartRecording(vbe.NoFaults()) // never stopped: the log is the complete write history
		if err := e.Init(c.Version); err != nil {
			t.Fatal(err)
		}
		passwords := []string{vPassword}
		allowedKeyInfo := map[string]bool{}
		var e2 *vEnv // destination of copy
		defer func() {
			if e2 != nil {
				e2.Close()
			}
		}()

		// source: <scratch>/<path marker>/...
		srcBase := e.Scratch("src-")
		src := filepath.Join(srcBase, g.tok("path"))
		if err := os.Mkdir(src, 0o755); err != nil {
			t.Fatal(err)
		}
		tr := map[string]*vEntC04{}
		dirs := []string{""}
		c.Entries = rapid.IntRange(2, 9).Draw(t, "entries")
		g.tree(t, tr, &dirs, c.Entries, &c.Content, true)
		xattrOK, err := vMaterializeC04(src, tr)
		if err != nil {
			t.Fatal(err)
		}
		if !xattrOK {
			st.Class("xattr-unsupported")
		}

		backup := func(force bool) {
			bo := BackupOptions{
				Host:  g.tok("host"),
				Tags:  data.TagLists{data.TagList{g.tok("tag")}, data.TagList{g.tokQuoted("tag")}},
				Force: force,
			}
			bo.ExcludePatternOptions = filter.ExcludePatternOptions{Excludes: []string{g.tok("exclude") + "*"}}
			if err := e.Backup([]string{src}, bo); err != nil {
				t.Fatalf("backup: %v", err)
			}
		}
		backup(false)

		// change the source (drop some entries, add new ones with fresh markers) and back it up again
		changeAndBackup := func() string {
			var ps []string
			for p := range tr {
				ps = append(ps, p)
			}
			sort.Strings(ps)
			for _, p := range ps {
				if tr[p].Kind != 'd' && rapid.IntRange(0, 2).Draw(t, "drop") == 0 {
					if err := os.Remove(filepath.Join(src, filepath.FromSlash(p))); err != nil {
						t.Fatal(err)
					}
					delete(tr, p)
				}
			}
			add := map[string]*vEntC04{}
			g.tree(t, add, &dirs, rapid.IntRange(1, 4).Draw(t, "added"), &c.Content, false)
			if _, err := vMaterializeC04(src, add); err != nil {
				t.Fatal(err)
			}
			for p, en := range add {
				tr[p] = en
			}
			force := rapid.Bool().Draw(t, "force")
			backup(force)
			return fmt.Sprintf("backup(force=%v)", force)
		}

		nops := rapid.IntRange(1, 5).Draw(t, "nops")
		repacked := false
		for i := 0; i < nops; i++ {
			op := rapid.SampledFrom([]string{"backup", "backup", "forgetprune", "forgetprune", "tag", "rewrite", "copy", "copy", "keyadd", "upgrade", "check"}).Draw(t, "op")
			switch op {
			case "backup":
				op = changeAndBackup()
			case "forgetprune":
				ids, err := e.SnapshotIDs()
				if err != nil {
					t.Fatal(err)
				}
				sns, _ := e.Snapshots()
				if len(sns) < 2 {
					// a second snapshot of a changed tree, so that forgetting the first leaves partly used packs
					c.Ops = append(c.Ops, changeAndBackup())
					sns, _ = e.Snapshots()
				}
				if len(sns) < 2 {
					t.Fatalf("harness: %d snapshots after two backups", len(sns))
				} else if _, err := e.Forget(ForgetOptions{}, PruneOptions{}, sns[0].ID().String()); err != nil {
					t.Fatalf("forget: %v (of %v)", err, ids)
				}
				n0 := len(e.store.Log())
				mu := rapid.SampledFrom([]string{"0", "0", "5%", "unlimited"}).Draw(t, "maxunused")
				if err := e.Prune(PruneOptions{MaxUnused: mu}); err != nil {
					t.Fatalf("prune: %v", err)
				}
				for _, o := range e.store.Log()[n0:] {
					if o.Key.Type == backend.PackFile && !o.Remove {
						repacked = true
					}
				}
				op += "(" + mu + ")"
			case "tag":
				to := TagOptions{}
				if rapid.Bool().Draw(t, "settag") {
					to.SetTags = data.TagLists{data.TagList{g.tok("tag")}}
					op = "tag(set)"
				} else {
					to.AddTags = data.TagLists{data.TagList{g.tokQuoted("tag")}}
					op = "tag(add)"
				}
				if _, err := e.call(e.gopts, func(ctx context.Context, gopts global.Options) error {
					return runTag(ctx, to, gopts, gopts.Term, nil)
				}); err != nil {
					t.Fatalf("tag: %v", err)
				}
			case "rewrite":
				ro := RewriteOptions{Forget: rapid.Bool().Draw(t, "rwforget")}
				if rapid.Bool().Draw(t, "rwmeta") {
					ro.Metadata.Hostname = g.tok("host")
					op = "rewrite(host)"
				} else {
					// exclude one existing entry by (a prefix of) its marker name
					var ps []string
					for p := range tr {
						ps = append(ps, p)
					}
					sort.Strings(ps)
					p := filepath.Base(rapid.SampledFrom(ps).Draw(t, "rwvictim"))
					ro.ExcludePatternOptions = filter.ExcludePatternOptions{Excludes: []string{p[:6] + "*", g.tok("exclude")}}
					op = "rewrite(exclude)"
				}
				if ro.Forget {
					op += "+forget"
				}
				if _, err := e.call(e.gopts, func(ctx context.Context, gopts global.Options) error {
					return runRewrite(ctx, ro, gopts, nil, gopts.Term)
				}); err != nil {
					t.Fatalf("rewrite: %v", err)
				}
			case "copy":
				if e2 == nil {
					e2, err = vNewEnv(true)
					if err != nil {
						t.Fatal(err)
					}
					e2.store.StartRecording(vbe.NoFaults())
					v2 := rapid.SampledFrom([]string{"1", "2", "2"}).Draw(t, "dstversion")
					comp := rapid.SampledFrom([]string{"auto", "off", "max"}).Draw(t, "dstcompression")
					e2.gopts.Compression = vCompressionsC04()[comp]
					io := InitOptions{RepositoryVersion: v2}
					if rapid.Bool().Draw(t, "copychunker") {
						io.CopyChunkerParameters = true
						io.SecondaryRepoOptions = global.SecondaryRepoOptions{Repo: e.gopts.Repo, Password: vPassword}
					}
					if _, err := e2.call(e2.gopts, func(ctx context.Context, gopts global.Options) error {
						return runInit(ctx, io, gopts, nil, gopts.Term)
					}); err != nil {
						t.Fatalf("init of the copy destination: %v", err)
					}
					op = fmt.Sprintf("copy(init v%s %s)", v2, comp)
				}
				co := CopyOptions{SecondaryRepoOptions: global.SecondaryRepoOptions{Repo: e.gopts.Repo, Password: vPassword}}
				if _, err := e2.call(e2.gopts, func(ctx context.Context, gopts global.Options) error {
					return runCopy(ctx, co, gopts, nil, gopts.Term)
				}); err != nil {
					t.Fatalf("copy: %v", err)
				}
			case "keyadd":
				pw := "pw-" + g.tok("password") // the password itself must not show up anywhere, key files included
				pwf := filepath.Join(e.base, fmt.Sprintf("newpw-%d", i))
				if err := os.WriteFile(pwf, []byte(pw+"\n"), 0o600); err != nil {
					t.Fatal(err)
				}
				ko := KeyAddOptions{NewPasswordFile: pwf}
				if rapid.Bool().Draw(t, "keyuser") {
					ko.Username = g.tok("keyinfo")
					allowedKeyInfo[ko.Username] = true
				}
				if rapid.Bool().Draw(t, "keyhost") {
					ko.Hostname = g.tok("keyinfo")
					allowedKeyInfo[ko.Hostname] = true
				}
				if _, err := e.call(e.gopts, func(ctx context.Context, gopts global.Options) error {
					return runKeyAdd(ctx, gopts, ko, nil, gopts.Term)
				}); err != nil {
					t.Fatalf("key add: %v", err)
				}
				passwords = append(passwords, pw)
			case "upgrade":
				if c.Version != "1" {
					op = "upgrade(noop)"
					break
				}
				if _, err := e.call(e.gopts, func(ctx context.Context, gopts global.Options) error {
					return runMigrate(ctx, MigrateOptions{}, gopts, []string{"upgrade_repo_v2"}, gopts.Term)
				}); err != nil {
					t.Fatalf("migrate upgrade_repo_v2: %v", err)
				}
				c.Version = "1->2"
			case "check":
				if out, err := e.Check(true); err != nil {
					t.Fatalf("check --read-data: %v\n%s%s", err, out.Stdout, out.Stderr)
				}
			}
			c.Ops = append(c.Ops, op)
		}

		// ---- oracle ----
		type hist struct {
			name string
			env  *vEnv
		}
		hs := []hist{{"repo", e}}
		if e2 != nil {
			hs = append(hs, hist{"copy", e2})
		}
		zdec, err := zstd.NewReader(nil, zstd.WithDecoderConcurrency(1))
		if err != nil {
			t.Fatal(err)
		}
		defer zdec.Close()
		defer func() {
			if scan.dec != nil {
				scan.dec.Close()
			}
		}()
		w := &vWalkC04{nonces: map[[16]byte]string{}, byKind: map[string]int{}, carriers: map[string]int{}, scan: scan, zdec: zdec, seenFile: map[string]bool{}}
		rawBytes, rawFiles, magics := 0, 0, 0
		for _, h := range hs {
			var key *crypto.Key
			if err := h.env.WithRepo(func(ctx context.Context, repo *repository.Repository) error {
				key = repo.Key()
				return nil
			}); err != nil {
				t.Fatalf("open %s: %v", h.name, err)
			}
			log := h.env.store.Log()
			written := map[vbe.Key][]byte{}
			for _, op := range log {
				if op.Remove {
					continue
				}
				written[op.Key] = op.Data
				rawFiles++
				rawBytes += len(op.Data)
				id := h.name + ":" + op.Key.String()
				// (a) raw scan of the stored bytes and of the stored name
				skip := func(m *vMarkC04) bool { return m.KeyInfo && op.Key.Type == backend.KeyFile }
				hit, n := scan.scanRaw(op.Data, skip)
				magics += n
				if hit != "" {
					t.Fatalf("plaintext in raw repository file %s (%d bytes): %s\ncase %s", id, len(op.Data), hit, vJSON(c))
				}
				if hit, _ := scan.scanRaw([]byte(op.Key.Name), nil); hit != "" {
					t.Fatalf("plaintext in the NAME of repository file %s: %s", id, hit)
				}
				if op.Key.Type != backend.ConfigFile {
					if _, err := restic.ParseID(op.Key.Name); err != nil {
						t.Fatalf("repository file name %s is not an ID", id)
					}
				}
				// (b) every encrypted object, nonce accounting
				if err := w.file(h.name, key, passwords, op, allowedKeyInfo); err != nil {
					t.Fatalf("%v\ncase %s", err, vJSON(c))
				}
			}
			// nothing reached the store behind the log's back
			for k, v := range h.env.store.Files() {
				if d, ok := written[k]; !ok || !bytes.Equal(d, v) {
					t.Fatalf("harness: %s:%s is in the store but was not logged", h.name, k)
				}
			}
		}

		if err := w.keystreamReuse(); err != nil {
			t.Fatalf("%v\ncase %s", err, vJSON(c))
		}

		// scanner self-test on a planted leak (keeps the oracle honest in every run)
		form := vSelfTestC04(t, scan, c.Seed)

		missing := []string{}
		for _, cl := range vCarriersC04 {
			if w.carriers[cl] == 0 {
				missing = append(missing, cl)
			}
		}
		if len(missing) > 0 && !(len(missing) == 1 && missing[0] == "xattr" && !xattrOK) {
			// every marker class was put into the source; if the decrypt walk cannot see one, the walk is blind
			t.Fatalf("harness: carrier classes %v not found in any decrypted object\ncase %s", missing, vJSON(c))
		}
		key := ""
		if w.objects >= 20 && len(missing) == 0 {
			key = vJSON(c)
		}
		classes := []string{"version=" + c.Version, "compression=" + c.Compression, "objects=" + vBucketC04(w.objects),
			fmt.Sprintf("ops=%d", len(c.Ops)), fmt.Sprintf("copy=%v", e2 != nil), fmt.Sprintf("repack=%v", repacked),
			fmt.Sprintf("keys=%d", len(passwords)), "selftest=" + form, fmt.Sprintf("smallpacks=%v", c.PackSize != 0)}
		for _, o := range c.Ops {
			classes = append(classes, "op="+strings.SplitN(o, "(", 2)[0])
		}
		seenKind := map[string]bool{}
		for _, k := range c.Content {
			if !seenKind[k] {
				seenKind[k] = true
				classes = append(classes, "content="+k)
			}
		}
		st.Case(key, classes...)
		st.Evals(w.objects)
		for k, n := range w.byKind {
			st.ClassN("object="+k, n)
		}
		for k, n := range w.carriers {
			st.ClassN("carrier="+k, n)
		}
		st.ClassN("zstd-magic-in-ciphertext", magics)
		st.ClassN("raw-files", rawFiles)
		st.ClassN("raw-KiB", rawBytes/1024)
		st.ClassN("markers", len(scan.marks))
		if st.WantSample() {
			st.Sample(map[string]any{"case": c, "encrypted_objects": w.objects, "by_kind": w.byKind, "carriers": w.carriers,
				"raw_files": rawFiles, "raw_bytes": rawBytes, "markers": len(scan.marks), "patterns": len(scan.pats)})
		}
	})
}

// vSelfTestC04 plants one marker in one encoding into random bytes and requires the raw scan to flag it.
func vSelfTestC04(t *rapid.T, scan *vScanC04, seed uint64) string {
	junk := vPrfC04(seed^0x5e1f, 6000)
	mi := rapid.IntRange(0, len(scan.marks)-1).Draw(t, "selfMarker")
	m := scan.marks[mi]
	form := rapid.SampledFrom([]string{"raw", "hex", "HEX", "b64", "b64url", "json", "zstd", "zstd-in-b64-not-covered"}).Draw(t, "selfForm")
	pre := vPrfC04(seed^0xabc, rapid.IntRange(0, 5).Draw(t, "selfPre"))
	post := vPrfC04(seed^0xdef, rapid.IntRange(0, 5).Draw(t, "selfPost"))
	embedded := append(append(append([]byte{}, pre...), m.Tok...), post...)
	var planted []byte
	switch form {
	case "raw":
		planted = embedded
	case "hex":
		planted = []byte(hex.EncodeToString(embedded))
	case "HEX":
		planted = []byte(strings.ToUpper(hex.EncodeToString(embedded)))
	case "b64":
		planted = []byte(base64.StdEncoding.EncodeToString(embedded))
	case "b64url":
		planted = []byte(base64.URLEncoding.EncodeToString(embedded))
	case "json":
		planted, _ = json.Marshal(map[string]string{"name": "x" + m.Tok + "y"})
	case "zstd":
		lvl := rapid.SampledFrom([]zstd.EncoderLevel{zstd.SpeedFastest, zstd.SpeedDefault, zstd.SpeedBestCompression}).Draw(t, "selfLevel")
		enc, err := zstd.NewWriter(nil, zstd.WithEncoderLevel(lvl), zstd.WithEncoderCRC(false), zstd.WithWindowSize(512*1024))
		if err != nil {
			t.Fatal(err)
		}
		// compressible text: literals are Huffman coded, the token does not appear verbatim
		text := bytes.Repeat([]byte("the quick brown fox "+m.Tok+" jumps over the lazy dog, "), rapid.IntRange(1, 40).Draw(t, "selfRep"))
		text = append([]byte(strings.Repeat("abcdefghijklmnopqrstuvwxyz ABCDEFGHIJKLMNOPQRSTUVWXYZ 0123456789\n", 8)), text...)
		planted = enc.EncodeAll(text, nil)
		_ = enc.Close()
	default:
		// negative control: an encoding outside the enumerated ones must NOT be reported (no accidental matches)
		return "none"
	}
	at := rapid.IntRange(0, len(junk)).Draw(t, "selfAt")
	buf := append(append(append([]byte{}, junk[:at]...), planted...), junk[at:]...)
	if hit, _ := scan.scanRaw(buf, nil); hit == "" {
		t.Fatalf("harness: raw scan missed marker %q planted in form %s at offset %d", m.Tok, form, at)
	}
	if hit, _ := scan.scanRaw(junk, nil); hit != "" {
		t.Fatalf("harness: raw scan reports %s in random bytes", hit)
	}
	return form
}
