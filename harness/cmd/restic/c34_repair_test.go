package main

// C34: repair packs and repair snapshots salvage all intact data.
//
// A generated repository (c03_model_test.go) gets pack damage on a clone of its store.
// The harness decides ITSELF, from the damaged bytes and the healthy index positions, which
// blobs still authenticate (decrypt with the master key, decompress, hash), hence which
// blobs are lost for good, and predicts from the healthy trees what every snapshot must
// look like after `repair packs <ids>` + `repair snapshots --forget`.

import (
	"bytes"
	"context"
	"encoding/json"
	"fmt"
	"os"
	"path"
	"sort"
	"strings"
	"testing"

	"github.com/restic/restic/internal/backend"
	"github.com/restic/restic/internal/data"
	"github.com/restic/restic/internal/global"
	"github.com/restic/restic/internal/repository"
	"github.com/restic/restic/internal/restic"
	"github.com/restic/restic/internal/verifkit"
	"github.com/restic/restic/internal/verifkit/vbe"
	"pgregory.net/rapid"
)

// vNodeJSONC34 renders a node without its subtree id; nil and empty content are the same.
func vNodeJSONC34(n *data.Node) string {
	c := *n
	c.Subtree = nil
	if c.Type == data.NodeTypeFile && c.Content == nil {
		c.Content = restic.IDs{}
	}
	b, err := json.Marshal(&c)
	if err != nil {
		return "marshal error: " + err.Error()
	}
	return string(b)
}

type vPlanC34 struct {
	damaged   map[string]bool            // damaged pack files
	intact    map[string]int             // per damaged pack: blobs that still authenticate
	destroyed map[string]int             // per damaged pack: blobs that do not
	avail     map[restic.BlobHandle]bool // some copy still authenticates
	lost      map[restic.BlobHandle]bool
	viaHeader int // blobs readable only through the damaged file's own header

	lostForSnapshots map[restic.BlobHandle]bool // lost minus the self-healing empty tree
	emptyTreeLost    bool
}

// plan decides blob availability from the damaged store without the code under test.
func (r *vRepoC03) planC34(s *vbe.Store, muts []vMutC03) vPlanC34 {
	p := vPlanC34{damaged: map[string]bool{}, intact: map[string]int{}, destroyed: map[string]int{}, avail: map[restic.BlobHandle]bool{}, lost: map[restic.BlobHandle]bool{}}
	for _, m := range muts {
		p.damaged[m.Name] = true
		if m.Op == "swap" || m.Op == "blobswap" {
			p.damaged[m.Other] = true
		}
	}
	for pack, blobs := range r.packs {
		if !p.damaged[pack] {
			for _, b := range blobs {
				p.avail[b.H] = true
			}
			continue
		}
		buf, _ := s.Get(backend.PackFile, pack)
		for _, b := range blobs {
			if r.blobIntact(buf, b) {
				p.avail[b.H] = true
				p.intact[pack]++
			} else {
				p.destroyed[pack]++
			}
		}
		// a damaged file may carry an intact header of its own that lists other blobs than
		// the index does (a whole pack stored under another pack's name): what authenticates
		// at the header's positions can be read from the named pack as well
		for _, b := range r.headerBlobs(pack, buf) {
			if _, known := r.copies[b.H]; known && !p.avail[b.H] && r.blobIntact(buf, b) {
				p.avail[b.H] = true
				p.viaHeader++
			}
		}
	}
	for h := range r.copies {
		if !p.avail[h] {
			p.lost[h] = true
		}
	}
	// The tree blob of an EMPTY directory heals itself: repair snapshots replaces an unreadable
	// subtree by an empty directory, i.e. it writes exactly that blob again. For the prediction
	// of the snapshots it is therefore not lost (after repair packs alone it is).
	p.lostForSnapshots = map[restic.BlobHandle]bool{}
	for h := range p.lost {
		if h.Type == restic.TreeBlob {
			var tr struct {
				Nodes []json.RawMessage `json:"nodes"`
			}
			if json.Unmarshal(r.plain[h], &tr) == nil && len(tr.Nodes) == 0 {
				p.emptyTreeLost = true
				continue
			}
		}
		p.lostForSnapshots[h] = true
	}
	return p
}

// vPredictC34 computes the expected nodes of a snapshot after repair; removed=true if the
// root tree is lost; changed=false if nothing the snapshot references is lost.
func (r *vRepoC03) predictC34(sn *vSnapC03, lost map[restic.BlobHandle]bool) (nodes map[string]string, removed, changed bool, lostDirs []string, hitFiles []string) {
	if lost[restic.BlobHandle{Type: restic.TreeBlob, ID: sn.Root}] {
		return nil, true, true, nil, nil
	}
	nodes = map[string]string{}
	paths := make([]string, 0, len(sn.Nodes))
	for p := range sn.Nodes {
		paths = append(paths, p)
	}
	sort.Strings(paths)
	under := func(p string) bool {
		for _, d := range lostDirs {
			if strings.HasPrefix(p, d+"/") {
				return true
			}
		}
		return false
	}
	for _, p := range paths {
		if under(p) {
			continue
		}
		n := sn.Nodes[p]
		switch n.Type {
		case data.NodeTypeDir:
			if n.Subtree != nil && lost[restic.BlobHandle{Type: restic.TreeBlob, ID: *n.Subtree}] {
				lostDirs = append(lostDirs, p)
				changed = true
			}
			nodes[p] = vNodeJSONC34(n)
		case data.NodeTypeFile:
			c := *n
			c.Content = restic.IDs{}
			c.Size = 0
			hit := false
			for _, id := range n.Content {
				h := restic.BlobHandle{Type: restic.DataBlob, ID: id}
				if lost[h] {
					hit = true
					continue
				}
				c.Content = append(c.Content, id)
				c.Size += uint64(len(r.plain[h]))
			}
			if hit {
				changed = true
				hitFiles = append(hitFiles, p)
				nodes[p] = vNodeJSONC34(&c)
			} else {
				nodes[p] = vNodeJSONC34(n)
			}
		default:
			nodes[p] = vNodeJSONC34(n)
		}
	}
	return nodes, false, changed, lostDirs, hitFiles
}

// vExpectedTreeC34 derives the expected restore result (relative to the source dir) of a repaired snapshot.
func (r *vRepoC03) expectedTreeC34(sn *vSnapC03, lost map[restic.BlobHandle]bool, lostDirs, hitFiles []string) (vTree, bool) {
	src := path.Clean("/" + strings.Trim(r.src, "/"))
	for _, d := range lostDirs {
		if d == src || strings.HasPrefix(src, d+"/") {
			return nil, false // the source directory itself is gone
		}
	}
	want := sn.Tree.Clone()
	for _, d := range lostDirs {
		rel := strings.TrimPrefix(d, src+"/")
		for p := range want {
			if strings.HasPrefix(p, rel+"/") {
				delete(want, p)
			}
		}
	}
	for _, f := range hitFiles {
		rel := strings.TrimPrefix(f, src+"/")
		nd, ok := want[rel]
		if !ok {
			continue
		}
		var content []byte
		for _, id := range sn.Nodes[f].Content {
			h := restic.BlobHandle{Type: restic.DataBlob, ID: id}
			if !lost[h] {
				content = append(content, r.plain[h]...)
			}
		}
		nd.Len = len(content)
		nd.Sum = vSum(content)
	}
	return want, true
}

func vRepairPacksC34(e *vEnv, ids []string) (vOut, error) {
	g := e.gopts
	g.Quiet = false
	out, err := e.call(g, func(ctx context.Context, gopts global.Options) error {
		return runRepairPacks(ctx, gopts, gopts.Term, ids)
	})
	// the command drops backup copies of the packs into the current directory
	for _, id := range ids {
		_ = os.Remove("pack-" + id)
	}
	return out, err
}

func vRepairSnapshotsC34(e *vEnv) (vOut, error) {
	g := e.gopts
	g.Quiet = false
	return e.call(g, func(ctx context.Context, gopts global.Options) error {
		return runRepairSnapshots(ctx, gopts, RepairOptions{Forget: true}, nil, gopts.Term)
	})
}

// evalRepairC34 runs damage + repair on a clone and checks every part of the oracle.
func (r *vRepoC03) evalRepairC34(muts []vMutC03) (classes []string, nontrivial bool, violation string) {
	s := r.e.store.Clone()
	for _, m := range muts {
		vApplyC03(s, m)
	}
	applied := r.effective(s, muts)
	if len(applied) == 0 {
		return []string{"noop"}, false, ""
	}
	plan := r.planC34(s, applied)
	for pk := range plan.damaged {
		if plan.intact[pk] >= 1 && plan.destroyed[pk] >= 1 {
			nontrivial = true
		}
		switch {
		case plan.destroyed[pk] == 0:
			classes = append(classes, "pack_blobs=all_intact")
		case plan.intact[pk] == 0:
			classes = append(classes, "pack_blobs=all_destroyed")
		default:
			classes = append(classes, "pack_blobs=mixed")
		}
	}
	classes = append(classes, fmt.Sprintf("lost_blobs=%v", len(plan.lost) > 0))
	if plan.emptyTreeLost {
		classes = append(classes, "empty_tree_lost_selfheals")
	}
	if plan.viaHeader > 0 {
		classes = append(classes, "salvage_via_own_header")
	}
	se := r.e.OnStore(s)
	defer se.Release()
	fail := func(f string, a ...any) ([]string, bool, string) {
		return classes, nontrivial, fmt.Sprintf(f, a...)
	}

	// what does check advise? (measured; the ids given to repair packs come from the model)
	var ids []string
	for pk := range plan.damaged {
		ids = append(ids, pk)
	}
	sort.Strings(ids)
	cout, cerr := se.Check(true)
	if cerr == nil {
		return fail("check --read-data found nothing although packs %v are damaged", ids)
	}
	advised := true
	for _, id := range ids {
		if !strings.Contains(cout.Stdout+cout.Stderr, "restic repair packs") || !strings.Contains(cout.Stdout+cout.Stderr, id) {
			advised = false
		}
	}
	classes = append(classes, fmt.Sprintf("check_advises_repair_packs=%v", advised))

	// 1. repair packs
	pout, err := vRepairPacksC34(se, ids)
	if err != nil {
		return fail("repair packs %v failed: %v\n%s%s", ids, err, pout.Stdout, pout.Stderr)
	}
	for _, id := range ids {
		if _, ok := s.Get(backend.PackFile, id); ok {
			return fail("damaged pack %s still exists after repair packs", id)
		}
	}
	var nodesAfter map[string]map[string]string // snapshot id -> path -> node
	var originals map[string]string             // snapshot id -> original id
	err = vWithIndexC03(se, func(ctx context.Context, repo *repository.Repository) error {
		for h := range r.copies {
			pbs := repo.LookupBlob(h)
			for _, pb := range pbs {
				if plan.damaged[pb.PackID().String()] {
					return fmt.Errorf("index still lists %v in removed pack %s", h, pb.PackID().String()[:8])
				}
			}
			if plan.avail[h] {
				if len(pbs) == 0 {
					return fmt.Errorf("blob %v still authenticated (in the damaged pack or elsewhere) but is gone after repair packs", h)
				}
				pt, err := repo.LoadBlob(ctx, h, nil)
				if err != nil {
					return fmt.Errorf("salvaged blob %v cannot be loaded: %v", h, err)
				}
				if !bytes.Equal(pt, r.plain[h]) {
					return fmt.Errorf("salvaged blob %v has different content", h)
				}
			} else if len(pbs) != 0 {
				return fmt.Errorf("blob %v does not authenticate anywhere but is still listed after repair packs", h)
			}
		}
		return nil
	})
	if err != nil {
		return fail("after repair packs %v: %v\nrepair output:\n%s%s", ids, err, pout.Stdout, pout.Stderr)
	}

	// 2. repair snapshots --forget
	sout, err := vRepairSnapshotsC34(se)
	if err != nil {
		return fail("repair snapshots --forget failed: %v\n%s%s", err, sout.Stdout, sout.Stderr)
	}
	// 3. the result passes check
	if out, err := se.Check(true); err != nil {
		return fail("check --read-data after repair packs + repair snapshots --forget: %v\n%s%s\nrepair snapshots output:\n%s", err, out.Stdout, out.Stderr, sout.Stdout)
	}
	// 4. snapshots are what the model predicts
	nodesAfter = map[string]map[string]string{}
	originals = map[string]string{}
	err = vWithIndexC03(se, func(ctx context.Context, repo *repository.Repository) error {
		return data.ForAllSnapshots(ctx, repo, repo, nil, func(id restic.ID, sn *data.Snapshot, err error) error {
			if err != nil {
				return err
			}
			m := map[string]string{}
			var werr error
			vWalkC03(ctx, repo, *sn.Tree, "/", func(p string, n *data.Node) { m[p] = vNodeJSONC34(n) }, nil, func(p string, err error) { werr = fmt.Errorf("%s: %v", p, err) })
			if werr != nil {
				return fmt.Errorf("snapshot %s: %v", id.Str(), werr)
			}
			nodesAfter[id.String()] = m
			if sn.Original != nil {
				originals[id.String()] = sn.Original.String()
			}
			return nil
		})
	})
	if err != nil {
		return fail("reading snapshots after repair: %v", err)
	}
	claimed := map[string]bool{}
	for _, sn := range r.snaps {
		want, removed, chg, lostDirs, hitFiles := r.predictC34(sn, plan.lostForSnapshots)
		var succ []string
		for id, o := range originals {
			if o == sn.ID {
				succ = append(succ, id)
			}
		}
		_, still := nodesAfter[sn.ID]
		switch {
		case removed:
			classes = append(classes, "snapshot=removed")
			if still || len(succ) != 0 {
				return fail("snapshot %s lost its root tree but still exists (kept=%v successors=%v)", sn.ID[:8], still, succ)
			}
			continue
		case !chg:
			classes = append(classes, "snapshot=untouched")
			if !still || len(succ) != 0 {
				return fail("snapshot %s references no lost blob but was replaced (kept=%v successors=%v)\n%s", sn.ID[:8], still, succ, sout.Stdout)
			}
			succ = []string{sn.ID}
		default:
			classes = append(classes, "snapshot=repaired")
			if still || len(succ) != 1 {
				return fail("snapshot %s references lost blobs: expected it to be replaced by exactly one repaired snapshot (kept=%v successors=%v)\n%s", sn.ID[:8], still, succ, sout.Stdout)
			}
		}
		claimed[succ[0]] = true
		got := nodesAfter[succ[0]]
		for p, w := range want {
			g, ok := got[p]
			if !ok {
				return fail("snapshot %s -> %s: %q is missing after repair although its data is available (lost dirs %v)", sn.ID[:8], succ[0][:8], p, lostDirs)
			}
			if g != w {
				return fail("snapshot %s -> %s: node %q differs after repair\n got %s\nwant %s", sn.ID[:8], succ[0][:8], p, g, w)
			}
		}
		for p := range got {
			if _, ok := want[p]; !ok {
				return fail("snapshot %s -> %s: unexpected node %q after repair", sn.ID[:8], succ[0][:8], p)
			}
		}
		if len(lostDirs) > 0 {
			classes = append(classes, "dir_emptied")
		}
		if len(hitFiles) > 0 {
			classes = append(classes, "file_content_removed")
		}
		// 5. end to end: the repaired snapshot restores without error to the predicted tree
		exp, ok := r.expectedTreeC34(sn, plan.lostForSnapshots, lostDirs, hitFiles)
		if !ok {
			classes = append(classes, "source_dir_lost")
			continue
		}
		rs := *sn
		rs.ID, rs.Tree = succ[0], exp
		if o, v := r.restoreOutcome(se, &rs); o != "ok" || v != "" {
			return fail("snapshot %s -> %s: restore after repair: %s %s", sn.ID[:8], succ[0][:8], o, v)
		}
	}
	for id := range nodesAfter {
		if !claimed[id] {
			return fail("unexpected snapshot %s after repair (original %q)", id[:8], originals[id])
		}
	}
	return classes, nontrivial, ""
}

func TestVerifC34RepairSalvages(t *testing.T) {
	vSetup(t)
	st := verifkit.Begin(t, "C34")
	sitesPerRepo := verifkit.Scale(6, 16)
	rapid.Check(t, func(t *rapid.T) {
		r := vGenRepoC03(t, vRepoGenC03{AllowDup: true, MaxEntries: 11, AllowMultiBlob: true})
		defer r.Close()
		if err := r.healthy(r.e); err != nil {
			t.Fatalf("harness: the undamaged repository is not healthy: %v (%s)", err, vJSON(r.Desc))
		}
		digest := r.e.store.Digest()[:16]
		st.Class("repo/version="+r.Desc.Version, fmt.Sprintf("repo/dup=%v", r.Desc.Dup))
		// packs with at least two blobs are where salvage matters
		var multi []string
		for _, k := range r.filesOf(backend.PackFile) {
			if len(r.packs[k.Name]) >= 2 {
				multi = append(multi, k.Name)
			}
		}
		for i := 0; i < sitesPerRepo; i++ {
			var muts []vMutC03
			n := rapid.SampledFrom([]int{1, 1, 1, 2, 3}).Draw(t, "nmuts")
			for j := 0; j < n; j++ {
				if len(multi) > 0 && rapid.IntRange(0, 4).Draw(t, "target") != 0 {
					// damage inside one blob of a multi-blob pack, or cut the pack between blobs
					pk := multi[rapid.IntRange(0, len(multi)-1).Draw(t, "pack")]
					blobs := r.packs[pk]
					b := blobs[rapid.IntRange(0, len(blobs)-1).Draw(t, "blob")]
					m := vMutC03{Type: backend.PackFile.String(), Name: pk}
					m.Op = rapid.SampledFrom([]string{"flip", "flip", "set", "trunc"}).Draw(t, "op")
					m.Off = b.Off + rapid.IntRange(0, b.Len-1).Draw(t, "off")
					m.Bit = uint(rapid.IntRange(0, 7).Draw(t, "bit"))
					if m.Op == "trunc" && b.Off == 0 {
						m.Off = b.Off + b.Len + rapid.IntRange(0, 40).Draw(t, "cut") // keep the first blob
					}
					if m.Op == "set" {
						old, _ := r.e.store.Get(backend.PackFile, pk)
						m.Val = old[m.Off] + byte(rapid.IntRange(1, 255).Draw(t, "delta"))
					}
					m.Where = r.classify(vbe.Key{Type: backend.PackFile, Name: pk}, m.Off)
					muts = append(muts, m)
				} else {
					muts = append(muts, r.vDrawMutC03(t, true))
				}
			}
			classes, nt, violation := r.evalRepairC34(muts)
			for _, m := range muts {
				classes = append(classes, "op="+m.Op, "site="+m.Where)
			}
			key := ""
			if nt {
				key = digest + vMutsStringC34(muts)
				classes = append(classes, "nontrivial")
			}
			st.Case(key, classes...)
			if st.WantSample() {
				st.Sample(map[string]any{"repo": r.Desc, "changes": muts, "classes": classes})
			}
			if violation != "" {
				t.Fatalf("C34 violated: %s\nchanges: %s\nrepository: %s", violation, vMutsStringC34(muts), vJSON(r.Desc))
			}
		}
	})
}

func vMutsStringC34(muts []vMutC03) string {
	var sb strings.Builder
	for _, m := range muts {
		sb.WriteString(vJSON(m))
	}
	return sb.String()
}
