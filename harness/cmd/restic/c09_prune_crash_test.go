package main

import (
	"context"
	"fmt"
	"os"
	"strings"
	"testing"

	"github.com/restic/restic/internal/backend"
	"github.com/restic/restic/internal/global"
	"github.com/restic/restic/internal/repository"
	"github.com/restic/restic/internal/verifkit"
	"github.com/restic/restic/internal/verifkit/vbe"
	"pgregory.net/rapid"
)

// vHistC09 is the generated scenario (also the JSON replay form in samples).
type vHistC09 struct {
	Version   string   `json:"version"`
	Backups   int      `json:"backups"`
	Forget    []int    `json:"forget"`     // indices of backups whose snapshot is forgotten before the prune
	Opts      []string `json:"prune_opts"` // max-unused, max-repack-size, cacheable-only, uncompressed, smaller-than
	PreCrash  int      `json:"pre_crash"`  // >=0: an earlier prune run is cut after that many mutating ops
	ForgetPrune bool   `json:"forget_prune"`
}

func vPruneOptsC09(t *rapid.T) (PruneOptions, []string) {
	o := PruneOptions{
		MaxUnused:           rapid.SampledFrom([]string{"0", "0", "0", "0", "0", "5%", "50%", "unlimited", "1k", "100k"}).Draw(t, "maxunused"),
		MaxRepackSize:       rapid.SampledFrom([]string{"", "", "", "", "", "0", "2k", "1M"}).Draw(t, "maxrepack"),
		RepackCacheableOnly: rapid.IntRange(0, 4).Draw(t, "cacheable") == 0,
		RepackUncompressed:  rapid.IntRange(0, 4).Draw(t, "uncompressed") == 0,
		SmallPackSize:       rapid.SampledFrom([]string{"", "", "1M", "1M", "1k"}).Draw(t, "smaller"),
	}
	return o, []string{o.MaxUnused, o.MaxRepackSize, fmt.Sprint(o.RepackCacheableOnly), fmt.Sprint(o.RepackUncompressed), o.SmallPackSize}
}

// vStateOKC09 asserts the property's post-condition on one repository state:
// check --read-data finds no error and every kept snapshot restores to its model.
func vStateOKC09(e *vEnv, s *vbe.Store, keep map[string]vTree, src string) error {
	// the crashed process is dead: its lock is stale and `restic unlock` removes it
	s.DropLocks()
	se := e.OnStore(s)
	defer se.Release()
	if out, err := se.Check(true); err != nil {
		return fmt.Errorf("check --read-data: %v\n%s%s", err, out.Stdout, out.Stderr)
	}
	for id, tr := range keep {
		d, err := se.RestoreEq(id, src, tr)
		if err != nil {
			return err
		}
		if d != "" {
			return fmt.Errorf("snapshot %s restores differently: %s", id[:8], d)
		}
	}
	return nil
}

func vCountOps(log []vbe.Op) (packSaves, packRemoves, indexSaves, indexRemoves int) {
	for _, op := range log {
		switch {
		case op.Key.Type == backend.PackFile && !op.Remove:
			packSaves++
		case op.Key.Type == backend.PackFile && op.Remove:
			packRemoves++
		case op.Key.Type == backend.IndexFile && !op.Remove:
			indexSaves++
		case op.Key.Type == backend.IndexFile && op.Remove:
			indexRemoves++
		}
	}
	return
}

func TestVerifC09PruneCrashPrefixes(t *testing.T) {
	vSetup(t)
	st := verifkit.Begin(t, "C09")
	rapid.Check(t, func(t *rapid.T) {
		h := vHistC09{Version: rapid.SampledFrom([]string{"1", "2", "2"}).Draw(t, "version"), PreCrash: -1}
		e, err := vNewEnv(true)
		if err != nil {
			t.Fatal(err)
		}
		defer e.Close()
		e.gopts.Compression = rapid.SampledFrom([]repository.CompressionMode{repository.CompressionAuto, repository.CompressionAuto, repository.CompressionOff, repository.CompressionOff, repository.CompressionFastest, repository.CompressionFastest, repository.CompressionMax}).Draw(t, "compression")
		if err := e.Init(h.Version); err != nil {
			t.Fatal(err)
		}
		src := e.Scratch("src-")

		// history of backups over a shared content pool: snapshots share blobs, so
		// forgetting some leaves partly used packs
		h.Backups = rapid.IntRange(2, 5).Draw(t, "backups")
		models := map[string]vTree{}
		var order []string
		for i := 0; i < h.Backups; i++ {
			var tr vTree
			if i == 0 || rapid.IntRange(0, 3).Draw(t, "fresh") == 0 {
				tr = vGenTree(t, vTreeGen{MaxEntries: 14, ContentPool: 28})
			} else {
				// an edit of the previous tree: drop some files, add new ones. Blobs first stored by an
				// earlier backup stay partly used when that snapshot is forgotten => packs to repack
				tr = models[order[i-1]].Clone()
				for _, p := range tr.Paths() {
					if tr[p].Kind == 'f' && rapid.IntRange(0, 2).Draw(t, "drop") == 0 {
						delete(tr, p)
					}
				}
				nn := rapid.IntRange(1, 4).Draw(t, "nnew")
				for j := 0; j < nn; j++ {
					tr[fmt.Sprintf("new%d_%d", i, j)] = &vNode{Kind: 'f', Mode: 0o644, Mtime: int64(1500000000+i*1000+j) * 1e9,
						Seed: rapid.Uint64().Draw(t, "newseed"), Len: rapid.IntRange(1, 3000).Draw(t, "newlen")}
				}
			}
			_ = os.RemoveAll(src)
			_ = os.Mkdir(src, 0o755)
			if err := tr.Materialize(src); err != nil {
				t.Fatal(err)
			}
			before, _ := e.SnapshotIDs()
			bo := BackupOptions{}
			if rapid.IntRange(0, 3).Draw(t, "force") == 0 {
				bo.Force = true
			}
			if err := e.Backup([]string{src}, bo); err != nil {
				t.Fatalf("backup: %v", err)
			}
			after, _ := e.SnapshotIDs()
			id := vNewID(before, after)
			if id == "" {
				t.Fatalf("no new snapshot after backup %d", i)
			}
			models[id] = tr
			order = append(order, id)
		}

		// forget a non-empty strict subset
		nf := rapid.IntRange(1, h.Backups-1).Draw(t, "nforget")
		perm := rapid.Permutation(vRange(h.Backups)).Draw(t, "forgetperm")
		h.Forget = perm[:nf]
		h.ForgetPrune = rapid.IntRange(0, 2).Draw(t, "forgetprune") == 0
		popts, optdesc := vPruneOptsC09(t)
		if popts.RepackUncompressed && (e.gopts.Compression == repository.CompressionOff || h.Version == "1") {
			popts.RepackUncompressed = false
		}
		h.Opts = optdesc
		var forgetIDs []string
		keep := map[string]vTree{}
		for i, id := range order {
			forgotten := false
			for _, f := range h.Forget {
				if f == i {
					forgotten = true
				}
			}
			if forgotten {
				forgetIDs = append(forgetIDs, id)
			} else {
				keep[id] = models[id]
			}
		}

		runPruneCmd := func(env *vEnv) error {
			if h.ForgetPrune {
				_, err := env.Forget(ForgetOptions{Prune: true}, popts, forgetIDs...)
				return err
			}
			return env.Prune(popts)
		}
		if !h.ForgetPrune {
			if _, err := e.Forget(ForgetOptions{}, PruneOptions{}, forgetIDs...); err != nil {
				t.Fatalf("forget: %v", err)
			}
		}

		// optionally: an earlier prune of the same kind that was interrupted
		if !h.ForgetPrune && rapid.IntRange(0, 2).Draw(t, "precrash") == 0 {
			probe := e.OnStore(e.store.Clone())
			probe.store.StartRecording(vbe.NoFaults())
			perr := probe.Prune(popts)
			plog := probe.store.StopRecording()
			probe.Release()
			if perr == nil && len(plog) > 1 {
				h.PreCrash = rapid.IntRange(1, len(plog)-1).Draw(t, "precrashAt")
				crashed := probe.store.StateAt(h.PreCrash)
				crashed.DropLocks() // the interrupted process is dead, `restic unlock` removed its lock
				e.ReplaceStore(crashed)
			}
		}

		// the prune run under observation, recorded
		e.store.StartRecording(vbe.NoFaults())
		perr := runPruneCmd(e)
		log := e.store.StopRecording()
		if perr != nil {
			t.Fatalf("prune failed on a healthy backend: %v (history %s)", perr, vJSON(h))
		}
		ps, pr, is, ir := vCountOps(log)
		key := ""
		if ps >= 1 && pr >= 1 && len(log) >= 3 {
			key = vJSON(h) + e.store.Digest()[:16]
		}
		st.Case(key, fmt.Sprintf("repack=%v", ps > 0), fmt.Sprintf("remove=%v", pr > 0),
			fmt.Sprintf("precrash=%v", h.PreCrash >= 0), "maxunused="+popts.MaxUnused, fmt.Sprintf("forgetprune=%v", h.ForgetPrune))
		if st.WantSample() {
			var ops []string
			for _, op := range log {
				ops = append(ops, op.String())
			}
			st.Sample(map[string]any{"history": h, "prune_ops": ops, "pack_saves": ps, "pack_removes": pr, "index_saves": is, "index_removes": ir})
		}

		// with forget --prune the snapshots are removed during the run: the forgotten ones need not survive
		// every crash prefix of the recorded run
		for k := 0; k <= len(log); k++ {
			st.Evals(1)
			if err := vStateOKC09(e, e.store.StateAt(k), keep, src); err != nil {
				t.Fatalf("crash after %d of %d prune operations (%s): %v\nops:\n%s\nhistory %s", k, len(log), vOpAt(log, k), err, vOpsString(log), vJSON(h))
			}
		}

		// the "fails" variants on a fresh copy of the pre-prune state: backend goes away at op k;
		// a transient failure of op k; op k applied but reported as failed
		if len(log) > 0 {
			k := rapid.IntRange(0, len(log)-1).Draw(t, "failAt")
			mode := rapid.SampledFrom([]string{"failfrom", "failonce", "failafterapply", "cancel", "failone", "failone"}).Draw(t, "failmode")
			if h.ForgetPrune && len(forgetIDs) >= 2 {
				// forget --prune of several snapshots where the removal of exactly ONE snapshot file
				// fails for good: that snapshot stays, so nothing it needs may be pruned
				var snaprm []int
				for i, op := range log {
					if op.Key.Type == backend.SnapshotFile && op.Remove {
						snaprm = append(snaprm, i)
					}
				}
				if len(snaprm) > 0 && rapid.IntRange(0, 2).Draw(t, "failSnapRemove") > 0 {
					mode = "failone"
					k = snaprm[rapid.IntRange(0, len(snaprm)-1).Draw(t, "failSnapRemoveAt")]
					st.Class("fault=failone-snapshot-remove")
				}
			}
			fs := e.store.StateAt(0)
			fe := e.OnStore(fs)
			if mode == "failone" {
				// exactly one logical request fails for good (above the retry layer), everything after
				// it works again: exposes swallowed errors (a seeded change that dropped the error of a
				// failed index save in prune was invisible to crash prefixes)
				base := fe
				fe, _ = base.WithFailOne(k)
			}
			f := vbe.NoFaults()
			ctx, cancel := context.WithCancel(context.Background())
			switch mode {
			case "failfrom":
				f.FailFrom = k
			case "failonce":
				f.FailOnce = map[int]bool{k: true}
			case "failafterapply":
				f.FailAfterApply = map[int]bool{k: true}
			case "cancel":
				f.CancelAt, f.Cancel = k, cancel
			}
			fs.StartRecording(f)
			var ferr error
			if mode == "cancel" {
				_, ferr = fe.callCtx(ctx, fe.gopts, func(ctx context.Context, gopts global.Options) error {
					return runPrune(ctx, popts, gopts, gopts.Term)
				})
			} else if h.ForgetPrune {
				_, ferr = fe.Forget(ForgetOptions{Prune: true}, popts, forgetIDs...)
			} else {
				ferr = fe.Prune(popts)
			}
			cancel()
			fs.StopRecording()
			st.Class("fault=" + mode, fmt.Sprintf("fault_err=%v", ferr != nil))
			st.Evals(1)
			if err := vStateOKC09(e, fs, keep, src); err != nil {
				t.Fatalf("prune with fault %s at op %d (returned %v): %v\nhistory %s", mode, k, ferr, err, vJSON(h))
			}
			// a later prune on that state succeeds and leaves it fine
			if err := fe.Prune(PruneOptions{MaxUnused: "0"}); err != nil {
				t.Fatalf("follow-up prune after fault %s at op %d failed: %v", mode, k, err)
			}
			if err := vStateOKC09(e, fs, keep, src); err != nil {
				t.Fatalf("after follow-up prune (fault %s at op %d): %v", mode, k, err)
			}
			fe.Release()
		}
	})
}

func vOpAt(log []vbe.Op, k int) string {
	if k < len(log) {
		return "next: " + log[k].String()
	}
	return "complete"
}

func vOpsString(log []vbe.Op) string {
	var sb strings.Builder
	for i, op := range log {
		fmt.Fprintf(&sb, "  %2d %s\n", i, op)
	}
	return sb.String()
}
