package main

import (
	"context"
	"fmt"
	"os"
	"path/filepath"
	"sort"
	"testing"
	"time"

	"github.com/restic/restic/internal/data"
	"github.com/restic/restic/internal/filter"
	"github.com/restic/restic/internal/repository"
	"github.com/restic/restic/internal/restic"
	"github.com/restic/restic/internal/verifkit"
	"golang.org/x/sys/unix"
	"pgregory.net/rapid"
)

// C20, --delete and snapshot entries that restore does not write: a unix socket is part of the
// snapshot (the archiver stores a node for it) although restore cannot create it. "With
// --delete, exactly the pre-existing entries that are selected but NOT PART OF THE SNAPSHOT
// are removed" - so whatever stands at the socket's path in the target before the restore (a
// live socket of a running service when restoring in place, a file, a directory with content)
// must still be there afterwards, under every selection, while a selected stale sibling goes.
// (Added after an independent seeded change - the socket check moved in front of the
// bookkeeping of the names a snapshot directory holds - was missed: generated snapshots had
// files, directories and symlinks only.)
func TestVerifC20SocketDelete(t *testing.T) {
	vSetup(t)
	st := verifkit.Begin(t, "C20")
	rapid.Check(t, func(t *rapid.T) {
		e, err := vNewEnv(true)
		if err != nil {
			t.Fatal(err)
		}
		defer e.Close()
		if err := e.Init("2"); err != nil {
			t.Fatal(err)
		}
		// The archiver of this version skips sockets; snapshots written by older versions (and the
		// tree format) do hold socket nodes. The snapshot is therefore written by hand:
		// /a.txt, /<sub>/{<sock>, app.pid, note.txt}, optionally /top.sock
		sub := rapid.SampledFrom([]string{"run", "d", "x y"}).Draw(t, "subdir")
		sockName := rapid.SampledFrom([]string{"app.sock", "s", "note.sock.txt"}).Draw(t, "sockname")
		topSock := rapid.Bool().Draw(t, "topsock")
		must := func(err error) {
			if err != nil {
				t.Fatalf("harness: %v", err)
			}
		}
		src := "/src"
		mt := time.Date(2021, 3, 4, 5, 6, 7, 0, time.UTC)
		var snapID string
		must(e.WithRepoRW(func(ctx context.Context, repo *repository.Repository) error {
			if err := repo.LoadIndex(ctx, restic.NoopTerminalCounterFactory); err != nil {
				return err
			}
			var root restic.ID
			if err := repo.WithBlobUploader(ctx, func(ctx context.Context, up restic.BlobSaverWithAsync) error {
				file := func(name, content string) (*data.Node, error) {
					id, _, _, err := up.SaveBlob(ctx, restic.DataBlob, []byte(content), restic.ID{}, false)
					return &data.Node{Name: name, Type: data.NodeTypeFile, Mode: 0o644, ModTime: mt, AccessTime: mt, ChangeTime: mt, Size: uint64(len(content)), Content: restic.IDs{id}}, err
				}
				sock := func(name string) *data.Node {
					return &data.Node{Name: name, Type: data.NodeTypeSocket, Mode: os.ModeSocket | 0o644, ModTime: mt, AccessTime: mt, ChangeTime: mt}
				}
				tree := func(nodes []*data.Node) (restic.ID, error) {
					sort.Slice(nodes, func(i, j int) bool { return nodes[i].Name < nodes[j].Name })
					b := data.NewTreeJSONBuilder()
					for _, n := range nodes {
						if err := b.AddNode(n); err != nil {
							return restic.ID{}, err
						}
					}
					buf, err := b.Finalize()
					if err != nil {
						return restic.ID{}, err
					}
					id, _, _, err := up.SaveBlob(ctx, restic.TreeBlob, buf, restic.ID{}, false)
					return id, err
				}
				pid, err := file("app.pid", "snap:pid")
				if err != nil {
					return err
				}
				note, err := file("note.txt", "snap:note")
				if err != nil {
					return err
				}
				a, err := file("a.txt", "snap:a")
				if err != nil {
					return err
				}
				subID, err := tree([]*data.Node{pid, note, sock(sockName)})
				if err != nil {
					return err
				}
				top := []*data.Node{a, {Name: sub, Type: data.NodeTypeDir, Mode: os.ModeDir | 0o755, ModTime: mt, AccessTime: mt, ChangeTime: mt, Subtree: &subID}}
				if topSock {
					top = append(top, sock("top.sock"))
				}
				root, err = tree(top)
				return err
			}); err != nil {
				return err
			}
			sn, err := data.NewSnapshot([]string{src}, nil, "vhost", mt)
			if err != nil {
				return err
			}
			sn.Tree = &root
			id, err := data.SaveSnapshot(ctx, repo, sn)
			snapID = id.String()
			return err
		}))
		ids := []string{snapID}
		if out, err := e.Check(true); err != nil {
			t.Fatalf("harness: the hand-written snapshot does not pass check: %v\n%s%s", err, out.Stdout, out.Stderr)
		}

		// pre-existing target: something at the socket paths, stale entries next to them
		target := e.Scratch("target-")
		defer os.RemoveAll(target)
		must(os.Mkdir(filepath.Join(target, sub), 0o755))
		preKind := rapid.SampledFrom([]string{"socket", "file", "dir-with-content", "symlink"}).Draw(t, "prekind")
		place := func(p string) {
			switch preKind {
			case "socket":
				if err := unix.Mknod(p, unix.S_IFSOCK|0o600, 0); err != nil {
					// not permitted here: a plain file stands in
					preKind = "file"
					must(os.WriteFile(p, []byte("pre:"+filepath.Base(p)), 0o600))
				}
			case "file":
				must(os.WriteFile(p, []byte("pre:"+filepath.Base(p)), 0o600))
			case "dir-with-content":
				must(os.Mkdir(p, 0o755))
				must(os.WriteFile(filepath.Join(p, "inside.txt"), []byte("pre:inside"), 0o644))
			case "symlink":
				must(os.Symlink("pre-target", p))
			}
		}
		place(filepath.Join(target, sub, sockName))
		if topSock {
			place(filepath.Join(target, "top.sock"))
		}
		must(os.WriteFile(filepath.Join(target, sub, "stale.txt"), []byte("stale"), 0o644))
		must(os.WriteFile(filepath.Join(target, "stale.txt"), []byte("stale"), 0o644))

		mode := rapid.SampledFrom([]string{"nofilter", "include-txt", "include-subdir", "exclude-pid", "include-sock"}).Draw(t, "filter")
		opts := RestoreOptions{Delete: true}
		switch mode {
		case "include-txt":
			opts.IncludePatternOptions = filter.IncludePatternOptions{Includes: []string{"*.txt"}}
		case "include-subdir":
			opts.IncludePatternOptions = filter.IncludePatternOptions{Includes: []string{"/" + sub}}
		case "exclude-pid":
			opts.ExcludePatternOptions = filter.ExcludePatternOptions{Excludes: []string{"*.pid"}}
		case "include-sock":
			opts.IncludePatternOptions = filter.IncludePatternOptions{Includes: []string{sockName, "top.sock", "note.txt"}}
		}
		if err := e.Restore(ids[0], target, opts); err != nil {
			t.Fatalf("restore --delete (%s): %v", mode, err)
		}

		kept := func(p string) error {
			fi, err := os.Lstat(p)
			if err != nil {
				return fmt.Errorf("%s: the pre-existing %s at the path of a snapshot entry (a socket) is gone after restore --delete (%s): %v", p, preKind, mode, err)
			}
			switch preKind {
			case "socket":
				if fi.Mode()&os.ModeSocket == 0 {
					return fmt.Errorf("%s: pre-existing socket replaced by %v", p, fi.Mode())
				}
			case "file":
				if b, err := os.ReadFile(p); err != nil || string(b) != "pre:"+filepath.Base(p) {
					return fmt.Errorf("%s: pre-existing file changed: %q %v", p, b, err)
				}
			case "dir-with-content":
				if !fi.IsDir() {
					return fmt.Errorf("%s: pre-existing directory replaced by %v", p, fi.Mode())
				}
			case "symlink":
				if tg, err := os.Readlink(p); err != nil || tg != "pre-target" {
					return fmt.Errorf("%s: pre-existing symlink changed: %q %v", p, tg, err)
				}
			}
			return nil
		}
		if err := kept(filepath.Join(target, sub, sockName)); err != nil {
			t.Fatal(err)
		}
		if topSock {
			if err := kept(filepath.Join(target, "top.sock")); err != nil {
				t.Fatal(err)
			}
		}
		// control: --delete did work on the visited directories (a selected stale file is gone)
		if mode == "nofilter" || mode == "exclude-pid" {
			for _, p := range []string{filepath.Join(target, "stale.txt"), filepath.Join(target, sub, "stale.txt")} {
				if _, err := os.Lstat(p); err == nil {
					t.Fatalf("%s: stale entry survived restore --delete (%s)", p, mode)
				}
			}
		}
		st.Case(fmt.Sprintf("socket|%s|%s|%v|%s|%s", sub, sockName, topSock, preKind, mode), "socket-in-snapshot", "socket:pre="+preKind, "socket:filter="+mode)
		st.Evals(1)
		if st.WantSample() {
			st.Sample(map[string]any{"part": "socket", "pre_existing": preKind, "filter": mode, "top_level_socket": topSock})
		}
	})
}
