package main

// Property C55: backups that skip source items are reported as incomplete.
//
//   "If any source item cannot be read during backup, the snapshot is still saved for the
//    readable items and the command exits with the incomplete-snapshot status (3) instead of
//    success; a backup in which every item was read exits 0."  Files that vanish between the
//   directory listing and opening are not source items and must not change the status.
//   (doc/040_backup.rst "Exit status codes": 0 = snapshot with all source files, 3 = some source
//   files could not be read, incomplete snapshot with remaining files created.)
//
// Domain: generated source trees + a fault plan keyed by path, executed by an fs.FS wrapper that
// is installed through the package variable backupFSTestHook (cmd_backup.go).
// Executors: (a) in-process runBackup + the exit-code switch of main.go reproduced literally,
// (b) the real main() in a child process (this test binary re-executed, see TestMain) whose
// process exit status is read, (c) the real main() in a child running as uid/gid 65534 on a tree
// with genuinely unreadable (chmod 000 / r--) items and no wrapper at all.
// Oracle: reference model (tree minus the subtrees of the unreadable/vanished items) compared
// with the restored snapshot, and the exit status predicted from the plan.

import (
	"bytes"
	"context"
	"encoding/json"
	"errors"
	"fmt"
	"os"
	"os/exec"
	"path/filepath"
	"sort"
	"strings"
	"sync"
	"syscall"
	"testing"

	"github.com/restic/restic/internal/data"
	"github.com/restic/restic/internal/fs"
	"github.com/restic/restic/internal/global"
	"github.com/restic/restic/internal/repository"
	"github.com/restic/restic/internal/restic"
	"github.com/restic/restic/internal/verifkit"
	"pgregory.net/rapid"
)

// ---------------------------------------------------------------------------
// child process: the test binary becomes a real `restic`

const (
	vEnvChildC55 = "VERIF_C55_CHILD"
	vEnvPlanC55  = "VERIF_C55_PLAN"
	vEnvArgsC55  = "VERIF_C55_ARGS"
)

// vNoTBC55 satisfies testing.TB for the process-wide settings of vSetup in the child
// (those helpers only log).
type vNoTBC55 struct{ testing.TB }

func (vNoTBC55) Logf(string, ...any) {}
func (vNoTBC55) Helper()             {}

func TestMain(m *testing.M) {
	if os.Getenv(vEnvChildC55) == "" {
		os.Exit(m.Run())
	}
	// same process-wide settings as the parent that created the repository
	// (pack files without sub directories, cheap KDF, no lock wait)
	vSetup(vNoTBC55{})
	var args []string
	if err := json.Unmarshal([]byte(os.Getenv(vEnvArgsC55)), &args); err != nil {
		fmt.Fprintln(os.Stderr, "c55 child: bad args:", err)
		os.Exit(98)
	}
	if pf := os.Getenv(vEnvPlanC55); pf != "" {
		b, err := os.ReadFile(pf)
		if err != nil {
			fmt.Fprintln(os.Stderr, "c55 child:", err)
			os.Exit(98)
		}
		var plan vPlanC55
		if err := json.Unmarshal(b, &plan); err != nil {
			fmt.Fprintln(os.Stderr, "c55 child: bad plan:", err)
			os.Exit(98)
		}
		backupFSTestHook = func(inner fs.FS) fs.FS { return vNewFaultFSC55(inner, &plan) }
	}
	os.Args = append([]string{"restic"}, args...)
	main() // ends with Exit(code)
	os.Exit(97)
}

// ---------------------------------------------------------------------------
// fault plan + fs.FS wrapper

// Fault kinds. "error" kinds make the item unreadable (=> status 3), "vanish" kinds make it
// disappear before restic first touches it (=> not a source item, status unchanged).
const (
	kOpenEACCES   = "open-eacces"    // file/dir: opening for reading fails with EACCES
	kStatEACCES   = "stat-eacces"    // any: lstat fails with EACCES (entry of a directory without search permission)
	kReaddirEACC  = "readdir-eacces" // dir: Readdirnames fails with EACCES
	kReaddirPart  = "readdir-partial" // dir: Readdirnames returns the first half of the names AND an I/O error (what os.File.Readdirnames does on a mid-listing failure)
	kReadEACCES   = "read-eacces"    // file: the first Read fails with EACCES
	kReadMid      = "read-mid"       // file: Read fails with EIO after After bytes
	kFile2Dir     = "type-file2dir"  // file replaced by a directory between lstat and open
	kFile2Link    = "type-file2link" // file replaced by a symlink between lstat and open
	kDir2File     = "type-dir2file"  // directory replaced by a file between lstat and open
	kLink2File    = "type-link2file" // symlink replaced by a regular file right after restic's lstat of it, before the readlink
	kLink2Dir     = "type-link2dir"  // symlink replaced by a directory at the same moment
	kVanish       = "vanish"         // removed after the directory listing, before the first lstat
	kVanishOpen   = "vanish-open"    // same, but the (metadata) open itself reports ENOENT
	kVanishLate   = "vanish-late"    // removed after a successful lstat, before the open for reading
	kRealFile000  = "real-file-000"  // real-EACCES executor: chmod 000 file
	kRealDir000   = "real-dir-000"   // chmod 000 directory
	kRealDirNoX   = "real-dir-r--"   // chmod 0444 directory: listing works, entries cannot be lstat'ed
)

type vFaultC55 struct {
	Path  string `json:"path"` // slash separated, relative to the source directory
	Kind  string `json:"kind"`
	After int    `json:"after,omitempty"`
}

type vPlanC55 struct {
	Root     string      `json:"root"` // absolute source directory
	Faults   []vFaultC55 `json:"faults"`
	FiredLog string      `json:"fired_log,omitempty"` // child: one line per fault fired by the archiver
}

type vFaultFSC55 struct {
	fs.FS
	mu     sync.Mutex
	byPath map[string]*vFaultC55
	fired  map[string]bool
	logf   string
	cwd    string // set when restic is given relative targets: names are resolved against it
}

func (v *vFaultFSC55) lookup(name string) *vFaultC55 {
	if v.cwd != "" && !filepath.IsAbs(name) {
		name = filepath.Join(v.cwd, name)
	}
	return v.byPath[filepath.Clean(name)]
}

func vNewFaultFSC55(inner fs.FS, plan *vPlanC55) *vFaultFSC55 {
	v := &vFaultFSC55{FS: inner, byPath: map[string]*vFaultC55{}, fired: map[string]bool{}, logf: plan.FiredLog}
	for i := range plan.Faults {
		f := &plan.Faults[i]
		v.byPath[filepath.Join(plan.Root, filepath.FromSlash(f.Path))] = f
	}
	return v
}

// fire records that the archiver (not the scanner) ran into the fault.
func (v *vFaultFSC55) fire(f *vFaultC55) {
	v.mu.Lock()
	defer v.mu.Unlock()
	if v.fired[f.Path] {
		return
	}
	v.fired[f.Path] = true
	if v.logf != "" {
		if lf, err := os.OpenFile(v.logf, os.O_APPEND|os.O_CREATE|os.O_WRONLY, 0o644); err == nil {
			_, _ = fmt.Fprintln(lf, f.Path)
			_ = lf.Close()
		}
	}
}

func (v *vFaultFSC55) Fired() []string {
	v.mu.Lock()
	defer v.mu.Unlock()
	var out []string
	for p := range v.fired {
		out = append(out, p)
	}
	sort.Strings(out)
	return out
}

func vPathErrC55(op, name string, errno syscall.Errno) error {
	return &os.PathError{Op: op, Path: name, Err: errno}
}

func (v *vFaultFSC55) OpenFile(name string, flag int, metadataOnly bool) (fs.File, error) {
	f := v.lookup(name)
	if f == nil {
		return v.FS.OpenFile(name, flag, metadataOnly)
	}
	if !metadataOnly {
		// only the scanner (fs.Readdirnames) opens directly for reading
		switch f.Kind {
		case kOpenEACCES, kStatEACCES:
			return nil, vPathErrC55("open", name, syscall.EACCES)
		}
		inner, err := v.FS.OpenFile(name, flag, metadataOnly)
		if err != nil {
			return nil, err
		}
		return &vFaultFileC55{File: inner, v: v, f: f, name: name, scanner: true}, nil
	}
	// the archiver's first access to an item that its parent's listing returned
	switch f.Kind {
	case kVanish:
		_ = os.RemoveAll(name)
		v.fire(f)
	case kVanishOpen:
		_ = os.RemoveAll(name)
		v.fire(f)
		return nil, vPathErrC55("open", name, syscall.ENOENT)
	}
	inner, err := v.FS.OpenFile(name, flag, metadataOnly)
	if err != nil {
		return nil, err
	}
	return &vFaultFileC55{File: inner, v: v, f: f, name: name}, nil
}

func (v *vFaultFSC55) Lstat(name string) (*fs.ExtendedFileInfo, error) {
	if f := v.lookup(name); f != nil && f.Kind == kStatEACCES {
		return nil, vPathErrC55("lstat", name, syscall.EACCES)
	}
	return v.FS.Lstat(name)
}

type vFaultFileC55 struct {
	fs.File
	v       *vFaultFSC55
	f       *vFaultC55
	name    string
	scanner bool
	served  int
	swapped bool
}

func (w *vFaultFileC55) hit() {
	if !w.scanner {
		w.v.fire(w.f)
	}
}

func (w *vFaultFileC55) MakeReadable() error {
	switch w.f.Kind {
	case kOpenEACCES:
		w.hit()
		return vPathErrC55("open", w.name, syscall.EACCES)
	case kFile2Dir:
		w.hit()
		_ = os.Remove(w.name)
		_ = os.Mkdir(w.name, 0o755)
	case kFile2Link:
		w.hit()
		_ = os.Remove(w.name)
		_ = os.Symlink("elsewhere", w.name)
	case kDir2File:
		w.hit()
		_ = os.RemoveAll(w.name)
		_ = os.WriteFile(w.name, []byte("now a file"), 0o644)
	case kVanishLate:
		w.hit()
		_ = os.RemoveAll(w.name)
	}
	return w.File.MakeReadable()
}

func (w *vFaultFileC55) Stat() (*fs.ExtendedFileInfo, error) {
	if w.f.Kind == kStatEACCES {
		w.hit()
		return nil, vPathErrC55("lstat", w.name, syscall.EACCES)
	}
	fi, err := w.File.Stat()
	if err == nil && !w.scanner && !w.swapped && (w.f.Kind == kLink2File || w.f.Kind == kLink2Dir) {
		// the item was a symlink when restic looked at it; now it is something else, so that
		// its target can no longer be read
		w.swapped = true
		w.hit()
		_ = os.Remove(w.name)
		if w.f.Kind == kLink2File {
			_ = os.WriteFile(w.name, []byte("now a regular file"), 0o600)
		} else {
			_ = os.Mkdir(w.name, 0o755)
		}
	}
	return fi, err
}

func (w *vFaultFileC55) ToNode(ignoreXattrListError bool, warnf func(format string, args ...any)) (*data.Node, error) {
	if w.f.Kind == kStatEACCES {
		w.hit()
		return nil, vPathErrC55("lstat", w.name, syscall.EACCES)
	}
	return w.File.ToNode(ignoreXattrListError, warnf)
}

func (w *vFaultFileC55) Readdirnames(n int) ([]string, error) {
	if w.f.Kind == kReaddirEACC {
		w.hit()
		return nil, vPathErrC55("readdirent", w.name, syscall.EACCES)
	}
	if w.f.Kind == kReaddirPart {
		w.hit()
		names, err := w.File.Readdirnames(n)
		if err != nil {
			return names, err
		}
		return names[:len(names)/2], vPathErrC55("readdirent", w.name, syscall.EIO)
	}
	return w.File.Readdirnames(n)
}

func (w *vFaultFileC55) Read(p []byte) (int, error) {
	switch w.f.Kind {
	case kReadEACCES:
		w.hit()
		return 0, vPathErrC55("read", w.name, syscall.EACCES)
	case kReadMid:
		if w.served >= w.f.After {
			w.hit()
			return 0, vPathErrC55("read", w.name, syscall.EIO)
		}
		if rest := w.f.After - w.served; len(p) > rest {
			p = p[:rest]
		}
		n, err := w.File.Read(p)
		w.served += n
		return n, err
	}
	return w.File.Read(p)
}

// ---------------------------------------------------------------------------
// exit status: the switch of main() (cmd/restic/main.go), reproduced literally

func vExitCodeC55(err error) int {
	switch {
	case err == nil:
		return 0
	case err == ErrInvalidSourceData:
		return 3
	case errors.Is(err, ErrFailedToRemoveOneOrMoreSnapshots):
		return 3
	case errors.Is(err, global.ErrNoRepository):
		return 10
	case repository.IsAlreadyLocked(err):
		return 11
	case errors.Is(err, repository.ErrNoKeyFound):
		return 12
	case errors.Is(err, context.Canceled):
		return 130
	default:
		return 1
	}
}

// ---------------------------------------------------------------------------
// scenario + reference model

type vCaseC55 struct {
	Tree     string      `json:"tree"`
	Targets  []string    `json:"targets"` // relative to the source dir; [""] = the source dir itself
	Missing  bool        `json:"missing_target,omitempty"`
	Faults   []vFaultC55 `json:"faults"`
	Parent   bool        `json:"parent,omitempty"`   // a clean backup of the tree precedes the faulty one
	Modified []string    `json:"modified,omitempty"` // files rewritten between the two backups
	Force    bool        `json:"force,omitempty"`
	NoScan   bool        `json:"no_scan,omitempty"`
	JSON     bool        `json:"json,omitempty"`
	Exec     string      `json:"exec"`
	// Again: the faulty backup is repeated with an option that makes restic write no snapshot
	// ("skip-if-unchanged" with the snapshot just written as parent, "dry-run"); in-process only
	Again string `json:"again,omitempty"`
}

var vKindsFileC55 = []string{kOpenEACCES, kStatEACCES, kReadEACCES, kReadMid, kFile2Dir, kFile2Link, kVanish, kVanishOpen, kVanishLate, kReadMid, kReadMid, kReadEACCES}
var vKindsDirC55 = []string{kOpenEACCES, kStatEACCES, kReaddirEACC, kReaddirPart, kDir2File, kVanish, kVanishOpen, kVanishLate, kReaddirEACC, kReaddirPart, kOpenEACCES, kDir2File, kDir2File}
var vKindsLinkC55 = []string{kStatEACCES, kVanish, kVanishOpen, kLink2File, kLink2Dir, kLink2File, kLink2Dir}

func vIsVanishC55(k string) bool { return k == kVanish || k == kVanishOpen }

// needs the content of a regular file to be (re)read: not reached for a file that is
// unchanged relative to the parent snapshot
func vNeedsReadC55(k string) bool {
	switch k {
	case kOpenEACCES, kReadEACCES, kReadMid, kFile2Dir, kFile2Link, kVanishLate:
		return true
	}
	return false
}

func vUnderC55(p, dir string) bool { return dir == "" || p == dir || strings.HasPrefix(p, dir+"/") }

func vInTargetsC55(p string, targets []string) bool {
	for _, t := range targets {
		if vUnderC55(p, t) {
			return true
		}
	}
	return false
}

type vExpectC55 struct {
	want      vTree           // what the snapshot must contain below the source dir
	status3   bool            // >= 1 source item unreadable
	eitherOK  bool            // only "vanish-late" decides: statement leaves 0 or 3 open
	fire      map[string]bool // faults the archiver must run into
	optional  []string        // items whose metadata could not be read completely: absent or present, but reported (status 3)
	nontriv   bool            // >= 1 effective fault below the top level
	kinds     []string
}

// vModelC55 computes the expectation from the tree (as it is on disk when the faulty backup starts) and the plan.
func vModelC55(tr vTree, c *vCaseC55) vExpectC55 {
	x := vExpectC55{want: vTree{}, fire: map[string]bool{}}
	at := map[string]*vFaultC55{}
	for i := range c.Faults {
		at[c.Faults[i].Path] = &c.Faults[i]
	}
	modified := map[string]bool{}
	for _, m := range c.Modified {
		modified[m] = true
	}
	gone := []string{} // roots of absent subtrees
	isGone := func(p string) bool {
		for _, g := range gone {
			if vUnderC55(p, g) {
				return true
			}
		}
		return false
	}
	isTarget := func(p string) bool {
		for _, t := range c.Targets {
			if t == p {
				return true
			}
		}
		return false
	}
	for _, p := range tr.Paths() { // sorted: parents before children
		if !vInTargetsC55(p, c.Targets) || isGone(p) {
			continue
		}
		f := at[p]
		if f != nil {
			nd := tr[p]
			reach := true
			if nd.Kind == 'f' && vNeedsReadC55(f.Kind) && c.Parent && !c.Force && !modified[p] {
				reach = false // unchanged file: taken over from the parent snapshot without reading it
			}
			if reach {
				gone = append(gone, p)
				x.fire[p] = true
				x.kinds = append(x.kinds, f.Kind)
				switch {
				case vIsVanishC55(f.Kind):
				case f.Kind == kVanishLate && nd.Kind == 'f':
					// a regular file that vanished between lstat and the open for reading is a
					// vanished file like any other (repaired in /repo by 0be3aa77c): status unaffected
				case f.Kind == kVanishLate:
					x.eitherOK = true // directories: the statement speaks of files; 0 or 3 accepted
				default:
					x.status3 = true
				}
				if f.Kind == kLink2File || f.Kind == kLink2Dir {
					x.optional = append(x.optional, p)
				}
				if !isTarget(p) {
					x.nontriv = true
				}
				continue
			}
		}
		n := *tr[p]
		x.want[p] = &n
	}
	if c.Missing {
		x.status3 = true
	}
	if x.status3 {
		x.eitherOK = false
	}
	return x
}

// vGenCaseC55 draws tree, targets, fault plan and options.
func vGenCaseC55(t *rapid.T, exec string) (vTree, *vCaseC55) {
	c := &vCaseC55{Exec: exec}
	tr := vGenTree(t, vTreeGen{MaxEntries: 14, MaxFileLen: 5000, Symlinks: true})
	// now and then a file of several chunks, so that a read error can hit after blobs were already saved
	if rapid.IntRange(0, 11).Draw(t, "big") == 0 {
		dirs := []string{""}
		for _, p := range tr.Paths() {
			if tr[p].Kind == 'd' {
				dirs = append(dirs, p)
			}
		}
		d := dirs[rapid.IntRange(0, len(dirs)-1).Draw(t, "bigdir")]
		p := "big.bin"
		if d != "" {
			p = d + "/big.bin"
		}
		tr[p] = &vNode{Kind: 'f', Mode: 0o644, Mtime: 1600000000e9, Seed: rapid.Uint64().Draw(t, "bigseed"),
			Len: rapid.IntRange(1200<<10, 2600<<10).Draw(t, "biglen")}
	}
	c.Targets = []string{""}
	var top []string
	for _, p := range tr.Paths() {
		if !strings.Contains(p, "/") {
			top = append(top, p)
		}
	}
	if rapid.IntRange(0, 3).Draw(t, "multi") == 0 {
		perm := rapid.Permutation(top).Draw(t, "targetperm")
		c.Targets = append([]string(nil), perm[:rapid.IntRange(1, len(perm)).Draw(t, "ntargets")]...)
		sort.Strings(c.Targets)
		c.Missing = rapid.IntRange(0, 2).Draw(t, "missing") == 0
	}
	multi := c.Targets[0] != ""
	var cand []string
	for _, p := range tr.Paths() {
		if vInTargetsC55(p, c.Targets) {
			cand = append(cand, p)
		}
	}
	// 0 = clean, 1 = vanish only, 2.. = mixed
	flavour := rapid.IntRange(0, 9).Draw(t, "flavour")
	nf := 0
	if flavour > 0 {
		nf = rapid.IntRange(1, 4).Draw(t, "nfaults")
	}
	used := map[string]bool{}
	for i := 0; i < nf; i++ {
		p := cand[rapid.IntRange(0, len(cand)-1).Draw(t, "faultpath")]
		if used[p] {
			continue
		}
		nd := tr[p]
		kinds := vKindsFileC55
		switch nd.Kind {
		case 'd':
			kinds = vKindsDirC55
		case 'l':
			kinds = vKindsLinkC55
		}
		if flavour == 1 {
			kinds = []string{kVanish, kVanishOpen}
		}
		k := rapid.SampledFrom(kinds).Draw(t, "kind")
		if multi && !strings.Contains(p, "/") && (vIsVanishC55(k) || k == kVanishLate) {
			// an explicitly named target is not "returned by a directory listing"; the statement
			// says nothing about one that disappears after the command line was checked
			continue
		}
		f := vFaultC55{Path: p, Kind: k}
		if k == kReadMid {
			if nd.Len < 2 {
				f.Kind = kReadEACCES
			} else if nd.Len > 1<<20 {
				f.After = rapid.IntRange(600<<10, nd.Len-1).Draw(t, "after")
			} else {
				f.After = rapid.IntRange(1, nd.Len-1).Draw(t, "after")
			}
		}
		used[p] = true
		c.Faults = append(c.Faults, f)
	}
	// symlinks that change type under restic's hands: alone (flavour 2) or on top of the other faults
	var links []string
	for _, p := range cand {
		if tr[p].Kind == 'l' && !used[p] {
			links = append(links, p)
		}
	}
	if len(links) > 0 && flavour >= 2 && (flavour == 2 || rapid.IntRange(0, 3).Draw(t, "linkswap") == 0) {
		if flavour == 2 {
			c.Faults = nil
		}
		p := links[rapid.IntRange(0, len(links)-1).Draw(t, "linkpath")]
		c.Faults = append(c.Faults, vFaultC55{Path: p, Kind: rapid.SampledFrom([]string{kLink2File, kLink2Dir}).Draw(t, "linkkind")})
	}
	sort.Slice(c.Faults, func(i, j int) bool { return c.Faults[i].Path < c.Faults[j].Path })
	c.Parent = rapid.IntRange(0, 3).Draw(t, "parent") == 0
	if c.Parent {
		for _, p := range tr.Paths() {
			if tr[p].Kind == 'f' && rapid.IntRange(0, 2).Draw(t, "modify") > 0 {
				c.Modified = append(c.Modified, p)
			}
		}
		c.Force = rapid.IntRange(0, 5).Draw(t, "force") == 0
	}
	c.NoScan = rapid.IntRange(0, 3).Draw(t, "noscan") == 0
	c.JSON = rapid.IntRange(0, 3).Draw(t, "json") == 0
	if exec == "inproc" {
		c.Again = rapid.SampledFrom([]string{"", "skip-if-unchanged", "skip-if-unchanged", "dry-run"}).Draw(t, "again")
	}
	c.Tree = tr.String()
	return tr, c
}

func vAbsTargetsC55(src string, c *vCaseC55) []string {
	var out []string
	for _, tg := range c.Targets {
		out = append(out, filepath.Join(src, filepath.FromSlash(tg)))
	}
	if c.Missing {
		out = append(out, filepath.Join(src, "no-such-target-c55"))
	}
	return out
}

// vRunChildC55 runs the real main() in a child process and returns its exit status and output.
func vRunChildC55(e *vEnv, planFile string, args []string, uid uint32, tmpdir string) (int, string, error) {
	exe, err := os.Executable()
	if err != nil {
		return -1, "", err
	}
	ab, _ := json.Marshal(args)
	cmd := exec.Command(exe)
	var env []string
	for _, kv := range os.Environ() {
		if strings.HasPrefix(kv, "RESTIC_") || strings.HasPrefix(kv, "TMPDIR=") || strings.HasPrefix(kv, "VERIF_STATS=") {
			continue
		}
		env = append(env, kv)
	}
	env = append(env, vEnvChildC55+"=1", vEnvPlanC55+"="+planFile, vEnvArgsC55+"="+string(ab),
		"RESTIC_PASSWORD="+vPassword, "TMPDIR="+tmpdir)
	cmd.Env = env
	var out bytes.Buffer
	cmd.Stdout, cmd.Stderr = &out, &out
	if uid != 0 {
		cmd.SysProcAttr = &syscall.SysProcAttr{Credential: &syscall.Credential{Uid: uid, Gid: uid}}
	}
	err = cmd.Run()
	if err != nil {
		var ee *exec.ExitError
		if !errors.As(err, &ee) {
			return -1, out.String(), err
		}
	}
	ws, _ := cmd.ProcessState.Sys().(syscall.WaitStatus)
	if ws.Signaled() {
		return -1, out.String(), fmt.Errorf("child killed by signal %v", ws.Signal())
	}
	return cmd.ProcessState.ExitCode(), out.String(), nil
}

// vRewriteC55 gives the files in paths new content and a new mtime (on disk and in the model).
func vRewriteC55(src string, tr vTree, paths []string) error {
	for _, p := range paths {
		nd := tr[p]
		nd.Seed = nd.Seed*0x9e3779b97f4a7c15 + 55
		nd.Mtime += 1e9
		full := filepath.Join(src, filepath.FromSlash(p))
		if err := os.Chmod(full, 0o600); err != nil {
			return err
		}
		if err := os.WriteFile(full, vContent(nd), 0o600); err != nil {
			return err
		}
		if err := os.Chmod(full, os.FileMode(nd.Mode)); err != nil {
			return err
		}
		ts := []syscall.Timespec{syscall.NsecToTimespec(nd.Mtime), syscall.NsecToTimespec(nd.Mtime)}
		if err := syscall.UtimesNano(full, ts); err != nil {
			return err
		}
	}
	return nil
}

// vCheckCaseC55 runs one case and applies the oracle.
func vCheckCaseC55(t *rapid.T, st *verifkit.Stats, tr vTree, c *vCaseC55) {
	child := c.Exec == "child"
	e, err := vNewEnv(!child)
	if err != nil {
		t.Fatal(err)
	}
	defer e.Close()
	if err := e.Init("2"); err != nil {
		t.Fatal(err)
	}
	src := e.Scratch("src-")
	if err := tr.Materialize(src); err != nil {
		t.Fatal(err)
	}
	targets := vAbsTargetsC55(src, c)

	if c.Parent {
		// clean backup of the same targets, every item readable: must be complete
		pt := targets
		if c.Missing {
			pt = targets[:len(targets)-1]
		}
		if err := e.Backup(pt, BackupOptions{}); err != nil {
			t.Fatalf("clean backup (no faults) returned %v (exit %d), want success", err, vExitCodeC55(err))
		}
		if err := vRewriteC55(src, tr, c.Modified); err != nil {
			t.Fatal(err)
		}
	}
	x := vModelC55(tr, c)
	before, err := e.SnapshotIDs()
	if err != nil {
		t.Fatal(err)
	}

	plan := &vPlanC55{Root: src, Faults: c.Faults}
	var code int
	var fired []string
	var output string
	if child {
		plan.FiredLog = filepath.Join(e.base, "fired.log")
		planFile := filepath.Join(e.base, "plan.json")
		pb, _ := json.Marshal(plan)
		if err := os.WriteFile(planFile, pb, 0o644); err != nil {
			t.Fatal(err)
		}
		args := []string{"-r", e.gopts.Repo, "--no-cache", "backup", "--host", "vhost"}
		if c.NoScan {
			args = append(args, "--no-scan")
		}
		if c.Force {
			args = append(args, "--force")
		}
		if c.JSON {
			args = append(args, "--json")
		}
		args = append(args, targets...)
		code, output, err = vRunChildC55(e, planFile, args, 0, os.TempDir())
		if err != nil {
			t.Fatalf("child: %v\n%s", err, output)
		}
		if b, err := os.ReadFile(plan.FiredLog); err == nil {
			if s := strings.TrimSuffix(string(b), "\n"); s != "" {
				fired = strings.Split(s, "\n") // generated names contain no newline
			}
			sort.Strings(fired)
		}
	} else {
		ffs := vNewFaultFSC55(nil, plan)
		backupFSTestHook = func(inner fs.FS) fs.FS { ffs.FS = inner; return ffs }
		g := e.gopts
		g.JSON = c.JSON
		out, berr := e.BackupOut(context.Background(), g, targets, BackupOptions{NoScan: c.NoScan, Force: c.Force})
		backupFSTestHook = nil
		code = vExitCodeC55(berr)
		output = fmt.Sprintf("runBackup returned: %v\n%s%s", berr, out.Stdout, out.Stderr)
		fired = ffs.Fired()
	}

	// bookkeeping
	classes := []string{"exec=" + c.Exec, fmt.Sprintf("status=%d", code), fmt.Sprintf("parent=%v", c.Parent),
		fmt.Sprintf("multi=%v", c.Targets[0] != ""), fmt.Sprintf("json=%v", c.JSON), fmt.Sprintf("noscan=%v", c.NoScan)}
	onlyVanish := len(x.kinds) > 0
	for _, k := range x.kinds {
		classes = append(classes, "kind="+k)
		if !vIsVanishC55(k) {
			onlyVanish = false
		}
	}
	switch {
	case len(x.kinds) == 0 && !c.Missing:
		classes = append(classes, "clean")
	case onlyVanish && !c.Missing:
		classes = append(classes, "vanish-only")
	}
	if c.Missing {
		classes = append(classes, "missing-target")
	}
	if len(x.fire) < len(c.Faults) {
		classes = append(classes, "fault-not-reached")
	}
	if x.eitherOK {
		classes = append(classes, fmt.Sprintf("vanish-late-only:status=%d", code))
	}
	key := ""
	if x.nontriv {
		key = vJSON(c)
	}
	st.Case(key, classes...)
	if st.WantSample() {
		st.Sample(map[string]any{"case": c, "exit": code, "fired": fired, "snapshot_paths": x.want.Paths()})
	}
	desc := func() string { return fmt.Sprintf("case %s\noutput:\n%s", vJSON(c), output) }

	// the plan was really exercised (harness sanity; also: restic looked at every listed item)
	var wantFired []string
	for p := range x.fire {
		wantFired = append(wantFired, p)
	}
	sort.Strings(wantFired)
	if strings.Join(wantFired, "\n") != strings.Join(fired, "\n") {
		t.Fatalf("faults met by the archiver %q, model expects %q\n%s", fired, wantFired, desc())
	}

	// 1. exit status
	switch {
	case x.eitherOK:
		if code != 0 && code != 3 {
			t.Fatalf("exit status %d, want 0 or 3\n%s", code, desc())
		}
	case x.status3:
		if code != 3 {
			t.Fatalf("exit status %d although %d source item(s) could not be read (kinds %v, missing target %v): want 3\n%s",
				code, len(x.kinds), x.kinds, c.Missing, desc())
		}
	default:
		if code != 0 {
			t.Fatalf("exit status %d although every source item was read (vanished only: %v): want 0\n%s", code, x.kinds, desc())
		}
	}
	if child && code == 3 && !c.JSON && !strings.Contains(output, ErrInvalidSourceData.Error()) {
		t.Fatalf("exit status 3 without the incomplete-backup warning\n%s", desc())
	}

	// an item with incomplete metadata must have been reported as an error
	if len(x.optional) > 0 {
		marker := "error: "
		if c.JSON {
			marker = `"message_type":"error"`
		}
		if !strings.Contains(output, marker) {
			t.Fatalf("symlink(s) %q changed type during the backup (target unreadable) but no error was reported\n%s", x.optional, desc())
		}
	}

	// 2. the snapshot exists ...
	after, err := e.SnapshotIDs()
	if err != nil {
		t.Fatal(err)
	}
	if len(after) != len(before)+1 {
		t.Fatalf("%d snapshots before, %d after the backup (exit %d): the snapshot for the readable items is missing\n%s",
			len(before), len(after), code, desc())
	}
	id := vNewID(before, after)
	// 3. ... and contains exactly the readable items
	//    (an item whose metadata could not be read completely may be absent or present: it is looked up
	//    in the snapshot, counted, and left out of the restore)
	var ropts RestoreOptions
	for _, p := range x.optional {
		nd, err := vNodeAtC55(e, id, filepath.Join(src, filepath.FromSlash(p)))
		if err != nil {
			t.Fatalf("%v\n%s", err, desc())
		}
		if nd == nil {
			st.Class("link-swap:absent")
		} else {
			st.Class(fmt.Sprintf("link-swap:present,type=%s,target=%q", nd.Type, nd.LinkTarget))
			ropts.Excludes = append(ropts.Excludes, "/"+p)
		}
	}
	d, err := vRestoreEqC55(e, id, src, x.want, ropts)
	if err != nil {
		t.Fatalf("%v\n%s", err, desc())
	}
	if d != "" {
		t.Fatalf("snapshot %s differs from the readable part of the source: %s\n%s", id[:8], d, desc())
	}

	// 4. once more with the same faults and an option under which restic writes no snapshot: the
	//    exit status speaks about the source items ("if any source item cannot be read ... exits
	//    with status 3"), whether or not a snapshot file results
	stateless := true // type changes and vanishing items are carried out on the real file system: the second run sees another source
	for _, f := range c.Faults {
		switch f.Kind {
		case kOpenEACCES, kStatEACCES, kReaddirEACC, kReaddirPart, kReadEACCES, kReadMid:
		default:
			stateless = false
		}
	}
	if !child && c.Again != "" && !x.eitherOK && stateless {
		// relative targets from the parent of the source directory: the root tree then holds the
		// source directory only (with absolute targets it also holds the scratch directories above,
		// whose timestamps move, and no two snapshots would ever have the same tree)
		base := filepath.Dir(src)
		oldwd, err := os.Getwd()
		if err != nil {
			t.Fatal(err)
		}
		if err := os.Chdir(base); err != nil {
			t.Fatal(err)
		}
		defer func() { _ = os.Chdir(oldwd) }()
		var rel []string
		for _, tg := range targets {
			r, err := filepath.Rel(base, tg)
			if err != nil {
				t.Fatal(err)
			}
			rel = append(rel, r)
		}
		// with other (relative) target paths there is no parent snapshot for pass 0, and the parent
		// of pass 1 does not hold the unreadable items: every file is (re)read, so the expectation
		// is the model WITHOUT a parent (a first version reused the first run's expectation and
		// raised a false alarm when a fault had not been reached because the file was unchanged)
		cc := *c
		cc.Parent, cc.Modified = false, nil
		x2 := vModelC55(tr, &cc)
		if x2.eitherOK {
			return
		}
		want := 0
		if x2.status3 {
			want = 3
		}
		for pass, bo := range []BackupOptions{
			{NoScan: c.NoScan},
			{NoScan: c.NoScan, SkipIfUnchanged: c.Again == "skip-if-unchanged", DryRun: c.Again == "dry-run"},
		} {
			n1, err := e.SnapshotIDs()
			if err != nil {
				t.Fatal(err)
			}
			ffs := vNewFaultFSC55(nil, plan)
			ffs.cwd = base
			backupFSTestHook = func(inner fs.FS) fs.FS { ffs.FS = inner; return ffs }
			g := e.gopts
			g.JSON = c.JSON
			out, berr := e.BackupOut(context.Background(), g, rel, bo)
			backupFSTestHook = nil
			code2 := vExitCodeC55(berr)
			n2, err := e.SnapshotIDs()
			if err != nil {
				t.Fatal(err)
			}
			st.Evals(1)
			if pass == 1 {
				st.Class(fmt.Sprintf("again=%s,status=%d,new-snapshot=%v", c.Again, code2, len(n2) > len(n1)))
			}
			if code2 != want {
				t.Fatalf("repeated with relative targets %q (pass %d, skip-if-unchanged=%v dry-run=%v): exit status %d, want %d (first run: %d; a snapshot was written: %v)\nrunBackup returned: %v\n%s%s\n%s",
					rel, pass, bo.SkipIfUnchanged, bo.DryRun, code2, want, code, len(n2) > len(n1), berr, out.Stdout, out.Stderr, desc())
			}
		}
	}
}

// vNodeAtC55 looks up the node stored for an absolute source path (nil if there is none).
func vNodeAtC55(e *vEnv, snapshotID, abs string) (*data.Node, error) {
	var node *data.Node
	err := e.WithRepo(func(ctx context.Context, repo *repository.Repository) error {
		id, err := restic.ParseID(snapshotID)
		if err != nil {
			return err
		}
		if err := repo.LoadIndex(ctx, restic.NoopTerminalCounterFactory); err != nil {
			return err
		}
		sn, err := data.LoadSnapshot(ctx, repo, id)
		if err != nil {
			return err
		}
		dir, err := data.FindTreeDirectory(ctx, repo, sn.Tree, filepath.ToSlash(filepath.Dir(abs)))
		if err != nil {
			return err
		}
		tree, err := data.LoadTree(ctx, repo, *dir)
		if err != nil {
			return err
		}
		finder := data.NewTreeFinder(tree)
		defer finder.Close()
		node, err = finder.Find(filepath.Base(abs))
		return err
	})
	return node, err
}

// vRestoreEqC55 is RestoreEq with restore options (excludes).
func vRestoreEqC55(e *vEnv, snapshotID, srcDir string, want vTree, opts RestoreOptions) (string, error) {
	target := e.Scratch("restore-")
	defer os.RemoveAll(target)
	if err := e.Restore(snapshotID+":"+filepath.ToSlash(srcDir), target, opts); err != nil {
		return "", fmt.Errorf("restore %s: %w", snapshotID[:8], err)
	}
	got, err := vReadTree(target)
	if err != nil {
		return "", err
	}
	return vTreeDiff(want, got, true), nil
}

func TestVerifC55InProcess(t *testing.T) {
	vSetup(t)
	st := verifkit.Begin(t, "C55")
	rapid.Check(t, func(t *rapid.T) {
		tr, c := vGenCaseC55(t, "inproc")
		vCheckCaseC55(t, st, tr, c)
	})
}

// The same cases with the real main() in a child process: the observed value is the process exit status.
func TestVerifC55ChildExit(t *testing.T) {
	vSetup(t)
	st := verifkit.Begin(t, "C55")
	rapid.Check(t, func(t *rapid.T) {
		tr, c := vGenCaseC55(t, "child")
		vCheckCaseC55(t, st, tr, c)
	})
}

// ---------------------------------------------------------------------------
// genuine permission errors: child running as nobody (65534), no wrapper

const vNobodyC55 = 65534

func vChownTreeC55(root string, uid int) error {
	return filepath.Walk(root, func(p string, _ os.FileInfo, err error) error {
		if err != nil {
			return err
		}
		return os.Lchown(p, uid, uid)
	})
}

// vRealModelC55: file/dir 000 => item (and subtree) absent, one error; dir r-- => the directory is
// saved, each of its entries fails at lstat (error), everything below is absent.
func vRealModelC55(tr vTree, faults []vFaultC55) (want vTree, status3, nontriv bool, kinds []string) {
	at := map[string]string{}
	for _, f := range faults {
		at[f.Path] = f.Kind
	}
	want = vTree{}
	state := map[string]int{} // 1 present, 2 present but entries not accessible, 3 absent
	for _, p := range tr.Paths() {
		parent := ""
		if i := strings.LastIndex(p, "/"); i >= 0 {
			parent = p[:i]
		}
		ps := 1
		if parent != "" {
			ps = state[parent]
		}
		switch {
		case ps == 3:
			state[p] = 3
		case ps == 2:
			state[p] = 3
			status3 = true
			nontriv = true
		case at[p] == kRealFile000 || at[p] == kRealDir000:
			state[p] = 3
			status3 = true
			nontriv = true
			kinds = append(kinds, at[p])
		default:
			n := *tr[p]
			state[p] = 1
			if at[p] == kRealDirNoX {
				state[p] = 2
				n.Mode = 0o444
				kinds = append(kinds, at[p])
			}
			want[p] = &n
		}
	}
	return
}

func TestVerifC55RealEACCES(t *testing.T) {
	vSetup(t)
	st := verifkit.Begin(t, "C55")
	rapid.Check(t, func(t *rapid.T) {
		tr := vGenTree(t, vTreeGen{MaxEntries: 12, MaxFileLen: 3000, Symlinks: true})
		c := &vCaseC55{Exec: "child-nobody", Targets: []string{""}, Tree: tr.String()}
		paths := tr.Paths()
		nf := rapid.IntRange(0, 3).Draw(t, "nfaults")
		used := map[string]bool{}
		for i := 0; i < nf; i++ {
			p := paths[rapid.IntRange(0, len(paths)-1).Draw(t, "faultpath")]
			if used[p] || tr[p].Kind == 'l' {
				continue
			}
			used[p] = true
			k := kRealFile000
			if tr[p].Kind == 'd' {
				k = rapid.SampledFrom([]string{kRealDir000, kRealDirNoX}).Draw(t, "dirkind")
			}
			c.Faults = append(c.Faults, vFaultC55{Path: p, Kind: k})
		}
		c.JSON = rapid.Bool().Draw(t, "json")

		e, err := vNewEnv(false)
		if err != nil {
			t.Fatal(err)
		}
		defer e.Close()
		if err := e.Init("2"); err != nil {
			t.Fatal(err)
		}
		src := e.Scratch("src-")
		if err := tr.Materialize(src); err != nil {
			t.Fatal(err)
		}
		for _, f := range c.Faults {
			mode := os.FileMode(0)
			if f.Kind == kRealDirNoX {
				mode = 0o444
			}
			full := filepath.Join(src, filepath.FromSlash(f.Path))
			mt := tr[f.Path].Mtime
			if err := os.Chmod(full, mode); err != nil {
				t.Fatal(err)
			}
			_ = syscall.UtimesNano(full, []syscall.Timespec{syscall.NsecToTimespec(mt), syscall.NsecToTimespec(mt)})
		}
		tmpdir := filepath.Join(e.base, "childtmp")
		if err := os.Mkdir(tmpdir, 0o755); err != nil {
			t.Fatal(err)
		}
		if err := os.Chmod(e.base, 0o755); err != nil {
			t.Fatal(err)
		}
		if err := os.Chmod(src, 0o755); err != nil {
			t.Fatal(err)
		}
		if err := vChownTreeC55(e.base, vNobodyC55); err != nil {
			t.Fatal(err)
		}
		want, status3, nontriv, kinds := vRealModelC55(tr, c.Faults)
		before, err := e.SnapshotIDs()
		if err != nil {
			t.Fatal(err)
		}
		args := []string{"-r", e.gopts.Repo, "--no-cache", "backup", "--host", "vhost"}
		if c.JSON {
			args = append(args, "--json")
		}
		args = append(args, src)
		code, output, err := vRunChildC55(e, "", args, vNobodyC55, tmpdir)
		if err != nil {
			t.Fatalf("child as uid %d: %v\n%s", vNobodyC55, err, output)
		}
		classes := []string{"exec=child-nobody", fmt.Sprintf("status=%d", code)}
		for _, k := range kinds {
			classes = append(classes, "kind="+k)
		}
		if len(kinds) == 0 {
			classes = append(classes, "clean")
		}
		key := ""
		if nontriv {
			key = vJSON(c)
		}
		st.Case(key, classes...)
		if st.WantSample() {
			st.Sample(map[string]any{"case": c, "exit": code, "snapshot_paths": want.Paths()})
		}
		desc := fmt.Sprintf("case %s\noutput:\n%s", vJSON(c), output)
		if status3 && code != 3 {
			t.Fatalf("exit status %d although items are unreadable for uid %d: want 3\n%s", code, vNobodyC55, desc)
		}
		if !status3 && code != 0 {
			t.Fatalf("exit status %d although every item is readable: want 0\n%s", code, desc)
		}
		after, err := e.SnapshotIDs()
		if err != nil {
			t.Fatal(err)
		}
		if len(after) != len(before)+1 {
			t.Fatalf("no snapshot was saved (exit %d)\n%s", code, desc)
		}
		d, err := e.RestoreEq(vNewID(before, after), src, want)
		if err != nil {
			t.Fatalf("%v\n%s", err, desc)
		}
		if d != "" {
			t.Fatalf("snapshot differs from the readable part of the source: %s\n%s", d, desc)
		}
	})
}
