package main

// C31: upgrading a repository to format v2 preserves all data.
//
// rapid draws a v1 repository with 1-3 real small backups on the harness backend with or
// without atomic replace (Store.Atomic). `migrate upgrade_repo_v2` (runMigrate) is recorded
// once without faults: EVERY prefix of its Save/Remove log is rebuilt as a crash state.
// Then the migration is repeated on a copy of the pre-migration state with ONE injected
// failure at EVERY attempted Save/Remove position in each mode: transient (FailOnce: the
// retry layer repeats it), applied-but-reported-failed (FailAfterApply), context cancelled
// at that operation (Ctrl-C), and the backend going away from that operation on (FailFrom).

import (
	"bytes"
	"context"
	"fmt"
	"os"
	"path/filepath"
	"regexp"
	"sort"
	"strings"
	"testing"

	"github.com/restic/restic/internal/backend"
	"github.com/restic/restic/internal/global"
	"github.com/restic/restic/internal/repository"
	"github.com/restic/restic/internal/verifkit"
	"github.com/restic/restic/internal/verifkit/vbe"
	"pgregory.net/rapid"
)

// The finding of DESIGN §6: on a backend without atomic replace upgradeRepository removes
// the config before it saves the new one; a crash (or Ctrl-C) in between leaves NO config.
const vKnownKeyC31 = "C31:nonatomic-crash-between-remove-and-save"

type vRepoC31 struct {
	e      *vEnv
	src    string
	models map[string]vTree
	rawCfg []byte
	atomic bool
}

var vBackupPathReC31 = regexp.MustCompile(`backup of the config file in (\S+)$`)

func vMigrateC31(e *vEnv, ctx context.Context) (vOut, error) {
	g := e.gopts
	g.Quiet = false
	g.Verbosity = 1
	return e.callCtx(ctx, g, func(ctx context.Context, gopts global.Options) error {
		return runMigrate(ctx, MigrateOptions{}, gopts, []string{"upgrade_repo_v2"}, gopts.Term)
	})
}

// vCleanTempC31 removes what UpgradeRepo leaves in the temp dir when it fails.
func vCleanTempC31() {
	ds, _ := filepath.Glob(filepath.Join(os.TempDir(), "restic-migrate-upgrade-repo-v2-*"))
	for _, d := range ds {
		_ = os.RemoveAll(d)
	}
}

// vOpenVersionC31 opens the state freshly and returns the config version.
func vOpenVersionC31(e *vEnv) (uint, error) {
	var v uint
	err := e.WithRepo(func(ctx context.Context, repo *repository.Repository) error {
		v = repo.Config().Version
		return nil
	})
	return v, err
}

// vStateOKC31 is the statement's post-condition on one repository state: a fresh open
// succeeds with config version 1 or 2 (exactly wantVersion if non-zero), `check` passes
// and every snapshot restores identical to its model.
func vStateOKC31(r *vRepoC31, s *vbe.Store, wantVersion uint, cache map[string]error) (uint, error) {
	s.DropLocks() // the crashed process is dead: `restic unlock` removes its lock
	se := r.e.OnStore(s)
	defer se.Release()
	v, err := vOpenVersionC31(se)
	if err != nil {
		return 0, fmt.Errorf("the repository does not open: %v", err)
	}
	if v != 1 && v != 2 {
		return v, fmt.Errorf("config version %d", v)
	}
	if wantVersion != 0 && v != wantVersion {
		return v, fmt.Errorf("config version %d, want %d", v, wantVersion)
	}
	dg := s.Digest()
	if err, ok := cache[dg]; ok {
		return v, err
	}
	full := func() error {
		ids, err := se.SnapshotIDs()
		if err != nil {
			return fmt.Errorf("listing snapshots: %v", err)
		}
		var want []string
		for id := range r.models {
			want = append(want, id)
		}
		sort.Strings(want)
		if strings.Join(ids, ",") != strings.Join(want, ",") {
			return fmt.Errorf("snapshots %v, want %v", ids, want)
		}
		if out, err := se.Check(true); err != nil {
			return fmt.Errorf("check --read-data: %v\n%s%s", err, out.Stdout, out.Stderr)
		}
		for _, id := range want {
			d, err := se.RestoreEq(id, r.src, r.models[id])
			if err != nil {
				return err
			}
			if d != "" {
				return fmt.Errorf("snapshot %s restores differently: %s", id[:8], d)
			}
		}
		return nil
	}
	ferr := full()
	cache[dg] = ferr
	return v, ferr
}

func vHasConfigC31(s *vbe.Store) bool {
	_, ok := s.Get(backend.ConfigFile, "")
	return ok
}

// vLastIsConfigRemoveC31: the last applied operation of log[:k] is the Remove of the config.
func vLastIsConfigRemoveC31(log []vbe.Op, k int) bool {
	return k > 0 && k <= len(log) && log[k-1].Remove && log[k-1].Key.Type == backend.ConfigFile
}

// vBuildRepoC31 creates the v1 repository with backups.
func vBuildRepoC31(e *vEnv, atomic bool, trees []vTree, fatal func(string, ...any)) *vRepoC31 {
	e.store.Atomic = atomic
	if err := e.Init("1"); err != nil {
		fatal("init v1: %v", err)
	}
	r := &vRepoC31{e: e, src: e.Scratch("src-"), models: map[string]vTree{}, atomic: atomic}
	for i, tr := range trees {
		_ = os.RemoveAll(r.src)
		_ = os.Mkdir(r.src, 0o755)
		if err := tr.Materialize(r.src); err != nil {
			fatal("materialize: %v", err)
		}
		before, _ := e.SnapshotIDs()
		if err := e.Backup([]string{r.src}, BackupOptions{Force: i%2 == 1}); err != nil {
			fatal("backup: %v", err)
		}
		after, _ := e.SnapshotIDs()
		id := vNewID(before, after)
		if id == "" {
			fatal("no new snapshot after backup %d", i)
		}
		r.models[id] = tr
	}
	r.rawCfg, _ = e.store.Get(backend.ConfigFile, "")
	return r
}

type vAttemptC31 struct {
	Idx int
	Op  string
}

func TestVerifC31UpgradeFaults(t *testing.T) {
	vSetup(t)
	st := verifkit.Begin(t, "C31")
	rapid.Check(t, func(t *rapid.T) {
		defer vCleanTempC31()
		e, err := vNewEnv(true)
		if err != nil {
			t.Fatal(err)
		}
		defer e.Close()
		atomic := rapid.Bool().Draw(t, "atomic")
		nb := rapid.IntRange(1, 3).Draw(t, "backups")
		var trees []vTree
		for i := 0; i < nb; i++ {
			trees = append(trees, vGenTree(t, vTreeGen{MaxEntries: 8, ContentPool: 8, Symlinks: true}))
		}
		r := vBuildRepoC31(e, atomic, trees, func(f string, a ...any) { t.Fatalf(f, a...) })
		base := e.store.Clone()
		cache := map[string]error{}
		desc := fmt.Sprintf("atomic=%v backups=%d", atomic, nb)

		if v, err := vStateOKC31(r, base.Clone(), 1, cache); err != nil {
			t.Fatalf("v1 repository before the migration (version %d): %v", v, err)
		}

		// ---- the fault-free run, recorded; attempt index of every applied operation
		var attempts []vAttemptC31
		f := vbe.NoFaults()
		f.OnOp = func(idx int, op vbe.Op) { attempts = append(attempts, vAttemptC31{idx, op.String()}) }
		e.store.StartRecording(f)
		out, merr := vMigrateC31(e, context.Background())
		log := e.store.StopRecording()
		if merr != nil {
			t.Fatalf("migrate upgrade_repo_v2 failed on a healthy backend (%s): %v\n%s%s", desc, merr, out.Stdout, out.Stderr)
		}
		if !strings.Contains(out.Stdout, "migration upgrade_repo_v2: success") {
			t.Fatalf("migrate did not report success (%s):\n%s%s", desc, out.Stdout, out.Stderr)
		}
		st.Evals(1)
		if v, err := vStateOKC31(r, e.store.Clone(), 2, cache); err != nil {
			t.Fatalf("after the successful upgrade (%s, version %d): %v\nops:\n%s", desc, v, err, vOpsStringC31(log))
		}
		cfgOps := 0
		for _, op := range log {
			if op.Key.Type == backend.ConfigFile {
				cfgOps++
			}
		}
		if cfgOps == 0 {
			t.Fatalf("the migration did not touch the config:\n%s", vOpsStringC31(log))
		}
		nAttempts := 0
		if len(attempts) > 0 {
			nAttempts = attempts[len(attempts)-1].Idx + 1
		}

		// ---- every crash prefix
		knownHits := 0
		for k := 0; k <= len(log); k++ {
			st.Evals(1)
			s := e.store.StateAt(k)
			v, err := vStateOKC31(r, s, 0, cache)
			if err == nil {
				st.Class(fmt.Sprintf("crash-state:v%d", v))
				continue
			}
			if !atomic && !vHasConfigC31(s) && vLastIsConfigRemoveC31(log, k) && st.Known(vKnownKeyC31) {
				knownHits++
				st.Class("crash-state:known-no-config")
				continue
			}
			t.Fatalf("crash after %d of %d backend operations of the migration (%s; %s): %v\nops:\n%s", k, len(log), vOpAtC31(log, k), desc, err, vOpsStringC31(log))
		}

		// ---- one injected failure at every attempted position, every mode
		nontrivial := false
		for _, mode := range []string{"failonce", "failafterapply", "cancel", "failfrom"} {
			for p := 0; p < nAttempts; p++ {
				fs := base.Clone()
				fe := e.OnStore(fs)
				fl := vbe.NoFaults()
				ctx, cancel := context.WithCancel(context.Background())
				switch mode {
				case "failonce":
					fl.FailOnce = map[int]bool{p: true}
				case "failafterapply":
					fl.FailAfterApply = map[int]bool{p: true}
				case "cancel":
					fl.CancelAt, fl.Cancel = p, cancel
				case "failfrom":
					fl.FailFrom = p
				}
				fs.StartRecording(fl)
				fout, ferr := vMigrateC31(fe, ctx)
				cancel()
				flog := fs.StopRecording()
				fe.Release()
				st.Evals(1)
				where := fmt.Sprintf("migration with fault %s at attempted operation %d of %d (%s; returned: %v)", mode, p, nAttempts, desc, ferr)
				final := fs.Clone()
				hasCfg := vHasConfigC31(final)
				cfgTouched := false
				for _, op := range flog {
					if op.Key.Type == backend.ConfigFile {
						cfgTouched = true
					}
				}
				if cfgTouched && p > 0 && p < nAttempts-1 {
					nontrivial = true
				}
				st.Class("fault="+mode, fmt.Sprintf("fault=%s:err=%v", mode, ferr != nil))

				backupOK := func() error {
					if ferr == nil {
						return fmt.Errorf("no config file is left but migrate returned no error")
					}
					m := vBackupPathReC31.FindStringSubmatch(ferr.Error())
					if m == nil {
						return fmt.Errorf("no config file is left and the error does not name a backup copy")
					}
					b, err := os.ReadFile(m[1])
					if err != nil {
						return fmt.Errorf("no config file is left and the backup copy named in the error is unreadable: %v", err)
					}
					if !bytes.Equal(b, r.rawCfg) {
						return fmt.Errorf("no config file is left and the backup copy %s differs from the original config", m[1])
					}
					return nil
				}

				switch {
				case !hasCfg && mode == "failfrom" && !atomic:
					// the backend refuses every operation from p on: the client cannot repair that; what
					// can be asked is an error that names an intact backup copy of the old config
					if err := backupOK(); err != nil {
						t.Fatalf("%s: %v\nops:\n%s\n%s%s", where, err, vOpsStringC31(flog), fout.Stdout, fout.Stderr)
					}
					st.Class("failfrom:no-config-backup-copy-ok")
				case !hasCfg && mode == "cancel" && !atomic && vLastIsConfigRemoveC31(flog, len(flog)-vTrailingLockOpsC31(flog)) && st.Known(vKnownKeyC31):
					// same shape as the crash: interrupted between the Remove and the Save
					if err := backupOK(); err != nil {
						t.Fatalf("%s: %v", where, err)
					}
					knownHits++
					st.Class("cancel:known-no-config")
				default:
					want := uint(0)
					if ferr == nil {
						want = 2 // success reported => upgraded
					}
					v, err := vStateOKC31(r, final, want, cache)
					if err != nil {
						t.Fatalf("%s: %v\nops:\n%s\n%s%s", where, err, vOpsStringC31(flog), fout.Stdout, fout.Stderr)
					}
					st.Class(fmt.Sprintf("fault=%s:v%d", mode, v))
					if mode == "failonce" && ferr != nil {
						st.Class("failonce:not-retried")
					}
				}
				vCleanTempC31()
			}
		}

		key := ""
		if nontrivial {
			key = desc + " " + e.store.Digest()[:16]
		}
		st.Case(key, fmt.Sprintf("atomic=%v", atomic), fmt.Sprintf("backups=%d", nb), fmt.Sprintf("log=%d", len(log)), fmt.Sprintf("attempts=%d", nAttempts))
		if knownHits > 0 {
			st.Class("known-shape-seen")
		}
		if st.WantSample() {
			var ops []string
			for _, op := range log {
				ops = append(ops, op.String())
			}
			st.Sample(map[string]any{"atomic": atomic, "backups": nb, "migrate_ops": ops, "attempts": attempts, "known_hits": knownHits})
		}
	})
}

// vTrailingLockOpsC31 counts the lock-file operations at the end of a log (unlock after the failure).
func vTrailingLockOpsC31(log []vbe.Op) int {
	n := 0
	for i := len(log) - 1; i >= 0 && log[i].Key.Type == backend.LockFile; i-- {
		n++
	}
	return n
}

// TestVerifC31KnownProbe is the fixed regression probe for the exact shape of the known
// finding: non-atomic backend, crash right after the Remove of the config. If restic is
// repaired (e.g. saves the new config under a temporary name first, or never removes) the
// probe passes without consulting the known list.
func TestVerifC31KnownProbe(t *testing.T) {
	vSetup(t)
	st := verifkit.Begin(t, "C31")
	if verifkit.Shard() != 0 {
		return
	}
	defer vCleanTempC31()
	e, err := vNewEnv(true)
	if err != nil {
		t.Fatal(err)
	}
	defer e.Close()
	tr := vTree{"d": {Kind: 'd', Mode: 0o755, Mtime: 1600000000e9}, "d/f": {Kind: 'f', Seed: 7, Len: 1234, Mode: 0o644, Mtime: 1600000001e9}}
	r := vBuildRepoC31(e, false, []vTree{tr}, func(f string, a ...any) { t.Fatalf(f, a...) })
	e.store.StartRecording(vbe.NoFaults())
	_, merr := vMigrateC31(e, context.Background())
	log := e.store.StopRecording()
	if merr != nil {
		t.Fatalf("migrate failed: %v", merr)
	}
	cache := map[string]error{}
	seen := false
	for k := 0; k <= len(log); k++ {
		s := e.store.StateAt(k)
		st.Evals(1)
		_, err := vStateOKC31(r, s, 0, cache)
		if err == nil {
			continue
		}
		if !vHasConfigC31(s) && vLastIsConfigRemoveC31(log, k) {
			seen = true
			if st.Known(vKnownKeyC31) {
				continue
			}
			t.Fatalf("C31 violated [shape %s]: backend without atomic replace, crash after %d of %d operations (right after `%s`): %v\nops:\n%s",
				vKnownKeyC31, k, len(log), log[k-1], err, vOpsStringC31(log))
		}
		t.Fatalf("crash after %d of %d operations: %v\nops:\n%s", k, len(log), err, vOpsStringC31(log))
	}
	st.Case(fmt.Sprintf("probe nonatomic seen=%v", seen), fmt.Sprintf("probe:finding-present=%v", seen))
}

func vOpAtC31(log []vbe.Op, k int) string {
	if k < len(log) {
		return "next: " + log[k].String()
	}
	return "complete"
}

func vOpsStringC31(log []vbe.Op) string {
	var sb strings.Builder
	for i, op := range log {
		fmt.Fprintf(&sb, "  %2d %s\n", i, op)
	}
	return sb.String()
}
