package main

// Independent decoder of repository files and the writer-side ORDERING INVARIANT on a
// recorded backend trace (shared by C11 and C14 via conf "extra_files"):
//
//	packs  ->  index files naming them  ->  snapshot files using the indexed blobs
//
// Nothing here goes through restic's index/repository code: index files, snapshot files
// and tree blobs are decrypted with the master key, decompressed and parsed as JSON here.

import (
	"context"
	"crypto/sha256"
	"encoding/hex"
	"encoding/json"
	"fmt"

	"github.com/klauspost/compress/zstd"
	"github.com/restic/restic/internal/backend"
	"github.com/restic/restic/internal/repository"
	"github.com/restic/restic/internal/repository/crypto"
	"github.com/restic/restic/internal/verifkit/vbe"
)

// vDecoderC11 decrypts and decodes raw repository files.
type vDecoderC11 struct {
	key *crypto.Key
	dec *zstd.Decoder
}

// vNewDecoderC11 obtains the master key by opening the repository once.
func vNewDecoderC11(e *vEnv) (*vDecoderC11, error) {
	d := &vDecoderC11{}
	err := e.WithRepo(func(ctx context.Context, repo *repository.Repository) error {
		d.key = repo.Key()
		return nil
	})
	if err != nil {
		return nil, err
	}
	d.dec, err = zstd.NewReader(nil)
	return d, err
}

func (d *vDecoderC11) open(buf []byte) ([]byte, error) {
	ns := d.key.NonceSize()
	if len(buf) < ns+d.key.Overhead() {
		return nil, fmt.Errorf("ciphertext too short (%d bytes)", len(buf))
	}
	return d.key.Open(nil, buf[:ns], buf[ns:], nil)
}

// unpacked decodes an index/snapshot file: decrypt, then raw JSON or version byte 2 + zstd.
func (d *vDecoderC11) unpacked(buf []byte) ([]byte, error) {
	p, err := d.open(buf)
	if err != nil {
		return nil, err
	}
	if len(p) == 0 || p[0] == '{' || p[0] == '[' {
		return p, nil
	}
	if p[0] != 2 {
		return nil, fmt.Errorf("unknown encoding byte %d", p[0])
	}
	return d.dec.DecodeAll(p[1:], nil)
}

type vBlobRefC11 struct {
	Pack   string
	Type   string
	Offset uint
	Length uint
	ULen   uint
}

type vIndexFileC11 struct {
	Packs []struct {
		ID    string `json:"id"`
		Blobs []struct {
			ID     string `json:"id"`
			Type   string `json:"type"`
			Offset uint   `json:"offset"`
			Length uint   `json:"length"`
			ULen   uint   `json:"uncompressed_length"`
		} `json:"blobs"`
	} `json:"packs"`
}

type vTreeFileC11 struct {
	Nodes []struct {
		Name    string   `json:"name"`
		Type    string   `json:"type"`
		Content []string `json:"content"`
		Subtree string   `json:"subtree"`
	} `json:"nodes"`
}

type vSnapshotFileC11 struct {
	Tree string `json:"tree"`
}

// vTraceStateC11 is the evolving view of the repository along a trace.
type vTraceStateC11 struct {
	d     *vDecoderC11
	files map[vbe.Key][]byte
	blobs map[string][]vBlobRefC11 // "type/id" -> locations named by index files present
	// statistics
	PacksSaved, IndexesSaved, SnapshotsSaved int
	BlobsChecked                             int
	PacksBeforeSnap, IndexesBeforeSnap       int // at the first snapshot save of the trace
}

func vNewTraceStateC11(d *vDecoderC11, base map[vbe.Key][]byte) (*vTraceStateC11, error) {
	s := &vTraceStateC11{d: d, files: map[vbe.Key][]byte{}, blobs: map[string][]vBlobRefC11{}, PacksBeforeSnap: -1, IndexesBeforeSnap: -1}
	for k, v := range base {
		s.files[k] = v
	}
	for k, v := range base {
		if k.Type == backend.IndexFile {
			if err := s.addIndex(k.Name, v, false); err != nil {
				return nil, fmt.Errorf("pre-existing index %s: %w", k.Name, err)
			}
		}
	}
	return s, nil
}

func (s *vTraceStateC11) addIndex(name string, buf []byte, strict bool) error {
	p, err := s.d.unpacked(buf)
	if err != nil {
		return fmt.Errorf("cannot decode: %w", err)
	}
	var idx vIndexFileC11
	if err := json.Unmarshal(p, &idx); err != nil {
		return fmt.Errorf("cannot parse: %w", err)
	}
	var first error
	for _, pk := range idx.Packs {
		pdata, ok := s.files[vbe.Key{Type: backend.PackFile, Name: pk.ID}]
		if strict && !ok && first == nil {
			first = fmt.Errorf("index %s names pack %s which has not been saved yet", name[:8], pk.ID[:8])
		}
		for _, b := range pk.Blobs {
			if ok && uint64(b.Offset)+uint64(b.Length) > uint64(len(pdata)) && first == nil {
				first = fmt.Errorf("index %s: blob %s at %d+%d beyond the end of pack %s (%d bytes)", name[:8], b.ID[:8], b.Offset, b.Length, pk.ID[:8], len(pdata))
			}
			key := b.Type + "/" + b.ID
			s.blobs[key] = append(s.blobs[key], vBlobRefC11{Pack: pk.ID, Type: b.Type, Offset: b.Offset, Length: b.Length, ULen: b.ULen})
		}
	}
	return first
}

// locate returns an indexed location of the blob whose pack is present.
func (s *vTraceStateC11) locate(typ, id string) (vBlobRefC11, []byte, error) {
	refs := s.blobs[typ+"/"+id]
	if len(refs) == 0 {
		return vBlobRefC11{}, nil, fmt.Errorf("%s blob %s is not named by any index file saved so far", typ, id[:8])
	}
	for _, r := range refs {
		if p, ok := s.files[vbe.Key{Type: backend.PackFile, Name: r.Pack}]; ok {
			return r, p, nil
		}
	}
	return vBlobRefC11{}, nil, fmt.Errorf("%s blob %s is indexed only in pack(s) that do not exist (%s)", typ, id[:8], refs[0].Pack[:8])
}

// loadBlob decrypts (and decompresses) a blob and verifies its content hash.
func (s *vTraceStateC11) loadBlob(typ, id string) ([]byte, error) {
	r, p, err := s.locate(typ, id)
	if err != nil {
		return nil, err
	}
	if uint64(r.Offset)+uint64(r.Length) > uint64(len(p)) {
		return nil, fmt.Errorf("%s blob %s beyond the end of pack %s", typ, id[:8], r.Pack[:8])
	}
	pt, err := s.d.open(p[r.Offset : r.Offset+r.Length])
	if err != nil {
		return nil, fmt.Errorf("%s blob %s in pack %s: %w", typ, id[:8], r.Pack[:8], err)
	}
	if r.ULen != 0 {
		pt, err = s.d.dec.DecodeAll(pt, nil)
		if err != nil {
			return nil, fmt.Errorf("%s blob %s in pack %s: %w", typ, id[:8], r.Pack[:8], err)
		}
	}
	h := sha256.Sum256(pt)
	if hex.EncodeToString(h[:]) != id {
		return nil, fmt.Errorf("%s blob %s in pack %s has the wrong content hash", typ, id[:8], r.Pack[:8])
	}
	return pt, nil
}

// checkSnapshot walks everything reachable from a snapshot file.
func (s *vTraceStateC11) checkSnapshot(name string, buf []byte) error {
	p, err := s.d.unpacked(buf)
	if err != nil {
		return fmt.Errorf("snapshot %s: cannot decode: %w", name[:8], err)
	}
	var sn vSnapshotFileC11
	if err := json.Unmarshal(p, &sn); err != nil || sn.Tree == "" {
		return fmt.Errorf("snapshot %s: cannot parse (%v)", name[:8], err)
	}
	seen := map[string]bool{}
	todo := []string{sn.Tree}
	for len(todo) > 0 {
		id := todo[len(todo)-1]
		todo = todo[:len(todo)-1]
		if seen[id] {
			continue
		}
		seen[id] = true
		tb, err := s.loadBlob("tree", id)
		if err != nil {
			return fmt.Errorf("snapshot %s: %w", name[:8], err)
		}
		s.BlobsChecked++
		var tr vTreeFileC11
		if err := json.Unmarshal(tb, &tr); err != nil {
			return fmt.Errorf("snapshot %s: tree %s: %w", name[:8], id[:8], err)
		}
		for _, n := range tr.Nodes {
			if n.Subtree != "" {
				todo = append(todo, n.Subtree)
			}
			for _, c := range n.Content {
				if seen["d"+c] {
					continue
				}
				seen["d"+c] = true
				if _, _, err := s.locate("data", c); err != nil {
					return fmt.Errorf("snapshot %s: %s: %w", name[:8], n.Name, err)
				}
				s.BlobsChecked++
			}
		}
	}
	return nil
}

// Step applies one operation of the trace after checking the invariant for it.
// addOnly: removing anything but lock files, or overwriting a file with different
// content, is a violation (true for backup and copy, which only add).
func (s *vTraceStateC11) Step(op vbe.Op, addOnly bool) error {
	if op.Remove {
		if addOnly && op.Key.Type != backend.LockFile {
			return fmt.Errorf("writer removed %s", op.Key)
		}
		delete(s.files, op.Key)
		return nil
	}
	if old, ok := s.files[op.Key]; ok && addOnly && op.Key.Type != backend.LockFile && string(old) != string(op.Data) {
		return fmt.Errorf("writer overwrote %s with different content", op.Key)
	}
	// the operation is always applied and counted; the first finding about it is returned
	var err error
	switch op.Key.Type {
	case backend.PackFile:
		h := sha256.Sum256(op.Data)
		if hex.EncodeToString(h[:]) != op.Key.Name {
			err = fmt.Errorf("pack %s saved under a name that is not its hash", op.Key.Name[:8])
		}
		s.PacksSaved++
	case backend.IndexFile:
		err = s.addIndex(op.Key.Name, op.Data, true)
		s.IndexesSaved++
	case backend.SnapshotFile:
		if s.PacksBeforeSnap < 0 {
			s.PacksBeforeSnap, s.IndexesBeforeSnap = s.PacksSaved, s.IndexesSaved
		}
		err = s.checkSnapshot(op.Key.Name, op.Data)
		s.SnapshotsSaved++
	}
	s.files[op.Key] = op.Data
	return err
}

// vCheckTraceC11 runs the ordering invariant over a whole log on top of base.
func vCheckTraceC11(d *vDecoderC11, base map[vbe.Key][]byte, log []vbe.Op, addOnly bool) (*vTraceStateC11, error) {
	s, err := vNewTraceStateC11(d, base)
	if err != nil {
		return nil, err
	}
	var first error
	for i, op := range log {
		if err := s.Step(op, addOnly); err != nil && first == nil {
			first = fmt.Errorf("trace op %d (%s): %w", i, op, err)
		}
	}
	return s, first
}

func vOpsStringC11(log []vbe.Op) string {
	out := ""
	for i, op := range log {
		out += fmt.Sprintf("  %2d %s\n", i, op)
	}
	return out
}
