package main

import (
	"archive/tar"
	"bytes"
	"context"
	"fmt"
	"io"
	"os"
	"path/filepath"
	"sort"
	"strings"
	"testing"

	"github.com/restic/restic/internal/global"
	"github.com/restic/restic/internal/repository"
	"github.com/restic/restic/internal/verifkit"
	"pgregory.net/rapid"
)

// C02 at the level of the commands that hand blob contents on to the user: "restic never
// hands out different content under a given ID" must also hold behind the layers that sit
// between Repository.LoadBlob and the output - the blob cache and the buffer handling of
// `dump`, and the restorer. Sources are drawn so that the same blob occurs again after other
// blobs were loaded (files copied under other names, files from a small content pool of
// different lengths, multi-chunk files whose prefix equals another file); the whole snapshot
// is dumped as a tar archive through the real repository and restored, and every regular
// file must carry exactly the bytes that were backed up. (Added after an independent seeded
// change - dump recycling a blob's buffer for the next download while the blob cache still
// refers to it - was missed by the repository-level parts; the same oracle at the level of
// a fake loader is part of C45.)
func TestVerifC02Consumers(t *testing.T) {
	vSetup(t)
	st := verifkit.Begin(t, "C02")
	rapid.Check(t, func(t *rapid.T) {
		e, err := vNewEnv(true)
		if err != nil {
			t.Fatal(err)
		}
		defer e.Close()
		version := rapid.SampledFrom([]string{"1", "2", "2"}).Draw(t, "version")
		e.gopts.Compression = rapid.SampledFrom([]repository.CompressionMode{repository.CompressionAuto, repository.CompressionOff, repository.CompressionMax}).Draw(t, "compression")
		if err := e.Init(version); err != nil {
			t.Fatal(err)
		}
		src := e.Scratch("src-")
		// 3-8 distinct contents of different lengths (a longer one first makes a recycled buffer
		// large enough for every later blob), each used by 1-3 files; names sort in a drawn order
		nc := rapid.IntRange(3, 8).Draw(t, "contents")
		type content struct {
			node *vNode
			data []byte
		}
		var pool []content
		for i := 0; i < nc; i++ {
			n := &vNode{Seed: rapid.Uint64().Draw(t, "seed")}
			switch rapid.IntRange(0, 5).Draw(t, "lenclass") {
			case 0:
				n.Len = rapid.IntRange(0, 64).Draw(t, "tiny")
			case 1, 2, 3:
				n.Len = rapid.IntRange(65, 20000).Draw(t, "small")
			case 4:
				n.Len = rapid.IntRange(20001, 400000).Draw(t, "medium")
			default:
				n.Len = rapid.IntRange(600000, 2500000).Draw(t, "multichunk")
			}
			if rapid.IntRange(0, 9).Draw(t, "zeros") == 0 {
				n.Zeros = true
			}
			pool = append(pool, content{n, vContent(n)})
		}
		want := map[string][]byte{}
		var names []string
		uses := make([]int, nc)
		nf := rapid.IntRange(nc, 3*nc).Draw(t, "files")
		for i := 0; i < nf; i++ {
			ci := i
			if i >= nc {
				ci = rapid.IntRange(0, nc-1).Draw(t, "use")
			}
			uses[ci]++
			// the file name decides the dump order: a drawn two-letter prefix
			name := fmt.Sprintf("%s-%02d", rapid.StringMatching("[a-f]{2}").Draw(t, "prefix"), i)
			if rapid.IntRange(0, 3).Draw(t, "indir") == 0 {
				d := rapid.SampledFrom([]string{"d1", "d2"}).Draw(t, "dir")
				_ = os.MkdirAll(filepath.Join(src, d), 0o755)
				name = d + "/" + name
			}
			data := pool[ci].data
			if rapid.IntRange(0, 5).Draw(t, "prefixonly") == 0 && len(data) > 1 {
				data = data[:rapid.IntRange(1, len(data)-1).Draw(t, "cut")] // same first chunks, other tail
			}
			if err := os.WriteFile(filepath.Join(src, filepath.FromSlash(name)), data, 0o644); err != nil {
				t.Fatal(err)
			}
			want[name] = data
			names = append(names, name)
		}
		sort.Strings(names)
		repeated := 0
		for _, u := range uses {
			if u > 1 {
				repeated++
			}
		}
		if err := e.Backup([]string{src}, BackupOptions{}); err != nil {
			t.Fatalf("backup: %v", err)
		}
		ids, err := e.SnapshotIDs()
		if err != nil || len(ids) != 1 {
			t.Fatalf("snapshots: %v %v", ids, err)
		}
		desc := func() string {
			var sb strings.Builder
			for _, n := range names {
				fmt.Fprintf(&sb, "%s(%d:%s) ", n, len(want[n]), vSum(want[n]))
			}
			return sb.String()
		}

		// ---- dump as tar through the real repository
		target := filepath.Join(e.Scratch("dump-"), "out.tar")
		if out, err := e.call(e.gopts, func(ctx context.Context, gopts global.Options) error {
			return runDump(ctx, DumpOptions{Archive: "tar", Target: target}, gopts, []string{ids[0] + ":" + filepath.ToSlash(src), "/"}, gopts.Term)
		}); err != nil {
			t.Fatalf("dump: %v\n%s", err, out.Stderr)
		}
		f, err := os.Open(target)
		if err != nil {
			t.Fatal(err)
		}
		defer f.Close()
		got := map[string][]byte{}
		tr := tar.NewReader(f)
		for {
			h, err := tr.Next()
			if err == io.EOF {
				break
			}
			if err != nil {
				t.Fatalf("dump produced an unreadable tar archive: %v\nfiles %s", err, desc())
			}
			if h.Typeflag != tar.TypeReg {
				continue
			}
			b, err := io.ReadAll(tr)
			if err != nil {
				t.Fatalf("tar entry %s: %v", h.Name, err)
			}
			got[strings.TrimPrefix(h.Name, "/")] = b
		}
		for _, n := range names {
			g, ok := got[n]
			if !ok {
				t.Fatalf("dump: no archive entry for %s (entries %d)\nfiles %s", n, len(got), desc())
			}
			if !bytes.Equal(g, want[n]) {
				t.Fatalf("dump: %s carries %d bytes (%s), backed up were %d bytes (%s): other content was handed out under the IDs of its blobs\nfiles %s",
					n, len(g), vSum(g), len(want[n]), vSum(want[n]), desc())
			}
		}
		if len(got) != len(names) {
			t.Fatalf("dump: %d file entries for %d files\nfiles %s", len(got), len(names), desc())
		}

		// ---- single-file dumps of a repeated content, in a drawn order
		for i, n := range rapid.Permutation(names).Draw(t, "single")[:min(3, len(names))] {
			tf := filepath.Join(filepath.Dir(target), fmt.Sprintf("single%d", i))
			if out, err := e.call(e.gopts, func(ctx context.Context, gopts global.Options) error {
				return runDump(ctx, DumpOptions{Archive: "tar", Target: tf}, gopts, []string{ids[0], filepath.ToSlash(filepath.Join(src, filepath.FromSlash(n)))}, gopts.Term)
			}); err != nil {
				t.Fatalf("dump %s: %v\n%s", n, err, out.Stderr)
			}
			b, err := os.ReadFile(tf)
			if err != nil {
				t.Fatal(err)
			}
			if !bytes.Equal(b, want[n]) {
				t.Fatalf("dump of the single file %s wrote %d bytes (%s), backed up were %d (%s)\nfiles %s", n, len(b), vSum(b), len(want[n]), vSum(want[n]), desc())
			}
		}

		// ---- restore
		rt := e.Scratch("restore-")
		if err := e.Restore(ids[0]+":"+filepath.ToSlash(src), rt, RestoreOptions{}); err != nil {
			t.Fatalf("restore: %v", err)
		}
		for _, n := range names {
			b, err := os.ReadFile(filepath.Join(rt, filepath.FromSlash(n)))
			if err != nil {
				t.Fatalf("restore: %v", err)
			}
			if !bytes.Equal(b, want[n]) {
				t.Fatalf("restore: %s has %d bytes (%s), backed up were %d (%s)\nfiles %s", n, len(b), vSum(b), len(want[n]), vSum(want[n]), desc())
			}
		}
		_ = os.RemoveAll(rt)
		_ = os.RemoveAll(filepath.Dir(target))

		key := ""
		if repeated > 0 {
			key = "consumers|" + desc()
		}
		st.Case(key, "consumers:dump+restore", fmt.Sprintf("consumers:repeated-contents=%v", repeated > 0))
		st.Evals(2*len(names) + 3)
		if st.WantSample() {
			st.Sample(map[string]any{"part": "consumers", "files": len(names), "distinct_contents": nc, "contents_used_more_than_once": repeated})
		}
	})
}
