package main

// Property C10: after `prune --max-unused 0` without repack limit has completed, the index
// contains no blob unreachable from a snapshot, no blob twice, no pack without an index
// entry and no index entry for a missing pack; and the reported statistics agree with the
// actual repository before and after.
//
// Histories are engineered to contain the waste classes: unused blobs (forgotten
// snapshots), duplicate blobs (index deleted + backup --force + repair index; blobs saved
// again with storeDuplicate; hand-made packs of copied blobs), mixed packs (hand-made tree+data
// packs of copied and/or fresh blobs), unindexed packs (backup crashed before its index was
// saved), missing-but-unneeded packs (pack holding only unreachable blobs deleted), many small
// packs (one upload session per synthetic snapshot).
//
// The oracle works on the independent repository view of c10_repoview_test.go.

import (
	"context"
	"encoding/json"
	"fmt"
	"os"
	"strings"
	"testing"

	"github.com/restic/restic/internal/backend"
	"github.com/restic/restic/internal/data"
	"github.com/restic/restic/internal/global"
	"github.com/restic/restic/internal/repository"
	"github.com/restic/restic/internal/repository/crypto"
	"github.com/restic/restic/internal/restic"
	"github.com/restic/restic/internal/verifkit"
	"github.com/restic/restic/internal/verifkit/vbe"
	"pgregory.net/rapid"
)

type vHistC10 struct {
	Version   string   `json:"version"`
	Comp      string   `json:"compression"`
	CompMix   bool     `json:"compression_mixed"`
	Steps     []string `json:"steps"`
	PruneOpts []string `json:"prune_opts"`
}

// vViewC10 is the independent description of one repository state.
type vViewC10 struct {
	packs  map[string]int // present pack files -> size
	hdr    map[string]int // present packs with readable header -> header length (incl. length field)
	hdrEnt map[string][]vEntC10
	ents   []vEntC10 // all index entries (multiset)
	reach  map[string]bool
}

func vTakeViewC10(e *vEnv, key *crypto.Key) (*vViewC10, error) {
	v := &vViewC10{packs: map[string]int{}}
	for _, name := range e.store.Keys(backend.PackFile) {
		raw, _ := e.store.Get(backend.PackFile, name)
		v.packs[name] = len(raw)
	}
	var unreadable []string
	v.hdrEnt, v.hdr, unreadable = vPackEntriesC10(e.store, key)
	if len(unreadable) > 0 {
		return nil, fmt.Errorf("packs with unreadable header: %v", unreadable)
	}
	var bad []string
	v.ents, _, bad = vIndexEntriesC10(e.store, key)
	if len(bad) > 0 {
		return nil, fmt.Errorf("undecodable index files: %v", bad)
	}
	var err error
	v.reach, err = vReachableC10(e)
	return v, err
}

func (v *vViewC10) byPack() map[string][]vEntC10 {
	m := map[string][]vEntC10{}
	for _, en := range v.ents {
		m[en.Pack] = append(m[en.Pack], en)
	}
	return m
}

// vRunPruneC10 runs the prune command in JSON mode and returns the statistics it printed.
func vRunPruneC10(e *vEnv, popts PruneOptions) (repository.PruneStats, vOut, error) {
	g := e.gopts
	g.JSON = true
	out, err := e.call(g, func(ctx context.Context, gopts global.Options) error {
		return runPrune(ctx, popts, gopts, gopts.Term)
	})
	var stats repository.PruneStats
	found := false
	for _, line := range strings.Split(out.Stdout, "\n") {
		line = strings.TrimSpace(line)
		if !strings.HasPrefix(line, "{") {
			continue
		}
		var s repository.PruneStats
		if json.Unmarshal([]byte(line), &s) == nil && s.MessageType == "summary" {
			stats, found = s, true
		}
	}
	if err == nil && !found {
		err = fmt.Errorf("prune printed no statistics: %q", out.Stdout)
	}
	return stats, out, err
}

func TestVerifC10FullPrune(t *testing.T) {
	vSetup(t)
	st := verifkit.Begin(t, "C10")
	rapid.Check(t, func(t *rapid.T) { vCaseC10(t, st) })
}

func vCaseC10(t *rapid.T, st *verifkit.Stats) {
	h := vHistC10{Version: rapid.SampledFrom([]string{"1", "2", "2"}).Draw(t, "version")}
	e, err := vNewEnv(true)
	if err != nil {
		t.Fatal(err)
	}
	defer e.Close()
	modes := []repository.CompressionMode{repository.CompressionAuto, repository.CompressionOff, repository.CompressionFastest, repository.CompressionMax}
	modeName := map[repository.CompressionMode]string{repository.CompressionAuto: "auto", repository.CompressionOff: "off", repository.CompressionFastest: "fastest", repository.CompressionMax: "max"}
	// CompressionMax is drawn rarely: every repository open with it initialises zstd's
	// best-compression encoders (tens of MB cleared per open), which dominates the run time
	base := modes[rapid.SampledFrom([]int{0, 0, 0, 0, 0, 0, 1, 1, 1, 1, 2, 2, 2, 3}).Draw(t, "compression")]
	h.Comp = modeName[base]
	h.CompMix = h.Version == "2" && rapid.IntRange(0, 3).Draw(t, "compmix") == 0
	// nonSingle: blobs of one content may exist / be rewritten in different encodings
	nonSingle := h.CompMix
	e.gopts.Compression = base
	setComp := func() string {
		if h.CompMix {
			e.gopts.Compression = modes[rapid.SampledFrom([]int{0, 0, 0, 1, 1, 1, 2, 2, 2, 3}).Draw(t, "opcomp")]
			return "[" + modeName[e.gopts.Compression] + "]"
		}
		return ""
	}
	if err := e.Init(h.Version); err != nil {
		t.Fatal(err)
	}
	key, err := vKeyC10(e)
	if err != nil {
		t.Fatal(err)
	}
	src := e.Scratch("src-")
	materialize := func(tr vTree) {
		_ = os.RemoveAll(src)
		if err := os.Mkdir(src, 0o755); err != nil {
			t.Fatal(err)
		}
		if err := tr.Materialize(src); err != nil {
			t.Fatal(err)
		}
	}
	var models []vTree
	synthN := 0
	step := func(f string, a ...any) { h.Steps = append(h.Steps, fmt.Sprintf(f, a...)) }

	presentEntries := func() []vEntC10 {
		all, _, _ := vIndexEntriesC10(e.store, key)
		var out []vEntC10
		seen := map[string]bool{}
		for _, en := range all {
			if _, ok := e.store.Get(backend.PackFile, en.Pack); ok && !seen[en.H()] {
				seen[en.H()] = true
				out = append(out, en)
			}
		}
		return out
	}
	pickEntries := func(label string, max int) []vEntC10 {
		pe := presentEntries()
		if len(pe) == 0 {
			return nil
		}
		n := rapid.IntRange(1, max).Draw(t, label+"N")
		var out []vEntC10
		used := map[int]bool{}
		for i := 0; i < n; i++ {
			j := rapid.IntRange(0, len(pe)-1).Draw(t, label)
			if !used[j] {
				used[j] = true
				out = append(out, pe[j])
			}
		}
		return out
	}

	opBackup := func() {
		c := setComp()
		tr := vGenTree(t, vTreeGen{MaxEntries: 8, ContentPool: 12})
		materialize(tr)
		force := rapid.IntRange(0, 3).Draw(t, "force") == 0
		if err := e.Backup([]string{src}, BackupOptions{Force: force}); err != nil {
			t.Fatalf("backup: %v", err)
		}
		models = append(models, tr)
		step("backup%s(%d entries)", c, len(tr))
	}
	opSynth := func() {
		c := setComp()
		k := rapid.OneOf(rapid.IntRange(1, 3), rapid.IntRange(4, 7)).Draw(t, "synthK")
		var snaps []vSynthSnapC10
		for i := 0; i < k; i++ {
			sp := vSynthSnapC10{Tag: fmt.Sprintf("s%d", synthN)}
			synthN++
			sp.Root = rapid.SliceOfN(rapid.Uint64Range(1, 60), 1, 3).Draw(t, "synthRoot")
			if rapid.IntRange(0, 2).Draw(t, "synthSub") == 0 {
				sp.Sub = rapid.SliceOfN(rapid.Uint64Range(1, 60), 1, 2).Draw(t, "synthSubSeeds")
			}
			snaps = append(snaps, sp)
		}
		if err := vSaveSynthC10(e, snaps); err != nil {
			t.Fatalf("synthetic snapshots: %v", err)
		}
		step("synth%s(%s)", c, vJSON(snaps))
	}
	opForget := func() {
		ids := e.store.Keys(backend.SnapshotFile)
		if len(ids) == 0 || (len(ids) == 1 && rapid.IntRange(0, 9).Draw(t, "forgetLast") != 0) {
			opSynth()
			return
		}
		n := rapid.IntRange(1, max(1, len(ids)/2)).Draw(t, "forgetN")
		perm := rapid.Permutation(ids).Draw(t, "forgetPerm")
		if _, err := e.Forget(ForgetOptions{}, PruneOptions{}, perm[:n]...); err != nil {
			t.Fatalf("forget: %v", err)
		}
		step("forget(%d of %d)", n, len(ids))
	}
	opDupBackup := func() {
		c := setComp()
		var tr vTree
		if len(models) > 0 && rapid.IntRange(0, 3).Draw(t, "dupOld") != 0 {
			tr = models[rapid.IntRange(0, len(models)-1).Draw(t, "dupModel")]
		} else {
			tr = vGenTree(t, vTreeGen{MaxEntries: 8, ContentPool: 12})
		}
		materialize(tr)
		for _, name := range e.store.Keys(backend.IndexFile) {
			e.store.Del(backend.IndexFile, name)
		}
		if err := e.Backup([]string{src}, BackupOptions{Force: true}); err != nil {
			t.Fatalf("backup --force without index: %v", err)
		}
		models = append(models, tr)
		if _, err := e.call(e.gopts, func(ctx context.Context, gopts global.Options) error {
			return runRebuildIndex(ctx, RepairIndexOptions{}, gopts, gopts.Term)
		}); err != nil {
			t.Fatalf("repair index: %v", err)
		}
		step("dupbackup%s(%d entries)", c, len(tr))
	}
	opDupAPI := func() {
		c := setComp()
		pick := pickEntries("dupapi", 4)
		if len(pick) == 0 {
			opSynth()
			return
		}
		err := vWithRepoRWC10(e, func(ctx context.Context, repo *repository.Repository) error {
			if err := repo.LoadIndex(ctx, restic.NoopTerminalCounterFactory); err != nil {
				return err
			}
			type pb struct {
				tp  restic.BlobType
				id  restic.ID
				buf []byte
			}
			var blobs []pb
			for _, en := range pick {
				id, _ := restic.ParseID(en.ID)
				tp := restic.DataBlob
				if en.Type == "tree" {
					tp = restic.TreeBlob
				}
				buf, err := repo.LoadBlob(ctx, restic.BlobHandle{Type: tp, ID: id}, nil)
				if err != nil {
					return err
				}
				blobs = append(blobs, pb{tp, id, buf})
			}
			return repo.WithBlobUploader(ctx, func(ctx context.Context, up restic.BlobSaverWithAsync) error {
				for _, b := range blobs {
					if _, _, _, err := up.SaveBlob(ctx, b.tp, b.buf, b.id, true); err != nil {
						return err
					}
				}
				return nil
			})
		})
		if err != nil {
			t.Fatalf("store duplicates: %v", err)
		}
		step("dupapi%s(%d blobs)", c, len(pick))
	}
	opMixed := func() {
		copies := pickEntries("mixcopy", 3)
		if rapid.IntRange(0, 2).Draw(t, "mixNoCopies") == 0 {
			copies = nil
		}
		hasT, hasD := false, false
		for _, c := range copies {
			hasT = hasT || c.Type == "tree"
			hasD = hasD || c.Type == "data"
		}
		var fresh []vFreshBlobC10
		var root restic.ID
		withSnap := false
		if !hasT || !hasD || rapid.Bool().Draw(t, "mixFresh") {
			seeds := rapid.SliceOfN(rapid.Uint64Range(1, 90), 1, 2).Draw(t, "mixSeeds")
			tb := data.NewTreeJSONBuilder()
			have := map[string]bool{}
			for _, c := range copies {
				have[c.H()] = true
			}
			for _, nd := range vSynthNodesC10(seeds, "m") {
				if err := tb.AddNode(nd); err != nil {
					t.Fatal(err)
				}
			}
			for _, sd := range seeds {
				c := vBlobContentC10(sd)
				hd := "data/" + restic.Hash(c).String()
				if !have[hd] {
					have[hd] = true
					fresh = append(fresh, vFreshBlobC10{restic.DataBlob, c})
				}
			}
			tj, _ := tb.Finalize()
			root = restic.Hash(tj)
			if !have["tree/"+root.String()] {
				fresh = append(fresh, vFreshBlobC10{restic.TreeBlob, tj})
			}
			withSnap = rapid.IntRange(0, 3).Draw(t, "mixSnap") != 0
			if h.Version == "2" {
				// hand-made blobs are stored uncompressed; restic itself compresses tree blobs in
				// every mode of a v2 repository and data blobs in every mode but off
				nonSingle = true
			}
		}
		name, err := vCraftPackC10(e.store, key, copies, fresh, rapid.Uint64().Draw(t, "mixSeed"), true)
		if err != nil {
			t.Fatalf("craft mixed pack: %v", err)
		}
		if withSnap {
			if err := vSaveSnapshotFileC10(e, root, fmt.Sprintf("m%d", synthN)); err != nil {
				t.Fatal(err)
			}
			synthN++
		}
		step("mixed(%d copies, %d fresh, snapshot=%v) -> %s", len(copies), len(fresh), withSnap, name[:8])
	}
	opCrash := func() {
		c := setComp()
		tr := vGenTree(t, vTreeGen{MaxEntries: 6, ContentPool: 20})
		materialize(tr)
		n, err := vCrashBackupC10(e, src, func(n int) int { return rapid.IntRange(0, n-1).Draw(t, "crashCut") })
		if err != nil {
			t.Fatalf("backup (to be cut): %v", err)
		}
		step("crashbackup%s(%d packs left unindexed)", c, n)
	}

	ops := []func(){opBackup, opBackup, opSynth, opSynth, opSynth, opForget, opForget, opForget, opDupBackup, opDupAPI, opDupAPI, opMixed, opMixed, opCrash}
	nOps := rapid.IntRange(3, 9).Draw(t, "nOps")
	for i := 0; i < nOps; i++ {
		if i == 0 {
			if rapid.Bool().Draw(t, "firstBackup") {
				opBackup()
			} else {
				opSynth()
			}
			continue
		}
		ops[rapid.IntRange(0, len(ops)-1).Draw(t, "op")]()
	}

	// in a quarter of the histories: a run of snapshots with fresh contents, one upload session
	// each, so that >= 10 fully used small packs exist (the planner repacks small packs only
	// when there are at least 10 candidates)
	if rapid.IntRange(0, 3).Draw(t, "manySmall") == 0 {
		c := setComp()
		k := rapid.IntRange(5, 7).Draw(t, "manySmallK")
		var snaps []vSynthSnapC10
		for i := 0; i < k; i++ {
			snaps = append(snaps, vSynthSnapC10{Tag: fmt.Sprintf("s%d", synthN), Root: []uint64{uint64(1000 + 2*synthN), uint64(1001 + 2*synthN)}})
			synthN++
		}
		if err := vSaveSynthC10(e, snaps); err != nil {
			t.Fatalf("synthetic snapshots: %v", err)
		}
		step("manysmall%s(%d snapshots)", c, k)
	}

	// finale: delete packs that hold only unreachable blobs (missing but unneeded)
	pre, err := vTakeViewC10(e, key)
	if err != nil {
		t.Fatalf("harness: view before prune: %v\nhistory %s", err, vJSON(h))
	}
	{
		bp := pre.byPack()
		nDel := 0
		for _, p := range vSortedKeysC10(bp) {
			if _, ok := pre.packs[p]; !ok {
				continue
			}
			unneeded := true
			for _, en := range bp[p] {
				if pre.reach[en.H()] {
					unneeded = false
				}
			}
			if unneeded && nDel < 3 && rapid.IntRange(0, 2).Draw(t, "delUnneeded") == 0 {
				e.store.Del(backend.PackFile, p)
				delete(pre.packs, p)
				delete(pre.hdr, p)
				delete(pre.hdrEnt, p)
				nDel++
			}
		}
		if nDel > 0 {
			step("delete %d unneeded packs", nDel)
		}
	}

	// harness precondition: the index tells the truth about every present indexed pack
	bp := pre.byPack()
	for _, p := range vSortedKeysC10(bp) {
		if _, ok := pre.packs[p]; !ok {
			continue
		}
		if d := vEntSetDiffC10(bp[p], pre.hdrEnt[p]); d != "" {
			t.Fatalf("harness: index of pack %s differs from its header before prune: %s\nhistory %s", p[:8], d, vJSON(h))
		}
	}

	// the prune under observation
	pruneComp := setComp()
	popts := PruneOptions{MaxUnused: rapid.SampledFrom([]string{"0", "0", "0%", "0k"}).Draw(t, "maxunused")}
	if h.Version == "2" && e.gopts.Compression != repository.CompressionOff && rapid.IntRange(0, 3).Draw(t, "repackUncompressed") == 0 {
		popts.RepackUncompressed = true
	}
	popts.SmallPackSize = rapid.SampledFrom([]string{"", "", "", "1k", "2M"}).Draw(t, "smaller")
	h.PruneOpts = []string{popts.MaxUnused, fmt.Sprint(popts.RepackUncompressed), popts.SmallPackSize}
	if pruneComp != "" {
		h.PruneOpts = append(h.PruneOpts, pruneComp)
	}

	stats, out, err := vRunPruneC10(e, popts)
	if err != nil {
		t.Fatalf("prune failed: %v\n%s%s\nhistory %s", err, out.Stdout, out.Stderr, vJSON(h))
	}
	post, err := vTakeViewC10(e, key)
	if err != nil {
		t.Fatalf("state after prune cannot be read: %v\nhistory %s", err, vJSON(h))
	}

	problems, info := vCompareC10(pre, post, stats, nonSingle)

	// the repository still passes check --read-data (no blob lost or damaged by the repack)
	if cout, cerr := e.Check(true); cerr != nil {
		problems = append(problems, fmt.Sprintf("check --read-data after prune: %v %s", cerr, cout.Stderr))
	}
	// a second full prune finds nothing to remove
	stats2, out2, err := vRunPruneC10(e, PruneOptions{MaxUnused: "0"})
	if err != nil {
		problems = append(problems, fmt.Sprintf("second prune failed: %v %s", err, out2.Stderr))
	} else if stats2.Blobs.Unused != 0 || stats2.Blobs.Duplicate != 0 || stats2.Blobs.RemoveTotal != 0 || stats2.Size.Unref != 0 ||
		stats2.Blobs.Used != uint(len(post.reach)) || stats2.Packs.Unused != 0 || stats2.Packs.PartlyUsed != 0 {
		problems = append(problems, fmt.Sprintf("second prune still reports waste: %s", vJSON(stats2)))
	}

	// classes
	waste := 0
	var classes []string
	for _, w := range []struct {
		name string
		on   bool
	}{
		{"unused", info.unusedEntries > 0}, {"dup", info.dupEntries > 0}, {"mixed", info.mixedPacks > 0},
		{"unindexed", info.unindexedPacks > 0}, {"missing", info.missingPacks > 0}, {"manysmall", info.fullyUsedPacks >= 10},
	} {
		classes = append(classes, fmt.Sprintf("waste:%s=%v", w.name, w.on))
		if w.on {
			waste++
		}
	}
	classes = append(classes, fmt.Sprintf("wasteclasses=%d", waste), fmt.Sprintf("single_encoding=%v", !nonSingle),
		fmt.Sprintf("used_dup=%v", info.usedDup > 0), fmt.Sprintf("repack=%v", stats.Packs.Repack > 0), fmt.Sprintf("keep=%v", stats.Packs.Keep > 0),
		fmt.Sprintf("small_repacked=%v", info.smallRepacked), "v"+h.Version, "comp="+h.Comp, fmt.Sprintf("snapshots_left=%v", len(post.reach) > 0))
	caseKey := ""
	if waste >= 3 {
		caseKey = vJSON(h)
	}
	st.Case(caseKey, classes...)
	if st.WantSample() {
		st.Sample(map[string]any{"history": h, "stats": stats, "packs_before": len(pre.packs), "packs_after": len(post.packs),
			"index_entries_before": len(pre.ents), "index_entries_after": len(post.ents), "reachable": len(pre.reach), "waste": classes[:6]})
	}
	if len(problems) > 0 {
		t.Fatalf("C10 violated:\n  %s\nstats %s\nhistory %s\nprune output:\n%s%s", strings.Join(problems, "\n  "), vJSON(stats), vJSON(h), out.Stdout, out.Stderr)
	}
}

// vEntSetDiffC10 compares two entry lists as multisets.
func vEntSetDiffC10(a, b []vEntC10) string {
	ma := map[vEntC10]int{}
	for _, x := range a {
		ma[x]++
	}
	var d []string
	for _, x := range b {
		if ma[x] == 0 {
			d = append(d, "only in second: "+x.String())
		} else {
			ma[x]--
		}
	}
	a2 := append([]vEntC10(nil), a...)
	vSortEntsC10(a2)
	for _, x := range a2 {
		if ma[x] > 0 {
			d = append(d, "only in first: "+x.String())
			ma[x] = 0
		}
	}
	if len(d) > 6 {
		d = append(d[:6], fmt.Sprintf("... %d more", len(d)-6))
	}
	return strings.Join(d, "; ")
}

type vInfoC10 struct {
	unusedEntries, dupEntries, usedDup, mixedPacks, unindexedPacks, missingPacks, fullyUsedPacks int
	smallRepacked                                                                                bool
}

// vCompareC10 is the oracle: final-state conditions and the statistics accounting.
func vCompareC10(pre, post *vViewC10, s repository.PruneStats, nonSingle bool) (problems []string, info vInfoC10) {
	bad := func(f string, a ...any) { problems = append(problems, fmt.Sprintf(f, a...)) }
	eq := func(name string, got, want uint64) {
		if got != want {
			bad("%s: reported %d, actual %d", name, got, want)
		}
	}
	within := func(name string, got, lo, hi uint64) {
		if got < lo || got > hi {
			bad("%s: reported %d, actual between %d and %d", name, got, lo, hi)
		}
	}

	// ---- final state ----
	if d := vSetDiffC10(vSortedKeysC10(pre.reach), vSortedKeysC10(post.reach)); d != "" {
		bad("reachable set changed by prune: %s", d)
	}
	cntAfter := map[string]int{}
	packsNamed := map[string]bool{}
	for _, en := range post.ents {
		cntAfter[en.H()]++
		packsNamed[en.Pack] = true
	}
	for _, hd := range vSortedKeysC10(cntAfter) {
		if !post.reach[hd] {
			bad("index lists unreachable blob %s", hd[:13])
		}
		if cntAfter[hd] > 1 {
			bad("index lists blob %s %d times", hd[:13], cntAfter[hd])
		}
	}
	for _, hd := range vSortedKeysC10(post.reach) {
		if cntAfter[hd] == 0 {
			bad("reachable blob %s is not in the index", hd[:13])
		}
	}
	for _, p := range vSortedKeysC10(post.packs) {
		if !packsNamed[p] {
			bad("pack file %s has no index entry", p[:8])
		}
	}
	for _, p := range vSortedKeysC10(packsNamed) {
		if _, ok := post.packs[p]; !ok {
			bad("index names missing pack %s", p[:8])
		}
	}
	var hdrAll []vEntC10
	for _, p := range vSortedKeysC10(post.hdrEnt) {
		hdrAll = append(hdrAll, post.hdrEnt[p]...)
	}
	if d := vEntSetDiffC10(post.ents, hdrAll); d != "" {
		bad("index after prune differs from pack headers (first=index, second=headers): %s", d)
	}

	// ---- accounting of the state before ----
	cnt := map[string]int{}
	minLen, maxLen := map[string]uint64{}, map[string]uint64{}
	for _, en := range pre.ents {
		hd := en.H()
		cnt[hd]++
		l := uint64(en.Len)
		if cnt[hd] == 1 || l < minLen[hd] {
			minLen[hd] = l
		}
		if l > maxLen[hd] {
			maxLen[hd] = l
		}
	}
	var usedEntries, unusedEntries, totalLen, usedLen, unusedLen, sumMin, sumMax uint64
	for _, en := range pre.ents {
		totalLen += uint64(en.Len)
		if pre.reach[en.H()] {
			usedEntries++
			usedLen += uint64(en.Len)
		} else {
			unusedEntries++
			unusedLen += uint64(en.Len)
		}
	}
	for hd := range pre.reach {
		if cnt[hd] == 0 {
			bad("harness: reachable blob %s not in the index before prune", hd[:13])
		}
		sumMin += minLen[hd]
		sumMax += maxLen[hd]
		if cnt[hd] > 1 {
			info.usedDup++
		}
	}
	for _, c := range cnt {
		if c > 1 {
			info.dupEntries += c - 1
		}
	}
	info.unusedEntries = int(unusedEntries)
	distinctUsed := uint64(len(pre.reach))

	bp := pre.byPack()
	var unrefBytes, unrefPacks, missingLen, missingEntries, hdrBefore, indexedPresent uint64
	for _, p := range vSortedKeysC10(pre.packs) {
		if _, ok := bp[p]; !ok {
			unrefBytes += uint64(pre.packs[p])
			unrefPacks++
		} else {
			indexedPresent++
			hdrBefore += uint64(pre.hdr[p])
		}
	}
	info.unindexedPacks = int(unrefPacks)
	// pack classification
	var cu, cp, cn, cdup uint64 // fully used / partly / unused packs without choice, packs with a duplicated used blob
	var rmEntries, rmLen uint64 // entries of unused present packs and of missing packs
	goneIndexedEntries := uint64(0)
	var repackSet []string
	for _, p := range vSortedKeysC10(bp) {
		es := bp[p]
		nUsed, hasDup, types := 0, false, map[string]bool{}
		for _, en := range es {
			types[en.Type] = true
			if pre.reach[en.H()] {
				nUsed++
				if cnt[en.H()] > 1 {
					hasDup = true
				}
			}
		}
		if _, present := pre.packs[p]; !present {
			info.missingPacks++
			missingEntries += uint64(len(es))
			for _, en := range es {
				missingLen += uint64(en.Len)
				rmLen += uint64(en.Len)
			}
			rmEntries += uint64(len(es))
			if nUsed > 0 {
				bad("harness: missing pack %s holds reachable blobs", p[:8])
			}
			continue
		}
		if len(types) > 1 {
			info.mixedPacks++
		}
		_, kept := post.packs[p]
		if !kept {
			goneIndexedEntries += uint64(len(es))
		}
		switch {
		case hasDup:
			cdup++
		case nUsed == len(es):
			cu++
			if len(types) == 1 {
				info.fullyUsedPacks++
				if !kept {
					info.smallRepacked = true
				}
			}
		case nUsed == 0:
			cn++
			rmEntries += uint64(len(es))
			for _, en := range es {
				rmLen += uint64(en.Len)
			}
		default:
			cp++
		}
		if !kept && nUsed > 0 {
			repackSet = append(repackSet, p)
		}
	}

	// ---- statistics: values determined by the repository ----
	eq("blobs.used", uint64(s.Blobs.Used), distinctUsed)
	eq("blobs.duplicate", uint64(s.Blobs.Duplicate), usedEntries-distinctUsed)
	eq("blobs.unused", uint64(s.Blobs.Unused), unusedEntries)
	eq("blobs.total", uint64(s.Blobs.Total), uint64(len(pre.ents)))
	eq("bytes.unused", s.Size.Unused, unusedLen)
	eq("bytes.used+bytes.duplicate", s.Size.Used+s.Size.Duplicate, usedLen)
	within("bytes.used", s.Size.Used, sumMin, sumMax)
	eq("bytes.unreferenced", s.Size.Unref, unrefBytes)
	eq("packfiles.unreferenced", uint64(s.Packs.Unref), unrefPacks)
	eq("bytes.total", s.Size.Total, totalLen+unrefBytes)
	eq("packfiles.total", uint64(s.Packs.Total), uint64(len(pre.packs)))
	eq("packfiles.used+partly_used+unused", uint64(s.Packs.Used+s.Packs.PartlyUsed+s.Packs.Unused), indexedPresent)
	eq("packfiles.keep+repack+remove", uint64(s.Packs.Keep+s.Packs.Repack+s.Packs.Remove), indexedPresent)
	within("packfiles.used", uint64(s.Packs.Used), cu, cu+cdup)
	within("packfiles.partly_used", uint64(s.Packs.PartlyUsed), cp, cp+cdup)
	within("packfiles.unused", uint64(s.Packs.Unused), cn, cn+cdup)
	eq("packfiles.remove (= unused packs)", uint64(s.Packs.Remove), uint64(s.Packs.Unused))
	eq("packfiles.remove_total", uint64(s.Packs.RemoveTotal), uint64(s.Packs.Unref+s.Packs.Remove))
	// bytes.total counts blob bytes + unreferenced files; tie it to the actual file sizes
	var bytesBefore, bytesAfter, hdrAfter, lenAfter uint64
	for _, sz := range pre.packs {
		bytesBefore += uint64(sz)
	}
	for p, sz := range post.packs {
		bytesAfter += uint64(sz)
		hdrAfter += uint64(post.hdr[p])
	}
	for _, en := range post.ents {
		lenAfter += uint64(en.Len)
	}
	eq("bytes.total - bytes of missing packs' entries + pack headers (= size of all pack files before)", s.Size.Total-missingLen+hdrBefore, bytesBefore)

	// ---- statistics vs the state after ----
	eq("blobs.remaining", uint64(s.Blobs.Remain), uint64(len(post.ents)))
	eq("blobs.remove_total", uint64(s.Blobs.RemoveTotal), uint64(len(pre.ents))-min(uint64(len(post.ents)), uint64(len(pre.ents))))
	eq("blobs.remove+repack_remove", uint64(s.Blobs.Remove+s.Blobs.Repackrm), uint64(s.Blobs.RemoveTotal))
	eq("bytes.remaining_unused", s.Size.RemainUnused, 0)
	eq("bytes.remove_total", s.Size.RemoveTotal, s.Size.Total-s.Size.Remain)
	eq("bytes.remove+repack_remove+unreferenced", s.Size.Remove+s.Size.Repackrm+s.Size.Unref, s.Size.RemoveTotal)
	var keptPacks, gonePacks uint64
	for p := range pre.packs {
		if _, ok := post.packs[p]; ok {
			keptPacks++
		} else {
			gonePacks++
		}
	}
	eq("packfiles.keep (= packs surviving)", uint64(s.Packs.Keep), keptPacks)
	eq("packfiles.unreferenced+remove+repack (= packs deleted)", uint64(s.Packs.Unref+s.Packs.Remove+s.Packs.Repack), gonePacks)
	eq("blobs.remove+blobs.repack (= entries of deleted and missing packs)", uint64(s.Blobs.Remove+s.Blobs.Repack), goneIndexedEntries+missingEntries)
	if bytesAfter != lenAfter+hdrAfter {
		bad("pack files after prune hold %d bytes, index entries + headers account for %d", bytesAfter, lenAfter+hdrAfter)
	}
	if !nonSingle {
		// one encoding per content: every copy of a blob has the same length and repacking preserves it
		eq("bytes.remaining (= blob bytes after)", s.Size.Remain, lenAfter)
		eq("bytes.remaining + pack headers after (= size of all pack files after)", s.Size.Remain+hdrAfter, bytesAfter)
		eq("bytes.used", s.Size.Used, sumMin)
	} else {
		within("bytes.remaining", s.Size.Remain, sumMin, sumMax)
	}

	// ---- values that are determined when no used blob has duplicates ----
	if info.usedDup == 0 {
		eq("packfiles.repack", uint64(s.Packs.Repack), uint64(len(repackSet)))
		eq("blobs.remove", uint64(s.Blobs.Remove), rmEntries)
		eq("bytes.remove", s.Size.Remove, rmLen)
		var rpEntries, rpBytes, rpRmEntries, rpRmLen uint64
		for _, p := range repackSet {
			rpBytes += uint64(pre.packs[p])
			for _, en := range bp[p] {
				rpEntries++
				if !pre.reach[en.H()] {
					rpRmEntries++
					rpRmLen += uint64(en.Len)
				}
			}
		}
		eq("blobs.repack", uint64(s.Blobs.Repack), rpEntries)
		eq("bytes.repack", s.Size.Repack, rpBytes)
		eq("blobs.repack_remove", uint64(s.Blobs.Repackrm), rpRmEntries)
		eq("bytes.repack_remove", s.Size.Repackrm, rpRmLen)
	}
	return problems, info
}

func vSetDiffC10(a, b []string) string {
	ma := map[string]bool{}
	for _, x := range a {
		ma[x] = true
	}
	var d []string
	for _, x := range b {
		if !ma[x] {
			d = append(d, "+"+x)
		}
		delete(ma, x)
	}
	for _, x := range vSortedKeysC10(ma) {
		d = append(d, "-"+x)
	}
	if len(d) > 6 {
		d = append(d[:6], "...")
	}
	return strings.Join(d, " ")
}

var _ = vbe.NoFaults
