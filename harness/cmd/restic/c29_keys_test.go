package main

// C29: a repository opens with exactly the passwords of its current keys.
//
// rapid draws a history of `key add` / `key passwd` / `key remove <id>` commands (the real
// runKeyAdd / runKeyPasswd / runKeyRemove) over a small pool of passwords (incl. the empty
// one through --insecure-no-password / --new-insecure-no-password), interleaved with
// switches of the credentials the next command is run with. Every command is recorded on
// the harness backend and EVERY prefix of its Save/Remove log is rebuilt as a crash state.
// Model: key file id -> password it was created with (learned by diffing the key file
// lists before/after each command). Oracle per state: see vCheckStateC29.

import (
	"context"
	"encoding/json"
	"errors"
	"fmt"
	"os"
	"path/filepath"
	"sort"
	"strings"
	"testing"

	"github.com/restic/restic/internal/backend"
	"github.com/restic/restic/internal/global"
	"github.com/restic/restic/internal/repository"
	"github.com/restic/restic/internal/verifkit"
	"github.com/restic/restic/internal/verifkit/vbe"
	"pgregory.net/rapid"
)

const vMaxKeysC29 = 20 // global.maxKeys: the statement's "at most 20 keys"

var vPwPoolC29 = []string{"alpha", "br4vo with spaces", "ch@rlie-ünï", "delta$\"'", ""}

const vWrongPwC29 = "never-used-password"

// vStepC29 is one step of the history (JSON form for samples and the case key).
type vStepC29 struct {
	Op      string `json:"op"` // add | passwd | remove | use
	Pw      string `json:"pw"`
	Via     string `json:"via,omitempty"`    // how the new password is handed over: var | file | flag
	Target  string `json:"target,omitempty"` // remove: in-use | other-same-pw | other ; use: pw of the chosen key
	Keys    int    `json:"keys"`             // number of keys after the step
	Refused bool   `json:"refused,omitempty"`
}

type vOpenC29 struct {
	ok     bool
	keyID  string
	master string
	cfgID  string
	err    error
}

// vTryOpenC29 opens the repository the way every command does (global.OpenRepository via
// openWithReadLock --no-lock) with the given password and key hint.
func vTryOpenC29(e *vEnv, pw, hint string) vOpenC29 {
	ee := *e
	ee.gopts.Password = pw
	ee.gopts.InsecureNoPassword = pw == ""
	ee.gopts.KeyHint = hint
	var r vOpenC29
	r.err = ee.WithRepo(func(ctx context.Context, repo *repository.Repository) error {
		r.ok = true
		r.keyID = repo.KeyID().String()
		b, err := json.Marshal(repo.Key())
		if err != nil {
			return err
		}
		r.master = string(b)
		r.cfgID = repo.Config().ID
		return nil
	})
	if r.err != nil {
		r.ok = false
	}
	return r
}

// vWorldC29 is the model plus the credentials in use.
type vWorldC29 struct {
	pwOf           map[string]string // key id -> password, for every key file ever created in this case
	order          []string          // key ids in creation order (current and removed)
	cands          []string          // candidate passwords tried against every state
	master         string            // JSON of the master key of the repository
	cfgID          string
	curPw          string // credentials the next command runs with
	hint           string // key hint the next command runs with ("" = none)
	ambiguousHints int
	seen           map[string]bool
	opens          int
}

func (w *vWorldC29) current(s *vbe.Store) []string { return s.Keys(backend.KeyFile) }

// vCheckStateC29 is the oracle on one repository state (a crash prefix or a final state):
//   - every key file is one the model knows (no stray key files);
//   - for each candidate password p (the pool, every password used, and one never used):
//     open without hint succeeds => some current key has p (always), and the key it reports
//     has password p; some current key has p and keys <= 20 => open succeeds;
//   - for every current key K: open with password(K) and --key-hint K succeeds and uses K
//     (this is the only claim for repositories with more than 20 keys);
//   - a hint that names a key with another password does not change the outcome (<= 20 keys);
//   - every successful open yields the same master key and config;
//   - at least one (password, hint) opens the state.
func vCheckStateC29(w *vWorldC29, e *vEnv, s *vbe.Store, where string) error {
	s.DropLocks() // the crashed process is dead: its lock is stale, `restic unlock` removes it
	keys := w.current(s)
	sig := strings.Join(keys, ",")
	if w.seen[sig] {
		return nil
	}
	w.seen[sig] = true
	se := e.OnStore(s)
	defer se.Release()
	for _, k := range keys {
		if _, ok := w.pwOf[k]; !ok {
			return fmt.Errorf("%s: key file %s is not one created by a key command of this history", where, k[:8])
		}
	}
	if len(keys) == 0 {
		return fmt.Errorf("%s: no key file left: the repository cannot be opened with any password", where)
	}
	n := len(keys)
	checkOpen := func(r vOpenC29, pw, hint string) error {
		w.opens++
		if !r.ok {
			return nil
		}
		if got, ok := w.pwOf[r.keyID]; !ok || got != pw {
			return fmt.Errorf("%s: open with password %q hint %q reports key %s whose password is %q", where, pw, hint, r.keyID[:8], got)
		}
		if r.master != w.master {
			return fmt.Errorf("%s: open with password %q (key %s) yields a different master key", where, pw, r.keyID[:8])
		}
		if r.cfgID != w.cfgID {
			return fmt.Errorf("%s: open with password %q yields repository id %s, want %s", where, pw, r.cfgID, w.cfgID)
		}
		return nil
	}
	anyOpen := false
	for _, pw := range w.cands {
		var holders []string
		var others []string
		for _, k := range keys {
			if w.pwOf[k] == pw {
				holders = append(holders, k)
			} else {
				others = append(others, k)
			}
		}
		r := vTryOpenC29(se, pw, "")
		if err := checkOpen(r, pw, ""); err != nil {
			return err
		}
		if r.ok && len(holders) == 0 {
			return fmt.Errorf("%s: password %q opens the repository although no current key was created with it (keys %v)", where, pw, vShortKeysC29(keys, w))
		}
		if !r.ok && len(holders) > 0 && n <= vMaxKeysC29 {
			return fmt.Errorf("%s: password %q of current key %s does not open the repository with %d keys: %v", where, pw, holders[0][:8], n, r.err)
		}
		if !r.ok && !errors.Is(r.err, repository.ErrNoKeyFound) && !(n > vMaxKeysC29 && strings.Contains(r.err.Error(), repository.ErrMaxKeysReached.Error())) {
			return fmt.Errorf("%s: open with password %q failed with an unexpected error: %v", where, pw, r.err)
		}
		anyOpen = anyOpen || r.ok
		// a hint naming a key with another password must not change the outcome
		if len(others) > 0 && n <= vMaxKeysC29 {
			h := others[len(others)-1]
			r2 := vTryOpenC29(se, pw, h)
			if err := checkOpen(r2, pw, h); err != nil {
				return err
			}
			if r2.ok != r.ok {
				return fmt.Errorf("%s: password %q: open without hint ok=%v, with hint %s (a key of another password) ok=%v: %v", where, pw, r.ok, h[:8], r2.ok, r2.err)
			}
		}
		// an ambiguous hint (a prefix shared by several key ids, here one hex digit) and a hint that
		// names no key must not change the outcome either: restic then tries all keys
		if n <= vMaxKeysC29 {
			byDigit := map[byte][]string{}
			for _, k := range keys {
				byDigit[k[0]] = append(byDigit[k[0]], k)
			}
			amb := ""
			for _, h := range holders { // prefer a digit shared with a key that holds this password
				if len(byDigit[h[0]]) >= 2 {
					amb = h[:1]
				}
			}
			if amb == "" {
				for d, ks := range byDigit {
					if len(ks) >= 2 && (amb == "" || string(d) < amb) {
						amb = string(d)
					}
				}
			}
			hints := []string{"0123456789abcdef0123456789abcdef0123456789abcdef0123456789abcdef"}
			if amb != "" {
				hints = append(hints, amb)
				w.ambiguousHints++
			}
			for _, h := range hints {
				r4 := vTryOpenC29(se, pw, h)
				if err := checkOpen(r4, pw, h); err != nil {
					return err
				}
				if r4.ok != r.ok {
					return fmt.Errorf("%s: password %q: open without hint ok=%v, with the hint %q (ambiguous or naming no key, %d keys) ok=%v: %v", where, pw, r.ok, h, n, r4.ok, r4.err)
				}
			}
		}
		// the hinted key opens whatever the number of keys
		hinted := holders
		if n <= vMaxKeysC29 && len(hinted) > 1 {
			hinted = hinted[len(hinted)-1:]
		}
		for _, h := range hinted {
			hint := h
			if h[0] < '8' {
				hint = h[:10] // prefixes are accepted like for every other id
			}
			r3 := vTryOpenC29(se, pw, hint)
			if err := checkOpen(r3, pw, hint); err != nil {
				return err
			}
			if !r3.ok {
				return fmt.Errorf("%s: password %q with --key-hint %s (a current key of that password, %d keys) does not open: %v", where, pw, hint, n, r3.err)
			}
			if r3.keyID != h {
				return fmt.Errorf("%s: password %q with --key-hint %s opened with key %s", where, pw, hint, r3.keyID[:8])
			}
			anyOpen = true
		}
	}
	if !anyOpen {
		return fmt.Errorf("%s: no working key: none of the passwords %q opens the repository (keys %v)", where, w.cands, vShortKeysC29(keys, w))
	}
	return nil
}

func vShortKeysC29(keys []string, w *vWorldC29) []string {
	var out []string
	for _, k := range keys {
		out = append(out, fmt.Sprintf("%s:%q", k[:8], w.pwOf[k]))
	}
	return out
}

func vKeyOpsC29(log []vbe.Op) (saves, removes []string) {
	for _, op := range log {
		if op.Key.Type != backend.KeyFile {
			continue
		}
		if op.Remove {
			removes = append(removes, op.Key.Name)
		} else {
			saves = append(saves, op.Key.Name)
		}
	}
	return
}

func vDiffC29(before, after []string) (added, removed []string) {
	b, a := vSetOfC29(before), vSetOfC29(after)
	for _, x := range after {
		if !b[x] {
			added = append(added, x)
		}
	}
	for _, x := range before {
		if !a[x] {
			removed = append(removed, x)
		}
	}
	return
}

func vSetOfC29(l []string) map[string]bool {
	m := map[string]bool{}
	for _, x := range l {
		m[x] = true
	}
	return m
}

// vCmdGoptsC29 are the global options of a command run with the current credentials.
func (w *vWorldC29) gopts(e *vEnv) global.Options {
	g := e.gopts
	g.Password = w.curPw
	g.InsecureNoPassword = w.curPw == ""
	g.KeyHint = w.hint
	return g
}

// vNewPwOptsC29 prepares the hand-over of the new password: the test variable the stock
// integration tests use, a --new-password-file, or --new-insecure-no-password.
func vNewPwOptsC29(e *vEnv, pw, via string) (KeyAddOptions, func()) {
	opts := KeyAddOptions{Username: "vuser", Hostname: "vhost"}
	testKeyNewPassword = ""
	switch {
	case pw == "":
		opts.InsecureNoPassword = true
	case via == "file":
		f := filepath.Join(e.base, "newpw")
		_ = os.WriteFile(f, []byte(pw+"\n"), 0o600)
		opts.NewPasswordFile = f
	default:
		testKeyNewPassword = pw
	}
	return opts, func() { testKeyNewPassword = "" }
}

func TestVerifC29KeyHistories(t *testing.T) {
	vSetup(t)
	st := verifkit.Begin(t, "C29")
	rapid.Check(t, func(t *rapid.T) {
		e, err := vNewEnv(true)
		if err != nil {
			t.Fatal(err)
		}
		defer e.Close()

		many := rapid.IntRange(0, 3).Draw(t, "many") == 0
		npw := rapid.IntRange(2, 5).Draw(t, "npw")
		pool := rapid.Permutation(vPwPoolC29).Draw(t, "pool")[:npw]
		w := &vWorldC29{pwOf: map[string]string{}, seen: map[string]bool{}}
		w.cands = append(append([]string{}, pool...), vWrongPwC29)
		if !vSetOfC29(pool)[""] {
			w.cands = append(w.cands, "") // the empty password is always tried
		}
		uniq := 0
		drawPw := func(label string) string {
			if many && rapid.IntRange(0, 2).Draw(t, label+"uniq") == 0 {
				uniq++
				p := fmt.Sprintf("unique-%d", uniq)
				w.cands = append(w.cands, p)
				return p
			}
			return rapid.SampledFrom(pool).Draw(t, label)
		}

		// init with the first password of the pool
		w.curPw = pool[0]
		e.gopts = w.gopts(e)
		version := rapid.SampledFrom([]string{"1", "2"}).Draw(t, "version")
		if err := e.Init(version); err != nil {
			t.Fatalf("init with password %q: %v", w.curPw, err)
		}
		keys := w.current(e.store)
		if len(keys) != 1 {
			t.Fatalf("init created %d key files", len(keys))
		}
		w.pwOf[keys[0]] = w.curPw
		w.order = append(w.order, keys[0])
		first := vTryOpenC29(e, w.curPw, "")
		if !first.ok {
			t.Fatalf("fresh repository does not open with its password %q: %v", w.curPw, first.err)
		}
		w.master, w.cfgID = first.master, first.cfgID
		st.Evals(1)
		if err := vCheckStateC29(w, e, e.store.Clone(), "after init"); err != nil {
			t.Fatalf("%v", err)
		}

		var hist []vStepC29
		fail := func(format string, a ...any) {
			t.Helper()
			t.Fatalf("%s\nhistory: %s", fmt.Sprintf(format, a...), vJSON(hist))
		}

		doAdd := func(pw, via string, check bool) {
			before := w.current(e.store)
			opts, done := vNewPwOptsC29(e, pw, via)
			fn := func(ctx context.Context, gopts global.Options) error {
				return runKeyAdd(ctx, gopts, opts, nil, gopts.Term)
			}
			var log []vbe.Op
			var cerr error
			if check {
				// the new key is learned from the log before the prefixes are judged
				e.store.StartRecording(vbe.NoFaults())
				_, cerr = e.call(w.gopts(e), fn)
				log = e.store.StopRecording()
			} else {
				_, cerr = e.call(w.gopts(e), fn)
			}
			done()
			if cerr != nil {
				fail("key add (new password %q via %s, run with password %q hint %q) failed: %v", pw, via, w.curPw, w.hint, cerr)
			}
			added, removed := vDiffC29(before, w.current(e.store))
			if len(added) != 1 || len(removed) != 0 {
				fail("key add changed the key files by +%v -%v", added, removed)
			}
			w.pwOf[added[0]] = pw
			w.order = append(w.order, added[0])
			if check {
				saves, removes := vKeyOpsC29(log)
				if len(saves) != 1 || len(removes) != 0 {
					fail("key add: key file operations saves=%v removes=%v", saves, removes)
				}
				for k := 0; k <= len(log); k++ {
					st.Evals(1)
					if err := vCheckStateC29(w, e, e.store.StateAt(k), fmt.Sprintf("key add %q, crash after %d of %d backend operations (%s)", pw, k, len(log), vOpAtC29(log, k))); err != nil {
						fail("%v\nops:\n%s", err, vOpsStringC29(log))
					}
				}
			}
		}

		// class "many": bring the repository to 18..22 keys first (real key add commands, final states only)
		if many {
			target := rapid.IntRange(18, 22).Draw(t, "prekeys")
			for len(w.current(e.store)) < target {
				pw := drawPw("prepw")
				inuse := vTryOpenC29(e, w.curPw, w.hint)
				if !inuse.ok {
					fail("set-up: repository does not open with the current credentials %q hint %q: %v", w.curPw, w.hint, inuse.err)
				}
				w.hint = inuse.keyID // with more than 20 keys only the hinted key is guaranteed
				doAdd(pw, "var", false)
			}
		}

		nsteps := rapid.IntRange(3, 9).Draw(t, "nsteps")
		if many {
			nsteps = rapid.IntRange(3, 6).Draw(t, "nstepsMany")
		}
		changedInUse, over20, exactly20, emptyUsed, bothKeys := false, false, false, false, false
		for i := 0; i < nsteps; i++ {
			cur := w.current(e.store)
			inuse := vTryOpenC29(e, w.curPw, w.hint)
			if !inuse.ok {
				fail("step %d: repository does not open with the current credentials %q hint %q: %v", i, w.curPw, w.hint, inuse.err)
			}
			if many || len(cur) > vMaxKeysC29 {
				w.hint = inuse.keyID
			}
			ops := []string{"add", "add", "passwd", "passwd", "remove", "remove", "use"}
			if many {
				ops = []string{"add", "add", "add", "passwd", "remove", "remove", "use"}
			}
			op := rapid.SampledFrom(ops).Draw(t, "op")
			if op == "add" && ((!many && len(cur) >= vMaxKeysC29) || len(cur) >= 26) {
				op = "remove"
			}
			step := vStepC29{Op: op}
			switch op {
			case "add":
				step.Pw = drawPw("addpw")
				step.Via = rapid.SampledFrom([]string{"var", "file"}).Draw(t, "via")
				if step.Pw == "" {
					step.Via = "flag"
				}
				doAdd(step.Pw, step.Via, true)

			case "passwd":
				step.Pw = drawPw("newpw")
				step.Via = rapid.SampledFrom([]string{"var", "file"}).Draw(t, "via")
				if step.Pw == "" {
					step.Via = "flag"
				}
				opts, done := vNewPwOptsC29(e, step.Pw, step.Via)
				e.store.StartRecording(vbe.NoFaults())
				_, cerr := e.call(w.gopts(e), func(ctx context.Context, gopts global.Options) error {
					return runKeyPasswd(ctx, gopts, KeyPasswdOptions{KeyAddOptions: opts}, nil, gopts.Term)
				})
				log := e.store.StopRecording()
				done()
				if cerr != nil {
					fail("key passwd (new password %q, run with %q hint %q) failed: %v", step.Pw, w.curPw, w.hint, cerr)
				}
				added, removed := vDiffC29(cur, w.current(e.store))
				if len(added) != 1 || len(removed) != 1 {
					fail("key passwd changed the key files by +%v -%v", added, removed)
				}
				if removed[0] != inuse.keyID {
					fail("key passwd removed key %s, the key in use was %s", removed[0][:8], inuse.keyID[:8])
				}
				w.pwOf[added[0]] = step.Pw
				w.order = append(w.order, added[0])
				saves, removes := vKeyOpsC29(log)
				if len(saves) != 1 || len(removes) != 1 {
					fail("key passwd: key file operations saves=%v removes=%v", saves, removes)
				}
				for k := 0; k <= len(log); k++ {
					st.Evals(1)
					s := e.store.StateAt(k)
					ks := vSetOfC29(s.Keys(backend.KeyFile))
					if ks[added[0]] && ks[removed[0]] {
						bothKeys = true
					}
					if err := vCheckStateC29(w, e, s, fmt.Sprintf("key passwd %q->%q, crash after %d of %d backend operations (%s)", w.curPw, step.Pw, k, len(log), vOpAtC29(log, k))); err != nil {
						fail("%v\nops:\n%s", err, vOpsStringC29(log))
					}
				}
				if step.Pw != w.curPw {
					changedInUse = true
				}
				stillOld := false
				for _, k := range w.current(e.store) {
					if w.pwOf[k] == w.curPw && step.Pw != w.curPw {
						stillOld = true
					}
				}
				st.Class(fmt.Sprintf("passwd:old-pw-still-on-another-key=%v", stillOld))
				w.curPw = step.Pw
				if w.hint != "" {
					w.hint = added[0]
				}

			case "remove":
				var same, other []string
				for _, k := range cur {
					switch {
					case k == inuse.keyID:
					case w.pwOf[k] == w.curPw:
						same = append(same, k)
					default:
						other = append(other, k)
					}
				}
				kinds := []string{"in-use"}
				if len(same) > 0 {
					kinds = append(kinds, "other-same-pw", "other-same-pw")
				}
				if len(other) > 0 {
					kinds = append(kinds, "other", "other")
				}
				step.Target = rapid.SampledFrom(kinds).Draw(t, "rmkind")
				target := inuse.keyID
				switch step.Target {
				case "other-same-pw":
					target = same[rapid.IntRange(0, len(same)-1).Draw(t, "rmidx")]
				case "other":
					target = other[rapid.IntRange(0, len(other)-1).Draw(t, "rmidx")]
				}
				step.Pw = w.pwOf[target]
				arg := target
				if rapid.Bool().Draw(t, "rmprefix") {
					arg = target[:12]
				}
				e.store.StartRecording(vbe.NoFaults())
				_, cerr := e.call(w.gopts(e), func(ctx context.Context, gopts global.Options) error {
					return runKeyRemove(ctx, gopts, []string{arg}, gopts.Term)
				})
				log := e.store.StopRecording()
				added, removed := vDiffC29(cur, w.current(e.store))
				saves, removes := vKeyOpsC29(log)
				if step.Target == "in-use" {
					step.Refused = cerr != nil
					if cerr == nil || len(added) != 0 || len(removed) != 0 || len(saves)+len(removes) != 0 {
						fail("key remove %s of the key in use (password %q hint %q) was not refused: err=%v, key files +%v -%v, key ops saves=%v removes=%v",
							arg, w.curPw, w.hint, cerr, added, removed, saves, removes)
					}
					if !strings.Contains(cerr.Error(), "refusing to remove key currently used") {
						fail("key remove of the key in use failed with another error: %v", cerr)
					}
				} else {
					if cerr != nil {
						fail("key remove %s (password %q, not the key in use %s) failed: %v", arg, step.Pw, inuse.keyID[:8], cerr)
					}
					if len(added) != 0 || len(removed) != 1 || removed[0] != target {
						fail("key remove %s changed the key files by +%v -%v", arg, added, removed)
					}
				}
				for k := 0; k <= len(log); k++ {
					st.Evals(1)
					if err := vCheckStateC29(w, e, e.store.StateAt(k), fmt.Sprintf("key remove %s (%s), crash after %d of %d backend operations (%s)", arg[:8], step.Target, k, len(log), vOpAtC29(log, k))); err != nil {
						fail("%v\nops:\n%s", err, vOpsStringC29(log))
					}
				}

			case "use":
				// the next commands run with the credentials of another current key
				k := cur[rapid.IntRange(0, len(cur)-1).Draw(t, "usekey")]
				w.curPw = w.pwOf[k]
				step.Pw, step.Target = w.curPw, k[:8]
				w.hint = ""
				if many || len(cur) > vMaxKeysC29 || rapid.Bool().Draw(t, "usehint") {
					w.hint = k
				}
			}
			nk := len(w.current(e.store))
			step.Keys = nk
			hist = append(hist, step)
			over20 = over20 || nk > vMaxKeysC29
			exactly20 = exactly20 || nk == vMaxKeysC29
			emptyUsed = emptyUsed || (step.Pw == "" && (op == "add" || op == "passwd")) || w.curPw == ""
			cl := "op=" + op
			if op == "remove" {
				cl += ":" + step.Target
			}
			st.Class(cl)
			// the credentials in use keep working after every step
			st.Evals(1)
			if r := vTryOpenC29(e, w.curPw, w.hint); !r.ok {
				fail("after step %d the repository does not open with the credentials in use (%q hint %q): %v", i, w.curPw, w.hint, r.err)
			}
		}

		key := ""
		if changedInUse {
			key = fmt.Sprintf("v%s many=%v pool=%q %s", version, many, pool, vJSON(hist))
		}
		st.Case(key, fmt.Sprintf("many=%v", many), fmt.Sprintf("keys>20=%v", over20), fmt.Sprintf("keys=20:%v", exactly20),
			fmt.Sprintf("empty-password-used=%v", emptyUsed), fmt.Sprintf("passwd-changes-pw-in-use=%v", changedInUse),
			fmt.Sprintf("prefix-with-old-and-new-key=%v", bothKeys), fmt.Sprintf("npw=%d", npw), fmt.Sprintf("ambiguous-key-hint-tried=%v", w.ambiguousHints > 0))
		st.Evals(w.opens)
		if st.WantSample() {
			var ks []string
			ks = append(ks, vShortKeysC29(w.current(e.store), w)...)
			sort.Strings(ks)
			st.Sample(map[string]any{"version": version, "many": many, "pool": pool, "history": hist, "final_keys": ks, "open_attempts": w.opens})
		}
	})
}

func vOpAtC29(log []vbe.Op, k int) string {
	if k < len(log) {
		return "next: " + log[k].String()
	}
	return "complete"
}

func vOpsStringC29(log []vbe.Op) string {
	var sb strings.Builder
	for i, op := range log {
		fmt.Fprintf(&sb, "  %2d %s\n", i, op)
	}
	return sb.String()
}
