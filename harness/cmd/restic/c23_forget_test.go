package main

import (
	"context"
	"encoding/json"
	"fmt"
	"os"
	"sort"
	"strings"
	"testing"
	"time"

	"github.com/restic/restic/internal/backend"
	"github.com/restic/restic/internal/data"
	"github.com/restic/restic/internal/global"
	"github.com/restic/restic/internal/repository"
	"github.com/restic/restic/internal/restic"
	"github.com/restic/restic/internal/verifkit"
	"pgregory.net/rapid"
)

// vSnapC23 is the model of one generated snapshot file.
type vSnapC23 struct {
	ID    string    `json:"id"`
	Time  time.Time `json:"time"`
	Host  string    `json:"host"`
	Paths []string  `json:"paths"`
	Tags  []string  `json:"tags"`
}

// vCaseC23 is one generated invocation (also the sample / case key form).
type vCaseC23 struct {
	Snaps    []vSnapC23 `json:"snapshots"`
	Policy   string     `json:"policy"`
	GroupBy  string     `json:"group_by"`
	Unsafe   bool       `json:"unsafe"`
	DryRun   bool       `json:"dry_run"`
	Hosts    []string   `json:"f_hosts,omitempty"`
	FTags    [][]string `json:"f_tags,omitempty"`
	FPaths   []string   `json:"f_paths,omitempty"`
	Args     []string   `json:"args,omitempty"`
	ArgKinds []string   `json:"arg_kinds,omitempty"`
}

var (
	vHostsC23 = []string{"h1", "H1", "h2"} // two hosts that differ only in letter case: they are different hosts (and groups)
	vPathsC23 = [][]string{{"/data"}, {"/data", "/etc"}, {"/home"}}
	vTagsC23  = []string{"a", "b", "c"}
)

func (s *vSnapC23) hasTags(l []string) bool {
	for _, tg := range l {
		if tg == "" && len(s.Tags) == 0 {
			continue
		}
		if !vSetOfC23(s.Tags)[tg] {
			return false
		}
	}
	return true
}

func (s *vSnapC23) hasTagList(ls [][]string) bool {
	if len(ls) == 0 {
		return true
	}
	for _, l := range ls {
		if s.hasTags(l) {
			return true
		}
	}
	return false
}

// matches is the documented filter: host in list (OR), any tag list fully contained, all paths contained.
func (c *vCaseC23) matches(s *vSnapC23) bool {
	if len(c.Hosts) > 0 && !vSetOfC23(c.Hosts)[s.Host] {
		return false
	}
	if !s.hasTagList(c.FTags) {
		return false
	}
	for _, p := range c.FPaths {
		if !vSetOfC23(s.Paths)[p] {
			return false
		}
	}
	return true
}

func (c *vCaseC23) filterEmpty() bool { return len(c.Hosts)+len(c.FTags)+len(c.FPaths) == 0 }

// groupKey is the --group-by key of a snapshot: host, path list, sorted tag list.
func vGroupKeyC23(s *vSnapC23, g data.SnapshotGroupByOptions) string {
	var parts []string
	if g.Host {
		parts = append(parts, "host="+s.Host)
	}
	if g.Path {
		ps := append([]string(nil), s.Paths...)
		sort.Strings(ps)
		parts = append(parts, "paths="+strings.Join(ps, "\x00"))
	}
	if g.Tag {
		ts := append([]string(nil), s.Tags...)
		sort.Strings(ts)
		parts = append(parts, "tags="+strings.Join(ts, "\x00"))
	}
	return strings.Join(parts, "|")
}

func vToTagListsC23(ls [][]string) data.TagLists {
	var out data.TagLists
	for _, l := range ls {
		out = append(out, data.TagList(l))
	}
	return out
}

func vGenTagListsC23(t *rapid.T, label string, pool []string, maxLists int) [][]string {
	n := rapid.IntRange(1, maxLists).Draw(t, label+"n")
	var out [][]string
	for i := 0; i < n; i++ {
		m := rapid.IntRange(1, 2).Draw(t, label+"len")
		var l []string
		for j := 0; j < m; j++ {
			l = append(l, rapid.SampledFrom(pool).Draw(t, label))
		}
		out = append(out, l)
	}
	return out
}

func vSortedKeysC23(m map[string]bool) []string {
	out := make([]string, 0, len(m))
	for k, v := range m {
		if v {
			out = append(out, k)
		}
	}
	sort.Strings(out)
	return out
}

func vShortC23(ids []string) []string {
	out := make([]string, len(ids))
	for i, id := range ids {
		out[i] = id[:8]
	}
	return out
}

func TestVerifC23Forget(t *testing.T) {
	vSetup(t)
	st := verifkit.Begin(t, "C23")

	// one tiny real backup gives a valid tree to hang the generated snapshot files on
	base, err := vNewEnv(true)
	if err != nil {
		t.Fatal(err)
	}
	defer base.Close()
	if err := base.Init("2"); err != nil {
		t.Fatal(err)
	}
	src := base.Scratch("src-")
	if err := os.WriteFile(src+"/f", []byte("hello"), 0o644); err != nil {
		t.Fatal(err)
	}
	if err := base.Backup([]string{src}, BackupOptions{}); err != nil {
		t.Fatal(err)
	}
	sns, err := base.Snapshots()
	if err != nil || len(sns) != 1 {
		t.Fatalf("setup: %v %v", sns, err)
	}
	tree := *sns[0].Tree
	base.store.Del(backend.SnapshotFile, sns[0].ID().String())
	baseStore := base.store

	// all timestamps lie in 2019-2023: far from the wall clock that findLatestTimestamp consults
	t0 := time.Date(2019, 12, 30, 22, 0, 0, 0, time.UTC)
	offsets := []time.Duration{0, 20 * time.Minute, 50 * time.Minute, 3 * time.Hour, 26 * time.Hour, 49 * time.Hour,
		8 * 24 * time.Hour, 40 * 24 * time.Hour, 200 * 24 * time.Hour, 400 * 24 * time.Hour, 800 * 24 * time.Hour}

	rapid.Check(t, func(t *rapid.T) {
		e := base.OnStore(baseStore.Clone())
		defer e.Release()
		c := &vCaseC23{}

		// ---- the repository: snapshot files over hosts x paths x tags
		n := rapid.IntRange(2, 12).Draw(t, "snapshots")
		nh := rapid.IntRange(1, 3).Draw(t, "nhosts")
		np := rapid.IntRange(1, 3).Draw(t, "npaths")
		err := e.WithRepoRW(func(ctx context.Context, repo *repository.Repository) error {
			for i := 0; i < n; i++ {
				s := vSnapC23{
					Time:  t0.Add(rapid.SampledFrom(offsets).Draw(t, "toff") + time.Duration(i)*time.Second),
					Host:  rapid.SampledFrom(vHostsC23[:nh]).Draw(t, "host"),
					Paths: rapid.SampledFrom(vPathsC23[:np]).Draw(t, "paths"),
				}
				for j, k := 0, rapid.SampledFrom([]int{0, 0, 1, 1, 1, 2}).Draw(t, "ntags"); j < k; j++ {
					s.Tags = append(s.Tags, rapid.SampledFrom(vTagsC23).Draw(t, "tag"))
				}
				sn := &data.Snapshot{Time: s.Time, Tree: &tree, Paths: append([]string(nil), s.Paths...), Hostname: s.Host,
					Username: "u", Tags: append([]string(nil), s.Tags...)}
				id, err := data.SaveSnapshot(ctx, repo, sn)
				if err != nil {
					return err
				}
				s.ID = id.String()
				c.Snaps = append(c.Snaps, s)
			}
			return nil
		})
		if err != nil {
			t.Fatalf("creating snapshots: %v", err)
		}
		byID := map[string]*vSnapC23{}
		for i := range c.Snaps {
			byID[c.Snaps[i].ID] = &c.Snaps[i]
		}
		before := e.store.Keys(backend.SnapshotFile)
		if len(before) != len(byID) {
			t.Fatalf("setup: %d snapshot files for %d generated snapshots", len(before), len(byID))
		}

		// ---- the policy
		var opts ForgetOptions
		pkind := rapid.SampledFrom([]string{"empty", "tagonly", "tagonly", "tagonly", "counts", "counts", "within", "mixed"}).Draw(t, "pkind")
		counts := func() {
			cnt := rapid.SampledFrom([]int{0, 0, 1, 1, 2, 3, -1})
			opts.Last = ForgetPolicyCount(cnt.Draw(t, "last"))
			opts.Hourly = ForgetPolicyCount(rapid.SampledFrom([]int{0, 0, 0, 1, 2, -1}).Draw(t, "hourly"))
			opts.Daily = ForgetPolicyCount(rapid.SampledFrom([]int{0, 0, 0, 1, 2, -1}).Draw(t, "daily"))
			opts.Weekly = ForgetPolicyCount(rapid.SampledFrom([]int{0, 0, 0, 1}).Draw(t, "weekly"))
			opts.Monthly = ForgetPolicyCount(rapid.SampledFrom([]int{0, 0, 0, 1, 2}).Draw(t, "monthly"))
			opts.Yearly = ForgetPolicyCount(rapid.SampledFrom([]int{0, 0, 0, 1, 2}).Draw(t, "yearly"))
		}
		var keepTags [][]string
		switch pkind {
		case "tagonly":
			keepTags = vGenTagListsC23(t, "keeptag", []string{"a", "b", "c", "zz", ""}, 2)
		case "counts":
			counts()
		case "within":
			dur := func(l string) data.Duration {
				switch rapid.IntRange(0, 3).Draw(t, l) {
				case 1:
					return data.Duration{Hours: rapid.IntRange(1, 30).Draw(t, l+"h")}
				case 2:
					return data.Duration{Days: rapid.IntRange(1, 60).Draw(t, l+"d")}
				case 3:
					return data.Duration{Years: 1, Months: rapid.IntRange(0, 3).Draw(t, l+"m")}
				}
				return data.Duration{}
			}
			opts.Within = dur("within")
			opts.WithinHourly = dur("withinH")
			opts.WithinDaily = dur("withinD")
			opts.WithinMonthly = dur("withinM")
		case "mixed":
			keepTags = vGenTagListsC23(t, "keeptag", []string{"a", "b", "zz"}, 1)
			counts()
		}
		opts.KeepTags = vToTagListsC23(keepTags)
		countsZero := opts.Last == 0 && opts.Hourly == 0 && opts.Daily == 0 && opts.Weekly == 0 && opts.Monthly == 0 && opts.Yearly == 0
		withinZero := opts.Within.Zero() && opts.WithinHourly.Zero() && opts.WithinDaily.Zero() && opts.WithinWeekly.Zero() &&
			opts.WithinMonthly.Zero() && opts.WithinYearly.Zero()
		policyEmpty := countsZero && withinZero && len(keepTags) == 0

		// ---- grouping, flags, filter
		opts.GroupBy = data.SnapshotGroupByOptions{Host: rapid.IntRange(0, 2).Draw(t, "gHost") > 0, Path: rapid.Bool().Draw(t, "gPath"), Tag: rapid.Bool().Draw(t, "gTag")}
		c.GroupBy = opts.GroupBy.String()
		opts.UnsafeAllowRemoveAll = rapid.IntRange(0, 2).Draw(t, "unsafe") == 0
		opts.DryRun = rapid.IntRange(0, 3).Draw(t, "dryrun") == 0
		opts.Compact = rapid.Bool().Draw(t, "compact")
		c.Unsafe, c.DryRun = opts.UnsafeAllowRemoveAll, opts.DryRun
		idMode := rapid.IntRange(0, 3).Draw(t, "idmode") == 0
		fkind := rapid.SampledFrom([]string{"none", "none", "host", "tag", "path", "host+tag"}).Draw(t, "fkind")
		if idMode && rapid.IntRange(0, 3).Draw(t, "idfilter") != 0 {
			fkind = "none" // a filter next to explicit IDs is an error unless `latest` is among them
		}
		if strings.Contains(fkind, "host") {
			c.Hosts = rapid.SliceOfNDistinct(rapid.SampledFrom(vHostsC23), 1, 2, rapid.ID[string]).Draw(t, "fhosts")
		}
		if strings.Contains(fkind, "tag") {
			c.FTags = vGenTagListsC23(t, "ftag", []string{"a", "a", "b", "c", ""}, 2)
			if rapid.Bool().Draw(t, "ftagshort") {
				c.FTags = [][]string{c.FTags[0][:1]}
			}
		}
		if fkind == "path" {
			c.FPaths = []string{rapid.SampledFrom([]string{"/data", "/etc", "/home"}).Draw(t, "fpath")}
		}
		opts.SnapshotFilter = data.SnapshotFilter{Hosts: c.Hosts, Tags: vToTagListsC23(c.FTags), Paths: c.FPaths}
		c.Policy = fmt.Sprintf("%s last=%d hourly=%d daily=%d weekly=%d monthly=%d yearly=%d within=%v/%v/%v/%v keep-tag=%q",
			pkind, opts.Last, opts.Hourly, opts.Daily, opts.Weekly, opts.Monthly, opts.Yearly, opts.Within, opts.WithinHourly, opts.WithinDaily, opts.WithinMonthly, keepTags)

		// ---- explicit snapshot IDs (prefixes, duplicates, an unknown one, `latest`)
		named := map[string]bool{}
		unknownArg, usesLatest := false, false
		if idMode {
			k := rapid.IntRange(1, min(4, len(before))).Draw(t, "nids")
			perm := rapid.Permutation(before).Draw(t, "idperm")
			for _, id := range perm[:k] {
				c.Args = append(c.Args, id[:rapid.SampledFrom([]int{8, 12, 33, 64}).Draw(t, "idlen")])
				c.ArgKinds = append(c.ArgKinds, "id")
				named[id] = true
			}
			extra := rapid.IntRange(0, 7).Draw(t, "idextra")
			if !c.filterEmpty() && extra >= 4 {
				extra = 2
			}
			switch extra {
			case 0: // the same snapshot twice (full ID and a prefix)
				c.Args = append(c.Args, perm[0])
				c.ArgKinds = append(c.ArgKinds, "dup")
			case 1: // an ID that does not exist
				c.Args = append(c.Args, restic.Hash([]byte("no such snapshot")).String()[:rapid.SampledFrom([]int{10, 64}).Draw(t, "unklen")])
				c.ArgKinds = append(c.ArgKinds, "unknown")
				unknownArg = true
			case 2: // `latest` resolves through the filter
				c.Args = append(c.Args, "latest")
				c.ArgKinds = append(c.ArgKinds, "latest")
				usesLatest = true
			}
		}
		var latestID string // the newest snapshot matching the filter (times are distinct)
		for i := range c.Snaps {
			s := &c.Snaps[i]
			if c.matches(s) && (latestID == "" || s.Time.After(byID[latestID].Time)) {
				latestID = s.ID
			}
		}

		// ---- model: matched snapshots, groups, which groups the policy would empty
		matched := map[string]bool{}
		groups := map[string][]string{}
		for i := range c.Snaps {
			s := &c.Snaps[i]
			if c.matches(s) {
				matched[s.ID] = true
				k := vGroupKeyC23(s, opts.GroupBy)
				groups[k] = append(groups[k], s.ID)
			}
		}
		// Only --keep-tag can keep nothing in a non-empty group: every count rule keeps the newest
		// snapshot and every --keep-within* rule keeps the newest one not in the future.
		wouldEmpty := 0
		for _, ids := range groups {
			kept := !(countsZero && withinZero)
			for _, id := range ids {
				if len(keepTags) > 0 && byID[id].hasTagList(keepTags) {
					kept = true
				}
			}
			if !kept {
				wouldEmpty++
			}
		}

		// ---- run
		g := e.gopts
		g.JSON = true
		out, rerr := e.call(g, func(ctx context.Context, gopts global.Options) error {
			return runForget(ctx, opts, PruneOptions{MaxUnused: "5%"}, gopts, gopts.Term, c.Args)
		})
		after := vSetOfC23(e.store.Keys(backend.SnapshotFile))
		deleted := map[string]bool{}
		for _, id := range before {
			if !after[id] {
				deleted[id] = true
			}
		}
		for id := range after {
			if byID[id] == nil {
				t.Fatalf("forget created snapshot file %s", id)
			}
		}

		// parse the report
		var report []struct {
			Tags   []string `json:"tags"`
			Host   string   `json:"host"`
			Paths  []string `json:"paths"`
			Keep   []struct{ ID string `json:"id"` } `json:"keep"`
			Remove []struct{ ID string `json:"id"` } `json:"remove"`
			Reasons []struct {
				Snapshot struct{ ID string `json:"id"` } `json:"snapshot"`
				Matches  []string `json:"matches"`
			} `json:"reasons"`
		}
		if s := strings.TrimSpace(out.Stdout); s != "" {
			if err := json.Unmarshal([]byte(s), &report); err != nil {
				t.Fatalf("forget --json output does not parse: %v\n%s", err, s)
			}
		}
		repRemove, repKeep := map[string]bool{}, map[string]bool{}
		for _, fg := range report {
			for _, r := range fg.Remove {
				if repRemove[r.ID] || repKeep[r.ID] {
					t.Fatalf("snapshot %s reported twice", r.ID[:8])
				}
				repRemove[r.ID] = true
			}
			for _, k := range fg.Keep {
				if repRemove[k.ID] || repKeep[k.ID] {
					t.Fatalf("snapshot %s reported twice", k.ID[:8])
				}
				repKeep[k.ID] = true
			}
		}

		// ---- classes
		outcome := "removed-none"
		switch {
		case rerr != nil:
			outcome = "error"
		case len(deleted) > 0:
			outcome = "removed-some"
		case opts.DryRun && (len(repRemove) > 0 || (idMode && len(named) > 0)):
			outcome = "dryrun-would-remove"
		}
		mode := "policy"
		if idMode {
			mode = "ids"
		}
		ng := len(groups)
		key := ""
		if !idMode && !policyEmpty && ng >= 2 && wouldEmpty >= 1 && wouldEmpty < ng {
			key = vJSON(c)
		}
		classes := []string{"mode=" + mode, "outcome=" + outcome, fmt.Sprintf("dryrun=%v", opts.DryRun)}
		if idMode {
			classes = append(classes, fmt.Sprintf("ids:unknown=%v", unknownArg), fmt.Sprintf("ids:latest=%v", usesLatest), fmt.Sprintf("ids:filter=%v", !c.filterEmpty()))
		} else {
			classes = append(classes, "policy="+pkind, fmt.Sprintf("policy-empty=%v", policyEmpty), "group-by="+c.GroupBy, "filter="+fkind,
				fmt.Sprintf("unsafe=%v", opts.UnsafeAllowRemoveAll), fmt.Sprintf("groups=%d", min(ng, 4)),
				fmt.Sprintf("would-empty=%v", !policyEmpty && wouldEmpty > 0))
			if policyEmpty && opts.UnsafeAllowRemoveAll {
				classes = append(classes, fmt.Sprintf("remove-all:filter=%v", !c.filterEmpty()))
			}
			if !policyEmpty && opts.UnsafeAllowRemoveAll && wouldEmpty > 0 {
				classes = append(classes, "would-empty+unsafe")
			}
		}
		st.Case(key, classes...)
		if st.WantSample() {
			st.Sample(map[string]any{"case": c, "error": fmt.Sprint(rerr), "deleted": vShortC23(vSortedKeysC23(deleted)),
				"reported_remove": vShortC23(vSortedKeysC23(repRemove)), "groups": ng, "would_empty": wouldEmpty})
		}
		fail := func(format string, a ...any) {
			t.Fatalf("%s\ncase: %s\nerror: %v\ndeleted: %v\nreport: %s", fmt.Sprintf(format, a...), vJSON(c), rerr,
				vShortC23(vSortedKeysC23(deleted)), strings.TrimSpace(out.Stdout))
		}

		// ---- oracle, all modes
		if opts.DryRun && len(deleted) > 0 {
			fail("--dry-run deleted %d snapshot files", len(deleted))
		}
		if rerr != nil && len(deleted) > 0 {
			fail("forget failed but deleted %d snapshot files", len(deleted))
		}
		for id := range deleted {
			if !idMode && !matched[id] {
				fail("snapshot %s does not match the filter but was deleted", id[:8])
			}
		}

		if idMode {
			// only the named snapshots; the policy, the grouping and the guard do not apply
			want := map[string]bool{}
			for id := range named {
				want[id] = true
			}
			expectErr := unknownArg || (!c.filterEmpty() && !usesLatest) || (usesLatest && latestID == "")
			if usesLatest && latestID != "" {
				want[latestID] = true
			}
			for id := range deleted {
				if !want[id] {
					fail("snapshot %s deleted although it was not named (named: %v)", id[:8], vShortC23(vSortedKeysC23(want)))
				}
			}
			if expectErr != (rerr != nil) {
				fail("ID mode: error expected = %v", expectErr)
			}
			if rerr == nil && !opts.DryRun {
				for id := range want {
					if !deleted[id] {
						fail("named snapshot %s was not deleted", id[:8])
					}
				}
			}
			return
		}

		// ---- oracle, policy mode
		if rerr == nil {
			// deleted files == reported `remove` entries
			if !opts.DryRun {
				for id := range repRemove {
					if !deleted[id] {
						fail("snapshot %s reported as removed but its file still exists", id[:8])
					}
				}
			}
			for id := range deleted {
				if !repRemove[id] {
					fail("snapshot %s deleted but not reported as removed", id[:8])
				}
			}
			// the report covers exactly the snapshots matching the filter, grouped per --group-by
			for id := range matched {
				if !repKeep[id] && !repRemove[id] {
					fail("matching snapshot %s appears neither in keep nor in remove", id[:8])
				}
			}
			for id := range repKeep {
				if !matched[id] {
					fail("snapshot %s reported (keep) but does not match the filter", id[:8])
				}
			}
			for id := range repRemove {
				if !matched[id] {
					fail("snapshot %s reported (remove) but does not match the filter", id[:8])
				}
			}
			wantParts := map[string]bool{}
			for _, ids := range groups {
				sort.Strings(ids)
				wantParts[strings.Join(ids, ",")] = true
			}
			for _, fg := range report {
				var ids []string
				for _, k := range fg.Keep {
					ids = append(ids, k.ID)
				}
				for _, r := range fg.Remove {
					ids = append(ids, r.ID)
				}
				sort.Strings(ids)
				if !wantParts[strings.Join(ids, ",")] {
					fail("reported group host=%q paths=%q tags=%q {%v} is not a --group-by %q group of the matching snapshots", fg.Host, fg.Paths, fg.Tags, vShortC23(ids), c.GroupBy)
				}
				if len(fg.Reasons) != len(fg.Keep) {
					fail("group reports %d keep entries but %d reasons", len(fg.Keep), len(fg.Reasons))
				}
			}
			if len(report) != len(groups) {
				fail("%d groups reported, %d groups exist", len(report), len(groups))
			}
		}

		if policyEmpty {
			// an empty policy removes nothing unless --unsafe-allow-remove-all is combined with a filter
			allowed := opts.UnsafeAllowRemoveAll && !c.filterEmpty()
			if !allowed {
				if len(deleted) > 0 {
					fail("empty policy (unsafe=%v, filter empty=%v) deleted snapshots", opts.UnsafeAllowRemoveAll, c.filterEmpty())
				}
				if rerr == nil {
					fail("empty policy (unsafe=%v, filter empty=%v) was accepted", opts.UnsafeAllowRemoveAll, c.filterEmpty())
				}
				return
			}
			if rerr != nil {
				fail("--unsafe-allow-remove-all with a filter failed")
			}
			for id := range matched {
				if !repRemove[id] {
					fail("remove-all: matching snapshot %s not reported as removed", id[:8])
				}
			}
			return
		}

		// non-empty policy: never a group without a survivor
		for k, ids := range groups {
			alive := 0
			for _, id := range ids {
				if after[id] {
					alive++
				}
			}
			if alive == 0 {
				fail("every snapshot of group %q %v was removed by a non-empty policy", k, vShortC23(ids))
			}
			if rerr == nil {
				kept := 0
				for _, id := range ids {
					if repKeep[id] {
						kept++
					}
				}
				if kept == 0 {
					fail("group %q %v: nothing reported as kept", k, vShortC23(ids))
				}
			}
		}
		// the command refuses as a whole exactly when some group would be emptied
		if (wouldEmpty > 0) != (rerr != nil) {
			fail("non-empty policy, %d of %d groups would be emptied: error expected = %v", wouldEmpty, ng, wouldEmpty > 0)
		}
		if rerr != nil && !strings.Contains(rerr.Error(), "refusing to delete last snapshot") {
			fail("unexpected kind of error")
		}
	})
}

func vSetOfC23(l []string) map[string]bool {
	m := map[string]bool{}
	for _, x := range l {
		m[x] = true
	}
	return m
}
