package main

import (
	"context"
	"fmt"
	"net/http"
	"os"
	"path/filepath"
	"regexp"
	"strings"
	"sync"
	"testing"

	"io"

	"github.com/restic/restic/internal/backend"
	"github.com/restic/restic/internal/backend/location"
	"github.com/restic/restic/internal/global"
	"github.com/restic/restic/internal/repository"
	"github.com/restic/restic/internal/repository/index"
	"github.com/restic/restic/internal/restic"
	"github.com/restic/restic/internal/verifkit"
	"github.com/restic/restic/internal/verifkit/vbe"
	"pgregory.net/rapid"
)

// ---------------------------------------------------------------------------
// The VIEW: what one reader process sees of a repository that concurrent writers
// are appending to. Before every reading backend operation of the reader the next
// drawn number of pending writer operations becomes visible.

type vViewC14 struct {
	*vbe.Store // the reader's view of the repository (a clone of the base state)

	mu      sync.Mutex
	pending []vbe.Op
	cursor  int
	steps   []int // drawn advance amounts, used cyclically
	jumpRead, jumpBy int // additionally: at read number jumpRead (>=0) jumpBy more operations become visible
	nReads  int
	active  bool

	// observations
	startCursor              int
	crossedIndex, crossedSnp int
	snapListCursor           int // cursor when the reader first listed snapshots (-1: never)
	indexListCursor          int // cursor when the reader first listed index files (-1: never)
	firstListRead            int // number of the read that was the first snapshot or index listing (-1: never)
}

func (v *vViewC14) advance(listed backend.FileType, isList bool) {
	v.mu.Lock()
	defer v.mu.Unlock()
	if !v.active {
		return
	}
	n := v.steps[v.nReads%len(v.steps)]
	if v.nReads == v.jumpRead {
		n += v.jumpBy
	}
	if isList && (listed == backend.SnapshotFile || listed == backend.IndexFile) && v.firstListRead < 0 {
		v.firstListRead = v.nReads
	}
	v.nReads++
	for i := 0; i < n && v.cursor < len(v.pending); i++ {
		op := v.pending[v.cursor]
		v.Store.Apply([]vbe.Op{op})
		v.cursor++
		if !op.Remove && op.Key.Type == backend.IndexFile {
			v.crossedIndex++
		}
		if !op.Remove && op.Key.Type == backend.SnapshotFile {
			v.crossedSnp++
		}
	}
	if isList && listed == backend.SnapshotFile && v.snapListCursor < 0 {
		v.snapListCursor = v.cursor
	}
	if isList && listed == backend.IndexFile && v.indexListCursor < 0 {
		v.indexListCursor = v.cursor
	}
}

func (v *vViewC14) List(ctx context.Context, t backend.FileType, fn func(backend.FileInfo) error) error {
	v.advance(t, true)
	return v.Store.List(ctx, t, fn)
}

func (v *vViewC14) Load(ctx context.Context, h backend.Handle, length int, offset int64, fn func(rd io.Reader) error) error {
	v.advance(h.Type, false)
	return v.Store.Load(ctx, h, length, offset, fn)
}

func (v *vViewC14) Stat(ctx context.Context, h backend.Handle) (backend.FileInfo, error) {
	v.advance(h.Type, false)
	return v.Store.Stat(ctx, h)
}

var (
	vViewMuC14  sync.Mutex
	vViewsC14   = map[string]*vViewC14{}
	vViewSeqC14 int
)

func vRegisterViewC14(v *vViewC14) string {
	vViewMuC14.Lock()
	defer vViewMuC14.Unlock()
	vViewSeqC14++
	name := fmt.Sprintf("view%d", vViewSeqC14)
	vViewsC14[name] = v
	return "vview:" + name
}

func vUnregisterViewC14(loc string) {
	vViewMuC14.Lock()
	defer vViewMuC14.Unlock()
	delete(vViewsC14, strings.TrimPrefix(loc, "vview:"))
}

type vViewCfgC14 struct{ Name string }

// vViewFactoryC14 is the location.Factory of scheme "vview".
func vViewFactoryC14() location.Factory {
	open := func(_ context.Context, cfg vViewCfgC14, _ http.RoundTripper, _ func(string, ...any)) (backend.Backend, error) {
		vViewMuC14.Lock()
		defer vViewMuC14.Unlock()
		v := vViewsC14[cfg.Name]
		if v == nil {
			return nil, backend.ErrNoRepository
		}
		return v, nil
	}
	return location.NewHTTPBackendFactory[vViewCfgC14, backend.Backend](
		"vview",
		func(s string) (*vViewCfgC14, error) { return &vViewCfgC14{Name: strings.TrimPrefix(s, "vview:")}, nil },
		location.NoPassword, open, open)
}

// ---------------------------------------------------------------------------

// vSnapC14 is one snapshot a reader may come across: where it was taken from and its model.
type vSnapC14 struct {
	Src   string
	Model vTree
}

// vWriterC14 is one recorded writer.
type vWriterC14 struct {
	Kind string // backup | backup2 | copy
	Log  []vbe.Op
}

type vCaseC14 struct {
	Version  string   `json:"version"`
	FullAt   int      `json:"full_at"`
	Writers  []string `json:"writers"`
	LogLens  []int    `json:"log_lens"`
	Merge    []int    `json:"merge"` // writer index of every merged operation
	Reader   string   `json:"reader,omitempty"`
	Start    int      `json:"start,omitempty"`
	Steps    []int    `json:"steps,omitempty"`
	Round    string   `json:"schedule,omitempty"`
	JumpRead int      `json:"jump_read,omitempty"`
	JumpBy   int      `json:"jump_by,omitempty"`
	BaseSnap string   `json:"base_snapshot"`
}

var vBadOutputC14 = regexp.MustCompile(`(?i)not found|unable to load|does not exist|missing|cannot load|failed`)

func TestVerifC14ReadersVsWriters(t *testing.T) {
	vSetup(t)
	st := verifkit.Begin(t, "C14")
	origFull := index.Full
	defer func() { index.Full = origFull }()

	rapid.Check(t, func(t *rapid.T) {
		index.Full = origFull
		defer func() { index.Full = origFull }()

		c := vCaseC14{Version: rapid.SampledFrom([]string{"1", "2", "2"}).Draw(t, "version")}
		e, err := vNewEnv(true)
		if err != nil {
			t.Fatal(err)
		}
		defer e.Close()
		e.gopts.Backends.Register(vViewFactoryC14())
		e.gopts.PackSize = 4
		e.gopts.Compression = rapid.SampledFrom([]repository.CompressionMode{repository.CompressionAuto, repository.CompressionOff}).Draw(t, "compression")
		if err := e.Init(c.Version); err != nil {
			t.Fatal(err)
		}
		dec, err := vNewDecoderC11(e)
		if err != nil {
			t.Fatal(err)
		}
		// small "index is full" threshold: writers save intermediate index files
		if rapid.IntRange(0, 3).Draw(t, "fullOverride") > 0 {
			c.FullAt = rapid.IntRange(1, 4).Draw(t, "fullAt")
			n := c.FullAt
			index.Full = func(idx *index.Index) bool {
				return int(idx.Len(restic.DataBlob)+idx.Len(restic.TreeBlob)) >= n
			}
		}

		snaps := []vSnapC14{}
		newSrc := func(tr vTree) string {
			d := e.Scratch("src-")
			if err := tr.Materialize(d); err != nil {
				t.Fatal(err)
			}
			snaps = append(snaps, vSnapC14{Src: d, Model: tr})
			return d
		}
		gen := func() vTree { return vGenTree(t, vTreeGen{MaxEntries: 8, Symlinks: true, ContentPool: 10}) }

		// base repository with one snapshot
		if err := e.Backup([]string{newSrc(gen())}, BackupOptions{}); err != nil {
			t.Fatalf("base backup: %v", err)
		}
		baseIDs := e.store.Keys(backend.SnapshotFile)
		if len(baseIDs) != 1 {
			t.Fatalf("base snapshots: %v", baseIDs)
		}
		c.BaseSnap = baseIDs[0]
		base := e.store.Files()

		// writers: each one runs on its own copy of the base state, recorded. None of them removes or
		// rewrites anything but its own lock, so every order-preserving merge of the logs is an execution
		// of concurrent writers that did not see each other's uploads.
		nw := rapid.IntRange(1, 2).Draw(t, "writers")
		var writers []vWriterC14
		for w := 0; w < nw; w++ {
			kind := rapid.SampledFrom([]string{"backup", "backup", "backup2", "copy"}).Draw(t, "writerKind")
			ws := e.store.Clone()
			we := e.OnStore(ws)
			switch kind {
			case "backup", "backup2":
				d1 := newSrc(gen())
				var d2 string
				if kind == "backup2" {
					d2 = newSrc(gen())
				}
				ws.StartRecording(vbe.NoFaults())
				err = we.Backup([]string{d1}, BackupOptions{})
				if err == nil && kind == "backup2" {
					err = we.Backup([]string{d2}, BackupOptions{})
				}
			case "copy":
				e2, err2 := vNewEnv(true)
				if err2 != nil {
					t.Fatal(err2)
				}
				e2.gopts.PackSize = 4
				e2.gopts.Compression = e.gopts.Compression
				if err := e2.Init(c.Version); err != nil {
					t.Fatal(err)
				}
				if err := e2.Backup([]string{newSrc(gen())}, BackupOptions{}); err != nil {
					t.Fatalf("backup into the copy source: %v", err)
				}
				ws.StartRecording(vbe.NoFaults())
				_, err = we.call(we.gopts, func(ctx context.Context, gopts global.Options) error {
					return runCopy(ctx, CopyOptions{SecondaryRepoOptions: global.SecondaryRepoOptions{Repo: e2.gopts.Repo, Password: vPassword}}, gopts, nil, gopts.Term)
				})
				e2.Close()
			}
			log := ws.StopRecording()
			we.Release()
			if err != nil {
				t.Fatalf("writer %d (%s) failed: %v", w, kind, err)
			}
			// writer-side ordering invariant (packs -> index -> snapshot), per writer
			if _, terr := vCheckTraceC11(dec, base, log, true); terr != nil {
				t.Fatalf("writer %d (%s): ordering invariant violated: %v\nops:\n%s", w, kind, terr, vOpsStringC11(log))
			}
			writers = append(writers, vWriterC14{Kind: kind, Log: log})
			c.Writers = append(c.Writers, kind)
			c.LogLens = append(c.LogLens, len(log))
		}

		// drawn interleaving that respects each writer's own order
		var merged []vbe.Op
		pos := make([]int, nw)
		for {
			var avail []int
			for w := range writers {
				if pos[w] < len(writers[w].Log) {
					avail = append(avail, w)
				}
			}
			if len(avail) == 0 {
				break
			}
			w := avail[0]
			if len(avail) > 1 {
				w = avail[rapid.IntRange(0, len(avail)-1).Draw(t, "mergePick")]
			}
			merged = append(merged, writers[w].Log[pos[w]])
			pos[w]++
			c.Merge = append(c.Merge, w)
		}
		if _, terr := vCheckTraceC11(dec, base, merged, true); terr != nil {
			t.Fatalf("merged trace: ordering invariant violated: %v\nops:\n%s", terr, vOpsStringC11(merged))
		}

		// positions at which a reader is aimed: for every snapshot save, the last index save of the same writer before it
		type vAimC14 struct{ idx, snap int }
		var aims []vAimC14
		for p, op := range merged {
			if op.Remove || op.Key.Type != backend.SnapshotFile {
				continue
			}
			for q := p - 1; q >= 0; q-- {
				if c.Merge[q] == c.Merge[p] && !merged[q].Remove && merged[q].Key.Type == backend.IndexFile {
					aims = append(aims, vAimC14{q, p})
					break
				}
			}
		}

		// runOne executes one reader on its own view and applies the oracle; it returns the number of the
		// backend read with which the reader first listed snapshots or index files
		runOne := func(rc vCaseC14) int {
			rd := rc.Reader
			view := &vViewC14{Store: e.store.Clone(), pending: merged, steps: rc.Steps, jumpRead: rc.JumpRead, jumpBy: rc.JumpBy,
				snapListCursor: -1, indexListCursor: -1, firstListRead: -1}
			view.Store.Apply(merged[:rc.Start])
			view.cursor, view.startCursor = rc.Start, rc.Start
			re := *e
			re.gopts.Repo = vRegisterViewC14(view)
			re.gopts.NoLock = true
			re.gopts.Quiet = false
			view.active = true
			out, rerr, detail := vRunReaderC14(&re, rd, c.BaseSnap, snaps)
			view.mu.Lock()
			view.active = false
			view.mu.Unlock()
			vUnregisterViewC14(re.gopts.Repo)

			// classes
			nt := view.crossedIndex >= 1 && view.crossedSnp >= 1
			newSnapAtListing := false // a writer snapshot that was not visible at start was visible when snapshots were listed
			if view.snapListCursor >= 0 {
				for _, op := range merged[view.startCursor:view.snapListCursor] {
					if !op.Remove && op.Key.Type == backend.SnapshotFile {
						newSnapAtListing = true
					}
				}
			}
			// the window between the reader's snapshot listing and its index listing saw an index file AND
			// a snapshot file appear: the schedule in which a reader listing in the wrong order fails
			window := "none"
			if view.snapListCursor >= 0 && view.indexListCursor >= 0 {
				lo, hi := min(view.snapListCursor, view.indexListCursor), max(view.snapListCursor, view.indexListCursor)
				wi, ws := false, false
				for _, op := range merged[lo:hi] {
					wi = wi || (!op.Remove && op.Key.Type == backend.IndexFile)
					ws = ws || (!op.Remove && op.Key.Type == backend.SnapshotFile)
				}
				window = fmt.Sprintf("index=%v,snapshot=%v", wi, ws)
			}
			key := ""
			if nt {
				key = vJSON(rc) + fmt.Sprint(view.nReads)
			}
			st.Case(key, "reader="+rd, "schedule="+rc.Round, fmt.Sprintf("crossed_index=%v", view.crossedIndex > 0), fmt.Sprintf("crossed_snapshot=%v", view.crossedSnp > 0),
				fmt.Sprintf("snapshot_appeared_before_listing=%v", newSnapAtListing), fmt.Sprintf("reader=%s,nontrivial=%v", rd, nt),
				"writers="+strings.Join(c.Writers, "+"), "between_listings:"+window, fmt.Sprintf("reader=%s,between_listings:%s", rd, window))
			if st.WantSample() && nt {
				st.Sample(map[string]any{"case": rc, "reader_backend_reads": view.nReads, "cursor_end": view.cursor, "cursor_at_snapshot_listing": view.snapListCursor, "cursor_at_index_listing": view.indexListCursor, "ops": strings.Split(strings.TrimSpace(vOpsStringC11(merged)), "\n")})
			}

			desc := func() string {
				return fmt.Sprintf("reader %s (%s schedule) on a view starting at op %d of %d, steps %v, jump by %d at read %d (reads %d, cursor at snapshot listing %d, at index listing %d, at end %d)\nmerged writer ops:\n%scase %s",
					rd, rc.Round, rc.Start, len(merged), rc.Steps, rc.JumpBy, rc.JumpRead, view.nReads, view.snapListCursor, view.indexListCursor, view.cursor, vOpsStringC11(merged), vJSON(rc))
			}
			if rerr != nil {
				t.Fatalf("reader failed: %v\nstdout: %s\nstderr: %s\n%s", rerr, out.Stdout, out.Stderr, desc())
			}
			if detail != "" {
				t.Fatalf("reader result wrong: %s\n%s", detail, desc())
			}
			if m := vBadOutputC14.FindString(out.Stderr); m != "" {
				t.Fatalf("reader reported a problem (%q) although it returned success\nstderr: %s\n%s", m, out.Stderr, desc())
			}
			return view.firstListRead
		}

		// every reading command in turn, each on its own view, under two schedules
		readers := []string{"restore", "dump", "ls", "find", "diff", "check", "check-read-data", "stats", "stats-raw", "copy"}
		for _, rd := range readers {
			// (a) random schedule: drawn start, a drawn number of writer operations becomes visible at every read
			rc := c
			rc.Reader, rc.Round, rc.JumpRead = rd, "random", -1
			rc.Start = rapid.IntRange(0, len(merged)).Draw(t, "start")
			rc.Steps = rapid.SliceOfN(rapid.SampledFrom([]int{0, 0, 0, 0, 1, 1, 1, 2, 3}), 6, 14).Draw(t, "steps")
			firstList := runOne(rc)

			// (b) aimed schedule, adapted to the read sequence just observed: the view starts right before a
			// writer's last index file and a burst of writer operations (at least up to that writer's snapshot
			// file) becomes visible between the reader's first listing and the reads following it
			if len(aims) == 0 || firstList < 0 {
				continue
			}
			aim := rapid.SampledFrom(aims).Draw(t, "aim")
			rc = c
			rc.Reader, rc.Round = rd, "aimed"
			rc.Start = aim.idx
			rc.Steps = []int{0}
			rc.JumpRead = firstList + rapid.IntRange(1, 3).Draw(t, "jumpAfterListing")
			rc.JumpBy = rapid.IntRange(aim.snap-aim.idx+1, len(merged)-aim.idx).Draw(t, "jumpBy")
			runOne(rc)
		}
	})
}

// vRunReaderC14 runs one reading command against re (a view, --no-lock). detail != "" describes a wrong result.
func vRunReaderC14(re *vEnv, rd, baseSnap string, snaps []vSnapC14) (out vOut, err error, detail string) {
	switch rd {
	case "restore":
		target := re.Scratch("restore-")
		defer os.RemoveAll(target)
		out, err = re.call(re.gopts, func(ctx context.Context, gopts global.Options) error {
			return runRestore(ctx, RestoreOptions{Target: target}, gopts, gopts.Term, []string{"latest"})
		})
		if err != nil {
			return
		}
		// whichever snapshot was the latest one the reader saw: it restores to its model
		found := 0
		for _, sn := range snaps {
			dir := filepath.Join(target, sn.Src)
			if _, serr := os.Lstat(dir); serr != nil {
				continue
			}
			found++
			got, rerr := vReadTree(dir)
			if rerr != nil {
				return out, rerr, ""
			}
			if d := vTreeDiff(sn.Model, got, true); d != "" {
				detail = fmt.Sprintf("restore of latest (source %s) differs from its model: %s", filepath.Base(sn.Src), d)
			}
		}
		if found != 1 {
			detail = fmt.Sprintf("restore of latest produced %d of the known source trees", found)
		}
	case "dump":
		out, err = re.call(re.gopts, func(ctx context.Context, gopts global.Options) error {
			return runDump(ctx, DumpOptions{Archive: "tar"}, gopts, []string{"latest", "/"}, gopts.Term)
		})
		if err == nil && len(out.Stdout) < 512 {
			detail = fmt.Sprintf("dump produced only %d bytes", len(out.Stdout))
		}
		out.Stdout = fmt.Sprintf("(%d bytes of tar)", len(out.Stdout))
	case "ls":
		out, err = re.call(re.gopts, func(ctx context.Context, gopts global.Options) error {
			return runLs(ctx, LsOptions{Recursive: true, ListLong: true}, gopts, []string{"latest"}, gopts.Term)
		})
	case "find":
		out, err = re.call(re.gopts, func(ctx context.Context, gopts global.Options) error {
			return runFind(ctx, FindOptions{}, gopts, []string{"*"}, gopts.Term)
		})
	case "diff":
		// diff takes snapshot IDs only: like a user, list the snapshots first (`restic list snapshots`,
		// a process of its own on the same view), then diff the base snapshot against another listed one
		lout, lerr := re.call(re.gopts, func(ctx context.Context, gopts global.Options) error {
			return runList(ctx, gopts, []string{"snapshots"}, gopts.Term, "")
		})
		if lerr != nil {
			return lout, lerr, ""
		}
		other := baseSnap
		for _, id := range strings.Fields(lout.Stdout) {
			if id != baseSnap {
				other = id
			}
		}
		out, err = re.call(re.gopts, func(ctx context.Context, gopts global.Options) error {
			return runDiff(ctx, DiffOptions{ShowMetadata: true}, gopts, []string{baseSnap, other}, gopts.Term)
		})
	case "check", "check-read-data":
		out, err = re.call(re.gopts, func(ctx context.Context, gopts global.Options) error {
			_, err := runCheck(ctx, CheckOptions{ReadData: rd == "check-read-data"}, gopts, nil, gopts.Term)
			return err
		})
	case "stats", "stats-raw":
		mode := countModeRestoreSize
		if rd == "stats-raw" {
			mode = countModeRawData
		}
		out, err = re.call(re.gopts, func(ctx context.Context, gopts global.Options) error {
			return runStats(ctx, StatsOptions{countMode: mode}, gopts, nil, gopts.Term)
		})
	case "copy":
		// the view is the SOURCE of a copy into a fresh repository
		de, derr := vNewEnv(true)
		if derr != nil {
			return out, derr, ""
		}
		defer de.Close()
		de.gopts.Backends = re.gopts.Backends
		de.gopts.PackSize = 4
		de.gopts.Compression = re.gopts.Compression
		if err = de.Init("2"); err != nil {
			return
		}
		g := re.gopts
		g.Repo = de.gopts.Repo
		out, err = re.call(g, func(ctx context.Context, gopts global.Options) error {
			return runCopy(ctx, CopyOptions{SecondaryRepoOptions: global.SecondaryRepoOptions{Repo: re.gopts.Repo, Password: vPassword}}, gopts, nil, gopts.Term)
		})
		if err != nil {
			return
		}
		// what was copied is complete in the destination
		if cout, cerr := de.Check(true); cerr != nil {
			detail = fmt.Sprintf("destination of copy fails check: %v\n%s%s", cerr, cout.Stdout, cout.Stderr)
		}
	default:
		panic("unknown reader " + rd)
	}
	return
}
