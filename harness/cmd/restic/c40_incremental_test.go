package main

// C40: incremental backups store the same tree as full backups.
//
// A history of source states is drawn: an initial tree on the real file system and,
// per step, a few edits that respect the precondition of the statement for the
// change-detection mode of the case (default / --ignore-ctime / --ignore-inode).
// At every state several backups are taken WITHOUT touching the source in between:
// forced (full), parent-based with a drawn explicit parent or the default parent,
// --skip-if-unchanged variants, and backups into a second repository initialised with
// the chunker parameters of the first. Oracle: all snapshots of one state have the
// same tree ID (root tree and the subtree of the source directory); a
// --skip-if-unchanged run creates no snapshot exactly when it has a parent whose
// tree equals the tree of the state.

import (
	"bufio"
	"context"
	"encoding/json"
	"fmt"
	"os"
	"path/filepath"
	"sort"
	"strings"
	"testing"

	"github.com/restic/restic/internal/data"
	"github.com/restic/restic/internal/global"
	"github.com/restic/restic/internal/repository"
	"github.com/restic/restic/internal/restic"
	"github.com/restic/restic/internal/verifkit"
	"golang.org/x/sys/unix"
	"pgregory.net/rapid"
)

const (
	vModeDefaultC40     = 0
	vModeIgnoreCtimeC40 = 1
	vModeIgnoreInodeC40 = 2
)

var vModeNamesC40 = []string{"default", "ignore-ctime", "ignore-inode"}

var vNamePoolC40 = []string{"a", "b", "c", "d", "e.txt", "f.dat", "sub", "dir", "x y", "über", "z\xff"}

// vSrcC40 drives the edits of one source directory.
type vSrcC40 struct {
	t       *rapid.T
	st      *verifkit.Stats
	root    string
	mode    int
	counter int64 // source of unique mtimes / seeds
	log     []string
	// history of change-detection keys per path: key -> content hash
	seen map[string]map[string]string
}

type vEntryC40 struct {
	rel  string
	kind byte // f d l
	st   unix.Stat_t
}

func (s *vSrcC40) full(rel string) string { return s.root + "/" + rel }

func (s *vSrcC40) logf(format string, args ...any) {
	s.log = append(s.log, fmt.Sprintf(format, args...))
}

// list returns the entries below root sorted by path.
func (s *vSrcC40) list() []vEntryC40 {
	var out []vEntryC40
	var walk func(rel string)
	walk = func(rel string) {
		dir := s.root
		if rel != "" {
			dir = s.full(rel)
		}
		des, err := os.ReadDir(dir)
		if err != nil {
			s.t.Fatalf("harness: readdir %q: %v", dir, err)
		}
		for _, de := range des {
			r := de.Name()
			if rel != "" {
				r = rel + "/" + de.Name()
			}
			var st unix.Stat_t
			if err := unix.Lstat(s.full(r), &st); err != nil {
				s.t.Fatalf("harness: lstat: %v", err)
			}
			e := vEntryC40{rel: r, st: st}
			switch st.Mode & unix.S_IFMT {
			case unix.S_IFDIR:
				e.kind = 'd'
			case unix.S_IFLNK:
				e.kind = 'l'
			default:
				e.kind = 'f'
			}
			out = append(out, e)
			if e.kind == 'd' {
				walk(r)
			}
		}
	}
	walk("")
	sort.Slice(out, func(i, j int) bool { return out[i].rel < out[j].rel })
	return out
}

func (s *vSrcC40) pick(kind string, label string) (vEntryC40, bool) {
	var c []vEntryC40
	for _, e := range s.list() {
		if strings.IndexByte(kind, e.kind) >= 0 {
			c = append(c, e)
		}
	}
	if len(c) == 0 {
		return vEntryC40{}, false
	}
	return c[rapid.IntRange(0, len(c)-1).Draw(s.t, label)], true
}

// pickDir returns a directory ("" = root).
func (s *vSrcC40) pickDir(label string, notBelow string) string {
	dirs := []string{""}
	for _, e := range s.list() {
		if e.kind == 'd' && strings.Count(e.rel, "/") < 2 && !(notBelow != "" && (e.rel == notBelow || strings.HasPrefix(e.rel, notBelow+"/"))) {
			dirs = append(dirs, e.rel)
		}
	}
	return dirs[rapid.IntRange(0, len(dirs)-1).Draw(s.t, label)]
}

func (s *vSrcC40) newName(dir, label string) string {
	n := rapid.SampledFrom(vNamePoolC40).Draw(s.t, label)
	if dir == "" {
		return n
	}
	return dir + "/" + n
}

func (s *vSrcC40) uniqueMtime() int64 {
	s.counter++
	return (1600000000+s.counter*977)*1e9 + s.counter*1001
}

func (s *vSrcC40) must(err error) {
	if err != nil {
		s.t.Fatalf("harness: %v\nedits so far:\n  %s", err, strings.Join(s.log, "\n  "))
	}
}

func vSetMtimeC40(path string, ns int64) error {
	ts := []unix.Timespec{unix.NsecToTimespec(ns), unix.NsecToTimespec(ns)}
	return unix.UtimesNanoAt(unix.AT_FDCWD, path, ts, unix.AT_SYMLINK_NOFOLLOW)
}

func (s *vSrcC40) content(n int) []byte {
	s.counter++
	return vContent(&vNode{Seed: uint64(s.counter)*0x9e3779b97f4a7c15 + rapid.Uint64().Draw(s.t, "seed"), Len: n})
}

func (s *vSrcC40) genLen(label string) int {
	return rapid.OneOf(rapid.IntRange(0, 40), rapid.IntRange(1, 5000), rapid.IntRange(1, 5000), rapid.SampledFrom([]int{600 * 1024, 1100 * 1024})).Draw(s.t, label)
}

func (s *vSrcC40) createFile(rel string) {
	n := s.genLen("newLen")
	s.must(os.WriteFile(s.full(rel), s.content(n), 0o644))
	if rapid.IntRange(0, 3).Draw(s.t, "explicitMtime") > 0 {
		s.must(vSetMtimeC40(s.full(rel), s.uniqueMtime()))
	}
	s.logf("create file %q len %d", rel, n)
}

func (s *vSrcC40) create(rel string, kind byte) {
	switch kind {
	case 'f':
		s.createFile(rel)
	case 'd':
		s.must(os.Mkdir(s.full(rel), 0o755))
		s.logf("mkdir %q", rel)
		if rapid.Bool().Draw(s.t, "dirChild") {
			s.createFile(rel + "/" + rapid.SampledFrom(vNamePoolC40).Draw(s.t, "childName"))
		}
	case 'l':
		tg := rapid.SampledFrom([]string{"a", "../b", "nonexistent", "sub/a", "t\xe9"}).Draw(s.t, "target")
		s.must(os.Symlink(tg, s.full(rel)))
		s.logf("symlink %q -> %q", rel, tg)
	}
}

func (s *vSrcC40) exists(rel string) bool {
	var st unix.Stat_t
	return unix.Lstat(s.full(rel), &st) == nil
}

// editContent changes the content of a regular file such that the precondition of
// the statement holds for the mode of this case.
func (s *vSrcC40) editContent() string {
	e, ok := s.pick("f", "contentTarget")
	if !ok {
		return ""
	}
	p := s.full(e.rel)
	oldM := e.st.Mtim.Nano()
	oldSize := int(e.st.Size)
	variants := map[int][]string{
		vModeDefaultC40:     {"resize", "samesize-mtime-now", "samesize-ctime-only", "samesize-inode-only", "resize-keep-mtime", "samesize-new-mtime", "samesize-mtime-nudge", "append"},
		vModeIgnoreCtimeC40: {"resize", "samesize-mtime-now", "samesize-inode-only", "resize-keep-mtime", "samesize-new-mtime", "samesize-mtime-nudge", "samesize-mtime-nudge", "append"},
		vModeIgnoreInodeC40: {"resize", "samesize-mtime-now", "resize-keep-mtime", "samesize-new-mtime", "samesize-mtime-nudge", "append"},
	}[s.mode]
	v := rapid.SampledFrom(variants).Draw(s.t, "contentVariant")
	if oldSize == 0 && strings.HasPrefix(v, "samesize") {
		v = "resize"
	}
	newSize := oldSize
	if strings.HasPrefix(v, "resize") {
		for newSize == oldSize {
			newSize = s.genLen("resizeLen")
			if oldSize > 500000 && newSize > 500000 { // keep at most moderately large
				newSize = oldSize + rapid.IntRange(1, 100).Draw(s.t, "resizeDelta")
			}
		}
	}
	switch v {
	case "resize", "samesize-mtime-now":
		s.must(os.WriteFile(p, s.content(newSize), 0o644))
	case "samesize-ctime-only":
		s.must(os.WriteFile(p, s.content(newSize), 0o644))
		s.must(vSetMtimeC40(p, oldM))
	case "resize-keep-mtime":
		s.must(os.WriteFile(p, s.content(newSize), 0o644))
		s.must(vSetMtimeC40(p, oldM))
	case "samesize-new-mtime":
		s.must(os.WriteFile(p, s.content(newSize), 0o644))
		s.must(vSetMtimeC40(p, s.uniqueMtime()))
	case "samesize-mtime-nudge":
		// same size, same inode, mtime moved by less than a millisecond (a tool that restores
		// time stamps with coarser or finer resolution, two writes within one clock tick)
		s.must(os.WriteFile(p, s.content(newSize), 0o644))
		d := rapid.SampledFrom([]int64{1, -1, 1000, 10_000, 400_000}).Draw(s.t, "nudgeNs")
		s.must(vSetMtimeC40(p, oldM+d))
	case "samesize-inode-only":
		tmp := p + ".c40tmp"
		s.must(os.WriteFile(tmp, s.content(newSize), os.FileMode(e.st.Mode&0o777)))
		s.must(vSetMtimeC40(tmp, oldM))
		var ts unix.Stat_t
		s.must(unix.Lstat(tmp, &ts))
		if ts.Ino == e.st.Ino {
			s.t.Fatalf("harness: temp file has the inode of the file it replaces")
		}
		s.must(os.Rename(tmp, p))
	case "append":
		f, err := os.OpenFile(p, os.O_WRONLY|os.O_APPEND, 0)
		s.must(err)
		_, err = f.Write(s.content(rapid.IntRange(1, 300).Draw(s.t, "appendLen")))
		s.must(err)
		s.must(f.Close())
	}
	s.logf("content %s %q (%d -> %d bytes)", v, e.rel, oldSize, newSize)
	return "edit=content:" + v
}

func (s *vSrcC40) editMeta() string {
	e, ok := s.pick("fdl", "metaTarget")
	if !ok {
		return ""
	}
	p := s.full(e.rel)
	v := rapid.SampledFrom([]string{"chmod", "chown", "touch", "xattr"}).Draw(s.t, "metaVariant")
	switch v {
	case "chmod":
		if e.kind == 'l' {
			return ""
		}
		s.must(unix.Fchmodat(unix.AT_FDCWD, p, (e.st.Mode&0o7777)^uint32(rapid.SampledFrom([]int{0o100, 0o044, 0o2000, 0o001}).Draw(s.t, "modeBits")), 0))
	case "chown":
		s.must(os.Lchown(p, int(e.st.Uid+1)%3*500, int(e.st.Gid)))
	case "touch":
		s.must(vSetMtimeC40(p, s.uniqueMtime()))
	case "xattr":
		if e.kind == 'l' {
			return ""
		}
		s.counter++
		if err := unix.Lsetxattr(p, "user.c40", []byte(fmt.Sprint(s.counter)), 0); err != nil {
			return ""
		}
	}
	s.logf("meta %s %q (%c)", v, e.rel, e.kind)
	return "edit=meta:" + v + ":" + string(e.kind)
}

func (s *vSrcC40) editCreate() string {
	rel := s.newName(s.pickDir("createDir", ""), "createName")
	if s.exists(rel) {
		return ""
	}
	k := rapid.SampledFrom([]byte{'f', 'f', 'f', 'd', 'l'}).Draw(s.t, "createKind")
	s.create(rel, k)
	return "edit=create:" + string(k)
}

func (s *vSrcC40) editDelete() string {
	e, ok := s.pick("fdl", "deleteTarget")
	if !ok {
		return ""
	}
	s.must(os.RemoveAll(s.full(e.rel)))
	s.logf("delete %q (%c)", e.rel, e.kind)
	return "edit=delete:" + string(e.kind)
}

func (s *vSrcC40) editRename() string {
	e, ok := s.pick("fdl", "renameTarget")
	if !ok {
		return ""
	}
	notBelow := ""
	if e.kind == 'd' {
		notBelow = e.rel
	}
	dst := s.newName(s.pickDir("renameDir", notBelow), "renameName")
	if dst == e.rel {
		return ""
	}
	over := ""
	if s.exists(dst) {
		var ds unix.Stat_t
		s.must(unix.Lstat(s.full(dst), &ds))
		if e.kind == 'd' || ds.Mode&unix.S_IFMT == unix.S_IFDIR {
			return ""
		}
		over = "-over"
	}
	s.must(os.Rename(s.full(e.rel), s.full(dst)))
	s.logf("rename%s %q -> %q (%c)", over, e.rel, dst, e.kind)
	return "edit=rename" + over + ":" + string(e.kind)
}

func (s *vSrcC40) editRetype() string {
	e, ok := s.pick("fdl", "retypeTarget")
	if !ok {
		return ""
	}
	nk := rapid.SampledFrom([]byte{'f', 'd', 'l'}).Draw(s.t, "retypeKind")
	if nk == e.kind {
		return ""
	}
	s.must(os.RemoveAll(s.full(e.rel)))
	s.logf("retype %q %c -> %c", e.rel, e.kind, nk)
	s.create(e.rel, nk)
	return fmt.Sprintf("edit=retype:%c->%c", e.kind, nk)
}

func (s *vSrcC40) editHardlink() string {
	e, ok := s.pick("f", "linkTarget")
	if !ok {
		return ""
	}
	rel := s.newName(s.pickDir("linkDir", ""), "linkName")
	if s.exists(rel) {
		return ""
	}
	s.must(os.Link(s.full(e.rel), s.full(rel)))
	s.logf("hardlink %q -> %q", rel, e.rel)
	return "edit=hardlink"
}

func (s *vSrcC40) edit() string {
	switch rapid.IntRange(0, 11).Draw(s.t, "editKind") {
	case 0, 1, 2, 3:
		return s.editContent()
	case 4, 5:
		return s.editMeta()
	case 6:
		return s.editCreate()
	case 7:
		return s.editDelete()
	case 8, 9:
		return s.editRename()
	case 10:
		return s.editRetype()
	default:
		return s.editHardlink()
	}
}

// guard enforces the precondition of the statement against every earlier state (any
// earlier snapshot may serve as parent): a regular file whose change-detection key
// (size, mtime, and ctime / inode unless ignored) equals a key seen before at the same
// path must have the content seen then. Otherwise the file gets a fresh mtime.
func (s *vSrcC40) guard() {
	for _, e := range s.list() {
		if e.kind != 'f' {
			continue
		}
		for try := 0; ; try++ {
			var st unix.Stat_t
			s.must(unix.Lstat(s.full(e.rel), &st))
			b, err := os.ReadFile(s.full(e.rel))
			s.must(err)
			sum := vSum(b)
			key := fmt.Sprintf("%d/%d", st.Size, st.Mtim.Nano())
			if s.mode == vModeDefaultC40 {
				key += fmt.Sprintf("/c%d", st.Ctim.Nano())
			}
			if s.mode != vModeIgnoreInodeC40 {
				key += fmt.Sprintf("/i%d", st.Ino)
			}
			m := s.seen[e.rel]
			if m == nil {
				m = map[string]string{}
				s.seen[e.rel] = m
			}
			if old, ok := m[key]; ok && old != sum {
				if try > 2 {
					s.t.Fatalf("harness: cannot establish the precondition for %q", e.rel)
				}
				s.st.Class("precondition-repair:" + vModeNamesC40[s.mode])
				s.logf("precondition repair: %q gets a fresh mtime", e.rel)
				s.must(vSetMtimeC40(s.full(e.rel), s.uniqueMtime()))
				continue
			}
			m[key] = sum
			break
		}
	}
}

// ---------------------------------------------------------------------------

type vSnapC40 struct {
	ID     string
	Env    int
	State  int
	Op     string
	Root   restic.ID
	Sub    restic.ID
	Parent string
}

type vSummaryC40 struct {
	MessageType     string `json:"message_type"`
	FilesNew        uint   `json:"files_new"`
	FilesChanged    uint   `json:"files_changed"`
	FilesUnmodified uint   `json:"files_unmodified"`
	SnapshotID      string `json:"snapshot_id"`
}

// vBackupC40 runs one backup with JSON output and returns the summary.
func vBackupC40(e *vEnv, src string, opts BackupOptions) (*vSummaryC40, error) {
	g := e.gopts
	g.JSON = true
	out, err := e.BackupOut(context.Background(), g, []string{src}, opts)
	if err != nil {
		return nil, fmt.Errorf("%w\n%s%s", err, out.Stdout, out.Stderr)
	}
	sc := bufio.NewScanner(strings.NewReader(out.Stdout))
	sc.Buffer(make([]byte, 1<<20), 1<<24)
	for sc.Scan() {
		var sum vSummaryC40
		if json.Unmarshal(sc.Bytes(), &sum) == nil && sum.MessageType == "summary" {
			return &sum, nil
		}
	}
	return nil, fmt.Errorf("no summary in backup output:\n%s%s", out.Stdout, out.Stderr)
}

// vTreesC40 loads root and source-directory tree IDs of a snapshot.
func vTreesC40(e *vEnv, id, src string) (root, sub restic.ID, parent string, err error) {
	err = e.WithRepo(func(ctx context.Context, repo *repository.Repository) error {
		rid, err := restic.ParseID(id)
		if err != nil {
			return err
		}
		sn, err := data.LoadSnapshot(ctx, repo, rid)
		if err != nil {
			return err
		}
		if sn.Parent != nil {
			parent = sn.Parent.String()
		}
		if err := repo.LoadIndex(ctx, restic.NoopTerminalCounterFactory); err != nil {
			return err
		}
		root = *sn.Tree
		s, err := data.FindTreeDirectory(ctx, repo, sn.Tree, filepath.ToSlash(src))
		if err != nil {
			return err
		}
		sub = *s
		return nil
	})
	return
}

// vFlattenC40 lists path -> node JSON of a tree (diagnostics only).
func vFlattenC40(ctx context.Context, repo *repository.Repository, id restic.ID, prefix string, out map[string]string) error {
	tree, err := data.LoadTree(ctx, repo, id)
	if err != nil {
		return err
	}
	for item := range tree {
		if item.Error != nil {
			return item.Error
		}
		n := item.Node
		b, _ := json.Marshal(n)
		out[prefix+"/"+n.Name] = string(b)
		if n.Type == data.NodeTypeDir && n.Subtree != nil {
			if err := vFlattenC40(ctx, repo, *n.Subtree, prefix+"/"+n.Name, out); err != nil {
				return err
			}
		}
	}
	return nil
}

func vTreeDiffC40(ea *vEnv, a restic.ID, eb *vEnv, b restic.ID) string {
	fl := func(e *vEnv, id restic.ID) map[string]string {
		m := map[string]string{}
		_ = e.WithRepo(func(ctx context.Context, repo *repository.Repository) error {
			if err := repo.LoadIndex(ctx, restic.NoopTerminalCounterFactory); err != nil {
				return err
			}
			return vFlattenC40(ctx, repo, id, "", m)
		})
		return m
	}
	ma, mb := fl(ea, a), fl(eb, b)
	var out []string
	for p, ja := range ma {
		if jb, ok := mb[p]; !ok {
			out = append(out, fmt.Sprintf("only in first: %q %s", p, ja))
		} else if ja != jb {
			out = append(out, fmt.Sprintf("%q:\n    first:  %s\n    second: %s", p, ja, jb))
		}
	}
	for p, jb := range mb {
		if _, ok := ma[p]; !ok {
			out = append(out, fmt.Sprintf("only in second: %q %s", p, jb))
		}
	}
	sort.Strings(out)
	if len(out) > 6 {
		out = out[:6]
	}
	return strings.Join(out, "\n  ")
}

func TestVerifC40IncrementalEqualsFull(t *testing.T) {
	vSetup(t)
	st := verifkit.Begin(t, "C40")
	rapid.Check(t, func(t *rapid.T) {
		mode := rapid.IntRange(0, 2).Draw(t, "mode")
		envs := make([]*vEnv, 2)
		for i := range envs {
			e, err := vNewEnv(rapid.Bool().Draw(t, "vmem"))
			if err != nil {
				t.Fatal(err)
			}
			defer e.Close()
			e.gopts.Compression = rapid.SampledFrom([]repository.CompressionMode{repository.CompressionAuto, repository.CompressionOff, repository.CompressionAuto, repository.CompressionFastest}).Draw(t, "compression")
			envs[i] = e
		}
		version := rapid.SampledFrom([]string{"1", "2", "2"}).Draw(t, "version")
		if err := envs[0].Init(version); err != nil {
			t.Fatalf("init: %v", err)
		}
		// the second repository gets the chunker polynomial of the first
		if _, err := envs[1].call(envs[1].gopts, func(ctx context.Context, gopts global.Options) error {
			return runInit(ctx, InitOptions{
				RepositoryVersion:     rapid.SampledFrom([]string{"1", "2"}).Draw(t, "version2"),
				CopyChunkerParameters: true,
				SecondaryRepoOptions:  global.SecondaryRepoOptions{Repo: envs[0].gopts.Repo, Password: vPassword},
			}, gopts, nil, gopts.Term)
		}); err != nil {
			t.Fatalf("init --copy-chunker-params: %v", err)
		}

		// the source lives in its own directory; nothing else is created next to it
		// NOT below TMPDIR: restic creates its temporary pack files there, which changes the mtime of
		// an ancestor directory of the source between two backups (the ancestors are part of the root tree)
		rd := os.Getenv("VERIF_RUNDIR")
		if rd == "" {
			rd, _ = os.Getwd()
		}
		if err := os.MkdirAll(filepath.Join(rd, "c40src"), 0o755); err != nil {
			t.Fatal(err)
		}
		holder, err := os.MkdirTemp(filepath.Join(rd, "c40src"), "case-")
		if err != nil {
			t.Fatal(err)
		}
		defer os.RemoveAll(holder)
		src := filepath.Join(holder, "src")
		if err := os.Mkdir(src, 0o755); err != nil {
			t.Fatal(err)
		}
		s := &vSrcC40{t: t, st: st, root: src, mode: mode, seen: map[string]map[string]string{}}
		n := rapid.IntRange(3, 9).Draw(t, "initialEntries")
		for i := 0; i < n; i++ {
			rel := s.newName(s.pickDir("initDir", ""), "initName")
			if s.exists(rel) {
				continue
			}
			s.create(rel, rapid.SampledFrom([]byte{'f', 'f', 'f', 'f', 'd', 'l'}).Draw(t, "initKind"))
		}

		bopts := func() BackupOptions {
			return BackupOptions{IgnoreCtime: mode == vModeIgnoreCtimeC40, IgnoreInode: mode == vModeIgnoreInodeC40,
				ReadConcurrency: uint(rapid.IntRange(0, 4).Draw(t, "readConcurrency"))}
		}
		snaps := [][]*vSnapC40{nil, nil} // per environment, in creation order
		find := func(env int, id string) *vSnapC40 {
			for _, sn := range snaps[env] {
				if sn.ID == id {
					return sn
				}
			}
			return nil
		}
		var classes []string
		nontrivial := false
		var histKey []string

		states := rapid.IntRange(2, 4).Draw(t, "states")
		for state := 0; state < states; state++ {
			if state > 0 {
				ne := rapid.SampledFrom([]int{0, 1, 1, 2, 2, 3, 4}).Draw(t, "edits")
				for i := 0; i < ne; i++ {
					if c := s.edit(); c != "" {
						classes = append(classes, c)
					}
				}
				if ne == 0 {
					classes = append(classes, "edit=none")
				}
			}
			s.guard()
			s.logf("---- state %d ----", state)

			ops := []string{"F", "I"}
			if rapid.Bool().Draw(t, "opSkip") {
				ops = append(ops, "S")
			}
			if rapid.IntRange(0, 2).Draw(t, "opLatest") == 0 {
				ops = append(ops, "L")
			}
			if rapid.IntRange(0, 5).Draw(t, "opSkipForce") == 0 {
				ops = append(ops, "SF")
			}
			if rapid.IntRange(0, 2).Draw(t, "opFresh") == 0 {
				ops = append(ops, "X")
			}
			if rapid.IntRange(0, 3).Draw(t, "opSkipLatest") == 0 {
				ops = append(ops, "SL")
			}
			ops = rapid.Permutation(ops).Draw(t, "opOrder")

			type skipObs struct {
				op         string
				env        int
				parent     *vSnapC40
				skipped    bool
				hasParent  bool
				sn         *vSnapC40 // the snapshot that was created, if any
			}
			var created []*vSnapC40
			var skips []skipObs
			for _, op := range ops {
				env := 0
				o := bopts()
				var parent *vSnapC40
				switch op {
				case "F":
					o.Force = true
				case "SF":
					o.Force, o.SkipIfUnchanged = true, true
				case "I", "S":
					if len(snaps[0]) > 0 {
						// mostly a recent snapshot, sometimes any older one
						k := len(snaps[0]) - 1 - rapid.SampledFrom([]int{0, 0, 1, 2, 3, 5, 8}).Draw(t, "parentAge")
						if k < 0 {
							k = rapid.IntRange(0, len(snaps[0])-1).Draw(t, "parentAny")
						}
						parent = snaps[0][k]
						o.Parent = parent.ID
					}
					o.SkipIfUnchanged = op == "S"
				case "L", "SL":
					if len(snaps[0]) > 0 {
						parent = snaps[0][len(snaps[0])-1]
					}
					o.SkipIfUnchanged = op == "SL"
				case "X":
					env = 1
					switch rapid.IntRange(0, 2).Draw(t, "freshKind") {
					case 0:
						o.Force = true
					case 1:
						if len(snaps[1]) > 0 {
							parent = snaps[1][len(snaps[1])-1]
						}
					default:
						if len(snaps[1]) > 0 {
							parent = snaps[1][rapid.IntRange(0, len(snaps[1])-1).Draw(t, "freshParent")]
							o.Parent = parent.ID
						}
						o.SkipIfUnchanged = rapid.Bool().Draw(t, "freshSkip")
					}
				}
				sum, err := vBackupC40(envs[env], src, o)
				if err != nil {
					t.Fatalf("backup %s at state %d failed: %v\nedits:\n  %s", op, state, err, strings.Join(s.log, "\n  "))
				}
				st.Evals(1)
				pdesc := "none"
				if parent != nil {
					pdesc = fmt.Sprintf("state%d", parent.State)
				}
				s.logf("backup %s env%d parent=%s skip-if-unchanged=%v -> snapshot %.8s (new %d changed %d unmodified %d)", op, env, pdesc, o.SkipIfUnchanged, sum.SnapshotID, sum.FilesNew, sum.FilesChanged, sum.FilesUnmodified)
				if o.SkipIfUnchanged {
					skips = append(skips, skipObs{op, env, parent, sum.SnapshotID == "", parent != nil, nil})
				}
				if parent != nil && sum.FilesUnmodified >= 1 && sum.FilesNew+sum.FilesChanged >= 1 {
					nontrivial = true
				}
				if parent != nil {
					classes = append(classes, fmt.Sprintf("parent-age=%d", min(state-parent.State, 3)))
					if sum.FilesUnmodified > 0 {
						classes = append(classes, "reused-files=yes")
					}
					if sum.FilesNew+sum.FilesChanged > 0 {
						classes = append(classes, "changed-files=yes")
					}
				}
				if sum.SnapshotID == "" {
					if !o.SkipIfUnchanged {
						t.Fatalf("backup %s at state %d created no snapshot without --skip-if-unchanged", op, state)
					}
					continue
				}
				root, sub, snParent, err := vTreesC40(envs[env], sum.SnapshotID, src)
				if err != nil {
					t.Fatalf("load trees of %s: %v", sum.SnapshotID, err)
				}
				sn := &vSnapC40{ID: sum.SnapshotID, Env: env, State: state, Op: op, Root: root, Sub: sub, Parent: snParent}
				wantParent := ""
				if parent != nil {
					wantParent = parent.ID
				}
				if snParent != wantParent {
					t.Fatalf("backup %s at state %d: snapshot records parent %.8s, expected %.8s\nedits:\n  %s", op, state, snParent, wantParent, strings.Join(s.log, "\n  "))
				}
				snaps[env] = append(snaps[env], sn)
				created = append(created, sn)
				if o.SkipIfUnchanged {
					skips[len(skips)-1].sn = sn
				}
				classes = append(classes, "op="+op)
				if env == 1 && len(snaps[1]) == 1 {
					classes = append(classes, "fresh-repository-full")
				}
			}

			// oracle 1: every snapshot of this state stores the source directory with the tree ID of the
			// forced (full) backup. The root trees also contain the ancestors /verif/.work/... of the source,
			// which other processes modify concurrently; their equality is only counted.
			var ref *vSnapC40
			for _, sn := range created {
				if sn.Op == "F" {
					ref = sn
				}
			}
			for _, sn := range created {
				if sn == ref {
					continue
				}
				st.Evals(1)
				if sn.Sub != ref.Sub {
					t.Fatalf("state %d, mode %s: backup %s (env%d, parent %.8s) stored a different source directory tree than the forced backup: %s != %s\n  %s\nedits and backups:\n  %s",
						state, vModeNamesC40[mode], sn.Op, sn.Env, sn.Parent, sn.Sub.Str(), ref.Sub.Str(), vTreeDiffC40(envs[sn.Env], sn.Sub, envs[0], ref.Sub), strings.Join(s.log, "\n  "))
				}
				classes = append(classes, fmt.Sprintf("root-tree-equal=%v", sn.Root == ref.Root))
			}
			// oracle 2: --skip-if-unchanged omits the snapshot <=> a parent exists and its tree equals the new tree.
			//   snapshot created  => no parent, or new root tree != parent's root tree (both observed, exact)
			//   snapshot omitted  => a parent exists and the parent's source directory tree is the tree of this state
			//                        (the new root tree of an omitted snapshot cannot be observed; its ancestors part
			//                        is outside the control of the test)
			for _, so := range skips {
				st.Evals(1)
				switch {
				case so.skipped && !so.hasParent:
					t.Fatalf("state %d: backup %s (env%d) with --skip-if-unchanged created no snapshot although it had no parent\nedits and backups:\n  %s", state, so.op, so.env, strings.Join(s.log, "\n  "))
				case so.skipped && so.parent.Sub != ref.Sub:
					t.Fatalf("state %d: backup %s (env%d) with --skip-if-unchanged created no snapshot although the parent (state %d) has a different tree: %s != %s\n  %s\nedits and backups:\n  %s",
						state, so.op, so.env, so.parent.State, so.parent.Sub.Str(), ref.Sub.Str(), vTreeDiffC40(envs[so.env], so.parent.Sub, envs[0], ref.Sub), strings.Join(s.log, "\n  "))
				case !so.skipped && so.hasParent && so.sn.Root == so.parent.Root:
					t.Fatalf("state %d: backup %s (env%d) with --skip-if-unchanged created snapshot %.8s although its tree %s equals the tree of its parent %.8s\nedits and backups:\n  %s",
						state, so.op, so.env, so.sn.ID, so.sn.Root.Str(), so.parent.ID, strings.Join(s.log, "\n  "))
				}
				classes = append(classes, fmt.Sprintf("skip-if-unchanged:parent=%v,skipped=%v", so.hasParent, so.skipped))
			}
			histKey = append(histKey, ref.Sub.String())
			_ = find
		}
		classes = append(classes, "mode="+vModeNamesC40[mode])
		key := ""
		if nontrivial {
			key = strings.Join(histKey, ",") + strings.Join(s.log, ";")
		}
		st.Case(key, classes...)
		if st.WantSample() {
			st.Sample(map[string]any{"mode": vModeNamesC40[mode], "history": s.log})
		}
	})
}
