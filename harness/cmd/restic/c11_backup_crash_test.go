package main

import (
	"context"
	"fmt"
	"os"
	"sort"
	"sync/atomic"
	"testing"

	"github.com/restic/restic/internal/backend"
	"github.com/restic/restic/internal/repository"
	"github.com/restic/restic/internal/repository/index"
	"github.com/restic/restic/internal/restic"
	"github.com/restic/restic/internal/verifkit"
	"github.com/restic/restic/internal/verifkit/vbe"
	"pgregory.net/rapid"
)

// vCaseC11 is the generated scenario (printed in failures and samples).
type vCaseC11 struct {
	Version     string `json:"version"`
	Compression string `json:"compression"`
	Class       string `json:"class"`   // small | big (several MiB of incompressible data, 4 MiB packs)
	FullAt      int    `json:"full_at"` // >0: an index counts as "full" from that many blobs on (index.Full override)
	Pre         int    `json:"pre"`     // number of pre-existing snapshots
	Force       bool   `json:"force"`
	Tree        string `json:"tree"`
}

// vSetFullC11 overrides the exported "is this index full enough to be saved early" rule.
func vSetFullC11(orig func(*index.Index) bool, n int) {
	if n <= 0 {
		index.Full = orig
		return
	}
	index.Full = func(idx *index.Index) bool {
		return int(idx.Len(restic.DataBlob)+idx.Len(restic.TreeBlob)) >= n
	}
}

func vMaterializeC11(src string, tr vTree) error {
	if err := os.RemoveAll(src); err != nil {
		return err
	}
	if err := os.Mkdir(src, 0o755); err != nil {
		return err
	}
	return tr.Materialize(src)
}

// vGenNewTreeC11 draws the tree of the observed backup.
func vGenNewTreeC11(t *rapid.T, class string) vTree {
	tr := vGenTree(t, vTreeGen{MaxEntries: 10, Symlinks: true})
	if class == "big" {
		n := rapid.IntRange(2, 3).Draw(t, "bigfiles")
		for i := 0; i < n; i++ {
			name := fmt.Sprintf("big%d.bin", i)
			delete(tr, name)
			tr[name] = &vNode{Kind: 'f', Mode: 0o644, Mtime: int64(1600000000+i) * 1e9,
				Seed: rapid.Uint64().Draw(t, "bigseed"),
				Len:  rapid.IntRange(5<<19, 9<<19).Draw(t, "biglen")} // 2.5 .. 4.5 MiB each
		}
	}
	return tr
}

// vCheckStateC11: `check` passes on the state and every snapshot in want restores to its model.
func vCheckStateC11(se *vEnv, want map[string]vTree, src string, readData bool) error {
	// the read-only oracle commands run with --no-lock: there is no concurrent process, locking is the
	// subject of C12/C13, and creating a lock file costs a zstd encoder set-up per command
	ro := *se
	ro.gopts.NoLock = true
	se = &ro
	if out, err := se.Check(readData); err != nil {
		return fmt.Errorf("check(read-data=%v): %v\n%s%s", readData, err, out.Stdout, out.Stderr)
	}
	ids := make([]string, 0, len(want))
	for id := range want {
		ids = append(ids, id)
	}
	sort.Strings(ids)
	for _, id := range ids {
		d, err := se.RestoreEq(id, src, want[id])
		if err != nil {
			return err
		}
		if d != "" {
			return fmt.Errorf("snapshot %s restores differently: %s", id[:8], d)
		}
	}
	return nil
}

// vSnapshotFilesC11 lists the snapshot files of a store.
func vSnapshotFilesC11(s *vbe.Store) []string { return s.Keys(backend.SnapshotFile) }

// vStateOracleC11 is the complete per-state oracle of the property. s is consumed.
//
//	pre      models of the snapshots that existed before the observed backup
//	newModel model of the tree of the observed backup (still materialized in src)
//	pruneFirst  order of the two follow-up commands
func vStateOracleC11(e *vEnv, s *vbe.Store, pre map[string]vTree, newModel vTree, src string, pruneFirst bool) error {
	s.DropLocks() // the interrupted process is dead: `restic unlock` removes its stale lock
	se := e.OnStore(s)
	defer se.Release()

	// (1) check passes, old snapshots restorable; a snapshot file of the interrupted backup that is
	// present must be complete as well
	want := map[string]vTree{}
	for id, tr := range pre {
		want[id] = tr
		if _, ok := s.Get(backend.SnapshotFile, id); !ok {
			return fmt.Errorf("pre-existing snapshot %s vanished", id[:8])
		}
	}
	for _, id := range vSnapshotFilesC11(s) {
		if _, ok := pre[id]; !ok {
			want[id] = newModel
		}
	}
	// plain `check` here (the statement's oracle; the data of every snapshot is verified by restoring it);
	// `check --read-data` once more after the follow-up commands below
	if err := vCheckStateC11(se, want, src, false); err != nil {
		return err
	}

	// (2) a later backup and a later prune succeed on that state
	doBackup := func() error {
		before := vSnapshotFilesC11(s)
		if err := se.Backup([]string{src}, BackupOptions{}); err != nil {
			return fmt.Errorf("follow-up backup failed: %v", err)
		}
		id := vNewID(before, vSnapshotFilesC11(s))
		if id == "" {
			return fmt.Errorf("follow-up backup created no snapshot")
		}
		want[id] = newModel
		return nil
	}
	doPrune := func() error {
		if err := se.Prune(PruneOptions{MaxUnused: "0"}); err != nil {
			return fmt.Errorf("follow-up prune failed: %v", err)
		}
		return nil
	}
	steps := []func() error{doBackup, doPrune}
	if pruneFirst {
		steps = []func() error{doPrune, doBackup}
	}
	for _, f := range steps {
		if err := f(); err != nil {
			return err
		}
	}
	if err := vCheckStateC11(se, want, src, true); err != nil {
		return fmt.Errorf("after follow-up (pruneFirst=%v): %w", pruneFirst, err)
	}
	return nil
}

func TestVerifC11BackupCrashPrefixes(t *testing.T) {
	vSetup(t)
	st := verifkit.Begin(t, "C11")
	origFull := index.Full
	defer func() { index.Full = origFull }()

	rapid.Check(t, func(t *rapid.T) {
		index.Full = origFull
		defer func() { index.Full = origFull }()

		c := vCaseC11{Version: rapid.SampledFrom([]string{"1", "2", "2"}).Draw(t, "version")}
		e, err := vNewEnv(true)
		if err != nil {
			t.Fatal(err)
		}
		defer e.Close()
		e.gopts.Compression = rapid.SampledFrom([]repository.CompressionMode{repository.CompressionAuto, repository.CompressionAuto, repository.CompressionOff}).Draw(t, "compression")
		c.Compression = fmt.Sprint(e.gopts.Compression)
		e.gopts.PackSize = 4 // MiB: the smallest pack size restic accepts
		if err := e.Init(c.Version); err != nil {
			t.Fatal(err)
		}
		dec, err := vNewDecoderC11(e)
		if err != nil {
			t.Fatal(err)
		}
		c.Class = rapid.SampledFrom([]string{"small", "small", "big"}).Draw(t, "class")
		big := c.Class == "big"
		if rapid.IntRange(0, 2).Draw(t, "fullOverride") > 0 {
			c.FullAt = rapid.IntRange(1, 6).Draw(t, "fullAt")
		}
		vSetFullC11(origFull, c.FullAt)

		// pre-existing repository: 1-2 snapshots of small trees
		src := e.Scratch("src-")
		pre := map[string]vTree{}
		c.Pre = rapid.IntRange(1, 2).Draw(t, "pre")
		for i := 0; i < c.Pre; i++ {
			tr := vGenTree(t, vTreeGen{MaxEntries: 8, Symlinks: true})
			if err := vMaterializeC11(src, tr); err != nil {
				t.Fatal(err)
			}
			before := vSnapshotFilesC11(e.store)
			if err := e.Backup([]string{src}, BackupOptions{}); err != nil {
				t.Fatalf("setup backup: %v", err)
			}
			id := vNewID(before, vSnapshotFilesC11(e.store))
			if id == "" {
				t.Fatalf("setup backup %d created no snapshot", i)
			}
			pre[id] = tr
		}

		// the observed backup, recorded
		newModel := vGenNewTreeC11(t, c.Class)
		c.Tree = newModel.String()
		if err := vMaterializeC11(src, newModel); err != nil {
			t.Fatal(err)
		}
		c.Force = rapid.IntRange(0, 3).Draw(t, "force") == 0
		bopts := BackupOptions{Force: c.Force}
		base := e.store.Files()
		e.store.StartRecording(vbe.NoFaults())
		berr := e.Backup([]string{src}, bopts)
		log := e.store.StopRecording()
		if berr != nil {
			t.Fatalf("backup failed on a healthy backend: %v (case %s)", berr, vJSON(c))
		}

		// ORDERING INVARIANT on the recorded trace (independent decoder)
		ts, terr := vCheckTraceC11(dec, base, log, true)
		if terr != nil && os.Getenv("VERIF_C11_SKIP_TRACE") != "" {
			terr = nil // harness self-test: let the crash-state oracle alone decide
		}
		if terr != nil {
			t.Fatalf("ordering invariant violated: %v\nops:\n%scase %s", terr, vOpsStringC11(log), vJSON(c))
		}
		if ts.SnapshotsSaved != 1 {
			t.Fatalf("backup saved %d snapshot files\nops:\n%s", ts.SnapshotsSaved, vOpsStringC11(log))
		}
		nt := ts.PacksBeforeSnap >= 2 && ts.IndexesBeforeSnap >= 1 && len(log) >= 3
		key := ""
		if nt {
			key = vJSON(c) + e.store.Digest()[:16]
		}
		st.Case(key, "class="+c.Class, fmt.Sprintf("full_override=%v", c.FullAt > 0), "version="+c.Version,
			"packs_before_snapshot="+vBucketC11(ts.PacksBeforeSnap), "indexes_before_snapshot="+vBucketC11(ts.IndexesBeforeSnap))
		if st.WantSample() {
			var ops []string
			for _, op := range log {
				ops = append(ops, op.String())
			}
			st.Sample(map[string]any{"case": c, "ops": ops, "blobs_checked": ts.BlobsChecked})
		}

		// EVERY prefix of the log is a crash state
		flip := rapid.Bool().Draw(t, "pruneFirstFlip")
		for k := 0; k <= len(log); k++ {
			st.Evals(1)
			s := e.store.StateAt(k)
			hasSnap := len(vSnapshotFilesC11(s)) > len(pre)
			st.Class(fmt.Sprintf("crash_state_has_new_snapshot=%v", hasSnap))
			if err := vStateOracleC11(e, s, pre, newModel, src, (k%2 == 0) != flip); err != nil {
				t.Fatalf("crash after %d of %d backup operations (%s): %v\nops:\n%scase %s", k, len(log), vOpAtC11(log, k), err, vOpsStringC11(log), vJSON(c))
			}
		}

		// injected faults on fresh copies of the pre-backup state
		var ks []int
		if big {
			for i := 0; i < 3; i++ {
				ks = append(ks, rapid.IntRange(0, len(log)-1).Draw(t, "faultAt"))
			}
		} else {
			ks = vRange(len(log))
		}
		for _, k := range ks {
			mode := rapid.SampledFrom([]string{"failfrom", "failfrom+loads", "failonce", "failafterapply", "cancel", "window", "failone", "failone", "failone"}).Draw(t, "faultMode")
			fs := e.store.StateAt(0)
			fe := e.OnStore(fs)
			if mode == "failone" {
				// exactly one logical operation fails for good (an outage of one request that outlasts
				// the retry budget), everything after it works again: injected ABOVE the retry layer
				fe.gopts.BackendTestHook = func(be backend.Backend) (backend.Backend, error) {
					return &vFailOneC11{Backend: be, n: int64(k)}, nil
				}
			}
			f := vbe.NoFaults()
			ctx, cancel := context.WithCancel(context.Background())
			switch mode {
			case "failfrom":
				f.FailFrom = k
			case "failfrom+loads":
				f.FailFrom, f.FailLoadsToo = k, true
			case "failonce":
				f.FailOnce = map[int]bool{k: true}
			case "failafterapply":
				f.FailAfterApply = map[int]bool{k: true}
			case "cancel":
				f.CancelAt, f.Cancel = k, cancel
			case "window": // an outage longer than the retry budget that ends again
				f.FailOnce = map[int]bool{}
				w := rapid.IntRange(11, 40).Draw(t, "window")
				for i := k; i < k+w; i++ {
					f.FailOnce[i] = true
				}
			}
			fs.StartRecording(f)
			_, ferr := fe.BackupOut(ctx, fe.gopts, []string{src}, bopts)
			cancel()
			flog := fs.StopRecording()
			fe.Release()
			st.Evals(1)
			st.Class("fault="+mode, fmt.Sprintf("fault_err=%v", ferr != nil))
			desc := fmt.Sprintf("backup with fault %s at op %d (returned: %v)", mode, k, ferr)
			// the trace of the faulted run obeys the ordering invariant too
			if _, terr := vCheckTraceC11(dec, base, flog, true); terr != nil && os.Getenv("VERIF_C11_SKIP_TRACE") == "" {
				t.Fatalf("%s: ordering invariant violated: %v\nops:\n%scase %s", desc, terr, vOpsStringC11(flog), vJSON(c))
			}
			// a backup that reports success has stored its snapshot
			if ferr == nil && len(vSnapshotFilesC11(fs)) != len(pre)+1 {
				t.Fatalf("%s: success reported but %d snapshot files exist (want %d)\nops:\n%s", desc, len(vSnapshotFilesC11(fs)), len(pre)+1, vOpsStringC11(flog))
			}
			if err := vStateOracleC11(e, fs, pre, newModel, src, (k%2 == 1) != flip); err != nil {
				t.Fatalf("%s: %v\nops of the faulted run:\n%scase %s", desc, err, vOpsStringC11(flog), vJSON(c))
			}
		}
	})
}

// vFailOneC11 fails the n-th logical mutating operation (counted above the retry layer) permanently.
type vFailOneC11 struct {
	backend.Backend
	n, cnt int64
}

func (b *vFailOneC11) hit() bool { return atomic.AddInt64(&b.cnt, 1)-1 == b.n }

func (b *vFailOneC11) Save(ctx context.Context, h backend.Handle, rd backend.RewindReader) error {
	if b.hit() {
		return fmt.Errorf("injected: request failed beyond the retry budget (save %v)", h)
	}
	return b.Backend.Save(ctx, h, rd)
}

func (b *vFailOneC11) Remove(ctx context.Context, h backend.Handle) error {
	if b.hit() {
		return fmt.Errorf("injected: request failed beyond the retry budget (remove %v)", h)
	}
	return b.Backend.Remove(ctx, h)
}

func vBucketC11(n int) string {
	switch {
	case n < 0:
		return "none"
	case n <= 3:
		return fmt.Sprint(n)
	default:
		return "4+"
	}
}

func vOpAtC11(log []vbe.Op, k int) string {
	if k < len(log) {
		return "next: " + log[k].String()
	}
	return "complete"
}
