package main

// C53, second generator: snapshot pairs written through the repository API in which
// SEVERAL directories of one snapshot share ONE tree blob (identical non-empty trees
// under different names/paths). Real Unix backups never produce that inside one snapshot
// (inode numbers differ), `copy`/`rewrite`/other clients and platforms without inodes
// do. The oracle is the one of the main test: exact path/modifier set of the private
// diff of the two stored trees + statistics.

import (
	"context"
	"fmt"
	"os"
	"path"
	"sort"
	"strings"
	"testing"
	"time"

	"github.com/restic/restic/internal/data"
	"github.com/restic/restic/internal/repository"
	"github.com/restic/restic/internal/restic"
	"github.com/restic/restic/internal/verifkit"
	"pgregory.net/rapid"
)

// vSynC53 is a model node; directories own their children.
type vSynC53 struct {
	Name string
	Kind byte   // 'f', 'd', 'l'
	Data string // file content or link target
	Ver  int    // metadata version (mtime)
	Kids []*vSynC53
}

func (n *vSynC53) clone() *vSynC53 {
	c := *n
	c.Kids = nil
	for _, k := range n.Kids {
		c.Kids = append(c.Kids, k.clone())
	}
	return &c
}

func (n *vSynC53) kid(name string) *vSynC53 {
	for _, k := range n.Kids {
		if k.Name == name {
			return k
		}
	}
	return nil
}

func (n *vSynC53) String() string {
	switch n.Kind {
	case 'd':
		var ks []string
		kids := append([]*vSynC53{}, n.Kids...)
		sort.Slice(kids, func(i, j int) bool { return kids[i].Name < kids[j].Name })
		for _, k := range kids {
			ks = append(ks, k.String())
		}
		return fmt.Sprintf("%s.%d{%s}", n.Name, n.Ver, strings.Join(ks, " "))
	case 'l':
		return fmt.Sprintf("%s.%d->%s", n.Name, n.Ver, n.Data)
	}
	return fmt.Sprintf("%s.%d=%s", n.Name, n.Ver, n.Data)
}

// dirs lists all directories below (and including) n with their depth.
func (n *vSynC53) dirs(depth int, out *[]*vSynC53, depths map[*vSynC53]int) {
	*out = append(*out, n)
	depths[n] = depth
	for _, k := range n.Kids {
		if k.Kind == 'd' {
			k.dirs(depth+1, out, depths)
		}
	}
}

func vSynSaveC53(ctx context.Context, up restic.BlobSaver, n *vSynC53) (*data.Node, error) {
	ts := time.Unix(1600000000+int64(n.Ver)*3600, 0).UTC()
	node := &data.Node{Name: n.Name, ModTime: ts, AccessTime: ts, ChangeTime: ts, Links: 1}
	switch n.Kind {
	case 'f':
		node.Type = data.NodeTypeFile
		node.Mode = 0o644
		node.Size = uint64(len(n.Data))
		node.Content = restic.IDs{}
		if len(n.Data) > 0 {
			id, _, _, err := up.SaveBlob(ctx, restic.DataBlob, []byte(n.Data), restic.ID{}, false)
			if err != nil {
				return nil, err
			}
			node.Content = restic.IDs{id}
		}
	case 'l':
		node.Type = data.NodeTypeSymlink
		node.Mode = os.ModeSymlink | 0o777
		node.LinkTarget = n.Data
	case 'd':
		node.Type = data.NodeTypeDir
		node.Mode = os.ModeDir | 0o755
		node.Links = 0
		kids := append([]*vSynC53{}, n.Kids...)
		sort.Slice(kids, func(i, j int) bool { return kids[i].Name < kids[j].Name })
		tw := data.NewTreeWriter(up)
		for _, k := range kids {
			kn, err := vSynSaveC53(ctx, up, k)
			if err != nil {
				return nil, err
			}
			if err := tw.AddNode(kn); err != nil {
				return nil, err
			}
		}
		id, err := tw.Finalize(ctx)
		if err != nil {
			return nil, err
		}
		node.Subtree = &id
	}
	return node, nil
}

// vSynSnapshotC53 stores root as a snapshot and returns its id.
func vSynSnapshotC53(e *vEnv, root *vSynC53, at int64) (string, error) {
	var out string
	err := e.WithRepoRW(func(ctx context.Context, repo *repository.Repository) error {
		if err := repo.LoadIndex(ctx, restic.NoopTerminalCounterFactory); err != nil {
			return err
		}
		var tree restic.ID
		err := repo.WithBlobUploader(ctx, func(ctx context.Context, up restic.BlobSaverWithAsync) error {
			n, err := vSynSaveC53(ctx, up, root)
			if err != nil {
				return err
			}
			tree = *n.Subtree
			return nil
		})
		if err != nil {
			return err
		}
		sn := &data.Snapshot{Time: time.Unix(1700000000+at, 0).UTC(), Tree: &tree, Paths: []string{"/syn"}, Hostname: "vhost", Username: "u"}
		id, err := data.SaveSnapshot(ctx, repo, sn)
		if err != nil {
			return err
		}
		out = id.String()
		return nil
	})
	return out, err
}

type vSynGenC53 struct {
	t     *rapid.T
	kinds map[string]int
}

var vSynDataC53 = []string{"", "c1", "c2", "content three", "c4"}

func (g *vSynGenC53) leaf(name, label string) *vSynC53 {
	if rapid.IntRange(0, 5).Draw(g.t, label+"islink") == 0 {
		return &vSynC53{Name: name, Kind: 'l', Data: rapid.SampledFrom([]string{"a", "../b"}).Draw(g.t, label+"target"), Ver: rapid.IntRange(0, 1).Draw(g.t, label+"ver")}
	}
	return &vSynC53{Name: name, Kind: 'f', Data: rapid.SampledFrom(vSynDataC53).Draw(g.t, label+"data"), Ver: rapid.IntRange(0, 1).Draw(g.t, label+"ver")}
}

// dir draws a directory with up to maxKids children; nonEmpty forces a file.
func (g *vSynGenC53) dir(name, label string, depth, maxKids int, nonEmpty bool) *vSynC53 {
	d := &vSynC53{Name: name, Kind: 'd', Ver: rapid.IntRange(0, 1).Draw(g.t, label+"dver")}
	n := rapid.IntRange(0, maxKids).Draw(g.t, label+"n")
	if nonEmpty && n == 0 {
		n = 1
	}
	for i := 0; i < n; i++ {
		kn := rapid.SampledFrom(vNamesC53).Draw(g.t, label+"name")
		if d.kid(kn) != nil {
			continue
		}
		if depth < 2 && rapid.IntRange(0, 3).Draw(g.t, label+"isdir") == 0 {
			d.Kids = append(d.Kids, g.dir(kn, label+"s", depth+1, 3, false))
		} else {
			d.Kids = append(d.Kids, g.leaf(kn, label+"l"))
		}
	}
	if nonEmpty && len(d.Kids) == 0 {
		d.Kids = append(d.Kids, g.leaf("f", label+"force"))
	}
	return d
}

func (g *vSynGenC53) freeName(d *vSynC53, label string) (string, bool) {
	for try := 0; try < 5; try++ {
		n := rapid.SampledFrom(append([]string{"new", "n2", "zz"}, vNamesC53...)).Draw(g.t, label+"free")
		if d.kid(n) == nil {
			return n, true
		}
	}
	return "", false
}

// twinDir builds a directory holding 2-3 clones of tpl under different names (identical
// trees), optionally one level deeper and with further entries.
func (g *vSynGenC53) twinDir(name string, tpl *vSynC53, label string) *vSynC53 {
	d := &vSynC53{Name: name, Kind: 'd', Ver: rapid.IntRange(0, 1).Draw(g.t, label+"ver")}
	holder := d
	if rapid.IntRange(0, 2).Draw(g.t, label+"deeper") == 0 {
		holder = &vSynC53{Name: rapid.SampledFrom(vNamesC53).Draw(g.t, label+"mid"), Kind: 'd'}
		d.Kids = append(d.Kids, holder)
	}
	k := rapid.IntRange(2, 3).Draw(g.t, label+"twins")
	for i := 0; i < k; i++ {
		if n, ok := g.freeName(holder, fmt.Sprintf("%st%d", label, i)); ok {
			c := tpl.clone()
			c.Name = n
			if rapid.IntRange(0, 3).Draw(g.t, label+"twinmeta") == 0 {
				c.Ver = 1 - tpl.Ver // same tree, other directory metadata
			}
			holder.Kids = append(holder.Kids, c)
		}
	}
	for i, n := 0, rapid.IntRange(0, 2).Draw(g.t, label+"extra"); i < n; i++ {
		if nm, ok := g.freeName(holder, fmt.Sprintf("%sx%d", label, i)); ok {
			holder.Kids = append(holder.Kids, g.leaf(nm, label+"xl"))
		}
	}
	return d
}

// edit applies one drawn edit to the second snapshot's model.
func (g *vSynGenC53) edit(root *vSynC53, tpl *vSynC53, i int) string {
	l := fmt.Sprintf("e%d", i)
	var ds []*vSynC53
	depths := map[*vSynC53]int{}
	root.dirs(0, &ds, depths)
	kind := rapid.SampledFrom([]string{"add-twin-dir", "add-twin-dir", "file-to-twin-dir", "duplicate-dir", "remove", "change-file", "touch", "add-leaf"}).Draw(g.t, l+"kind")
	var shallow []*vSynC53
	for _, d := range ds {
		if depths[d] <= 1 {
			shallow = append(shallow, d)
		}
	}
	d := rapid.SampledFrom(shallow).Draw(g.t, l+"where")
	switch kind {
	case "add-twin-dir":
		if n, ok := g.freeName(d, l); ok {
			d.Kids = append(d.Kids, g.twinDir(n, tpl, l))
			g.kinds[kind]++
			return kind + " " + n
		}
	case "file-to-twin-dir":
		for j, k := range d.Kids {
			if k.Kind != 'd' {
				d.Kids[j] = g.twinDir(k.Name, tpl, l)
				g.kinds[kind]++
				return kind + " " + k.Name
			}
		}
	case "duplicate-dir":
		// a new sibling with the tree of an existing (possibly unchanged) directory
		all := rapid.SampledFrom(ds).Draw(g.t, l+"parent")
		for _, k := range all.Kids {
			if k.Kind == 'd' && len(k.Kids) > 0 {
				if n, ok := g.freeName(all, l+"dup"); ok {
					c := k.clone()
					c.Name = n
					all.Kids = append(all.Kids, c)
					g.kinds[kind]++
					return kind + " " + k.Name + " as " + n
				}
			}
		}
	case "remove":
		if len(d.Kids) > 0 {
			j := rapid.IntRange(0, len(d.Kids)-1).Draw(g.t, l+"victim")
			n := d.Kids[j].Name
			d.Kids = append(d.Kids[:j:j], d.Kids[j+1:]...)
			g.kinds[kind]++
			return kind + " " + n
		}
	case "change-file":
		for _, k := range d.Kids {
			if k.Kind == 'f' {
				k.Data += "!"
				g.kinds[kind]++
				return kind + " " + k.Name
			}
		}
	case "touch":
		if len(d.Kids) > 0 {
			k := d.Kids[rapid.IntRange(0, len(d.Kids)-1).Draw(g.t, l+"target")]
			k.Ver += 2
			g.kinds[kind]++
			return kind + " " + k.Name
		}
	case "add-leaf":
		if n, ok := g.freeName(d, l); ok {
			d.Kids = append(d.Kids, g.leaf(n, l+"leaf"))
			g.kinds[kind]++
			return kind + " " + n
		}
	}
	return ""
}

// vTwinClassesC53 classifies a pair by the stored trees: is there, on one side, a
// non-empty directory p that exists only there (absent or not a directory on the other
// side), whose parent is also only there, and whose tree ID also belongs to another
// directory of the same snapshot?
func vTwinClassesC53(a, b *vStoredC53) (twinInside, twinAlsoUnchanged, belowTypeChange bool) {
	for _, pair := range [][2]*vStoredC53{{a, b}, {b, a}} {
		s, o := pair[0], pair[1]
		only := func(p string) bool {
			_, isDir := s.SubtreeOf[p]
			_, otherDir := o.SubtreeOf[p]
			return isDir && !otherDir
		}
		byID := map[restic.ID][]string{}
		for p, id := range s.SubtreeOf {
			byID[id] = append(byID[id], p)
		}
		for p, id := range s.SubtreeOf {
			par := path.Dir(p)
			if par == "/" || !only(p) || !only(par) || len(byID[id]) < 2 {
				continue
			}
			nonEmpty := false
			for q := range s.Nodes {
				if path.Dir(q) == p {
					nonEmpty = true
					break
				}
			}
			if !nonEmpty {
				continue
			}
			twinInside = true
			for _, q := range byID[id] {
				if oid, ok := o.SubtreeOf[q]; ok && oid == id {
					twinAlsoUnchanged = true
				}
			}
			for q := par; q != "/" && q != "."; q = path.Dir(q) {
				if n := o.Nodes[q]; n != nil && n.Type != data.NodeTypeDir {
					belowTypeChange = true
				}
			}
		}
	}
	return
}

func TestVerifC53SharedSubtrees(t *testing.T) {
	vSetup(t)
	st := verifkit.Begin(t, "C53")

	rapid.Check(t, func(t *rapid.T) {
		e, err := vNewEnv(true)
		if err != nil {
			t.Fatal(err)
		}
		defer e.Close()
		if err := e.Init("2"); err != nil {
			t.Fatal(err)
		}
		for pairNo := 0; pairNo < 3; pairNo++ {
			g := &vSynGenC53{t: t, kinds: map[string]int{}}
			rootA := g.dir("", "base", 0, 5, false)
			tpl := g.dir("tpl", "tpl", 1, 3, true)
			// the twin tree may also occur in the part that does not change
			if rapid.IntRange(0, 2).Draw(t, "tpl-in-base") == 0 {
				var ds []*vSynC53
				rootA.dirs(0, &ds, map[*vSynC53]int{})
				d := rapid.SampledFrom(ds).Draw(t, "tpl-where")
				if n, ok := g.freeName(d, "tplbase"); ok {
					c := tpl.clone()
					c.Name = n
					d.Kids = append(d.Kids, c)
				}
			}
			rootB := rootA.clone()
			var log []string
			for i, n := 0, rapid.IntRange(1, 3).Draw(t, "edits"); i < n; i++ {
				if s := g.edit(rootB, tpl, i); s != "" {
					log = append(log, s)
				}
			}
			idA, err := vSynSnapshotC53(e, rootA, int64(pairNo*2))
			if err != nil {
				t.Fatalf("harness: %v", err)
			}
			idB, err := vSynSnapshotC53(e, rootB, int64(pairNo*2+1))
			if err != nil {
				t.Fatalf("harness: %v", err)
			}
			sa, err := vLoadStoredC53(e, idA, "")
			if err != nil {
				t.Fatal(err)
			}
			sb, err := vLoadStoredC53(e, idB, "")
			if err != nil {
				t.Fatal(err)
			}
			twin, twinUnchanged, belowType := vTwinClassesC53(sa, sb)
			metadata := rapid.Bool().Draw(t, "metadata")
			for _, dir := range [][2]string{{idA, idB}, {idB, idA}} {
				a, b := sa, sb
				if dir[0] == idB {
					a, b = sb, sa
				}
				got, err := vRunDiffC53(e, dir[0], dir[1], metadata)
				if err != nil {
					t.Fatalf("%v\nA: %s\nB: %s", err, rootA, rootB)
				}
				dev, _, nDirType := vCompareC53(a, b, got, metadata)
				classes := []string{"generator=shared-subtrees", fmt.Sprintf("added-or-removed-dir-with-twin-subtrees=%v", twin),
					fmt.Sprintf("twin-subtree-also-in-unchanged-part=%v", twinUnchanged), fmt.Sprintf("twin-subtrees-below-type-change=%v", belowType),
					fmt.Sprintf("syn-dir-nondir-type-change=%v", nDirType > 0), fmt.Sprintf("syn-direction-removed=%v", dir[0] == idB)}
				for k := range g.kinds {
					classes = append(classes, "syn-edit="+k)
				}
				key := ""
				if twin {
					key = rootA.String() + "|" + rootB.String() + "|" + dir[0][:1] + fmt.Sprint(metadata, dir[0] == idB)
				}
				st.Case(key, classes...)
				if key != "" && st.WantSample() {
					st.Sample(map[string]any{"generator": "shared-subtrees", "A": rootA.String(), "B": rootB.String(), "edits": log, "diff": vSortedLinesC53(got.Lines)})
				}
				if dev != "" {
					t.Fatalf("diff (metadata=%v, removed-direction=%v) of API-written snapshots with shared subtrees deviates from the reference diff of the stored trees:\n  %s\nreported:\n  %s\nA: %s\nB: %s\nedits: %v",
						metadata, dir[0] == idB, dev, strings.Join(vSortedLinesC53(got.Lines), "\n  "), rootA, rootB, log)
				}
			}
		}
	})
}
