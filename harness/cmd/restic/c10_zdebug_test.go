package main

import (
	"fmt"
	"testing"

	"github.com/restic/restic/internal/backend"
)

func TestVerifC10Debug(t *testing.T) {
	vSetup(t)
	e, _ := vNewEnv(true)
	defer e.Close()
	if err := e.Init("2"); err != nil {
		t.Fatal(err)
	}
	key, _ := vKeyC10(e)
	for i := 0; i < 3; i++ {
		err := vSaveSynthC10(e, []vSynthSnapC10{{Tag: fmt.Sprint("a", i), Root: []uint64{uint64(10 + i)}}, {Tag: fmt.Sprint("b", i), Root: []uint64{uint64(20 + i)}}})
		fmt.Println("synth", err, "packs", len(e.store.Keys(backend.PackFile)), "idx", len(e.store.Keys(backend.IndexFile)), "snaps", len(e.store.Keys(backend.SnapshotFile)))
	}
	v, err := vTakeViewC10(e, key)
	fmt.Println(err, len(v.ents), len(v.reach), len(v.packs))
}
