package main

// C54: stats --mode restore-size reports what a restore would write.
//
// Real file system trees with hard-link groups (within and across directories, up to 5
// links, some with a further link outside the backup), empty files, symlinks (also
// hard-linked ones), 1-3 snapshots with edits in between. `runStats` in JSON mode is
// compared with (1) the model of the file system at backup time and (2) an actual
// restore of the selected snapshots measured with lstat (entries, bytes of distinct
// inodes).

import (
	"context"
	"encoding/json"
	"fmt"
	"os"
	"path"
	"path/filepath"
	"sort"
	"strings"
	"sync"
	"syscall"
	"testing"

	"github.com/restic/restic/internal/global"
	"github.com/restic/restic/internal/verifkit"
	"golang.org/x/sys/unix"
	"pgregory.net/rapid"
)

// vFSC54 is the model of the source tree: relative path -> entry. Regular files carry
// an inode number of the MODEL (entries with the same number are hard links).
type vEntC54 struct {
	Kind  byte // 'f', 'd', 'l'
	Inode int
}

type vFSC54 struct {
	t       *rapid.T
	root    string // backed up
	outside string // never backed up (holds further links)
	ents    map[string]*vEntC54
	size    map[int]int // model inode -> size
	nextIno int
	log     []string
	flags   map[string]bool
	mounts  []string // tmpfs mounts below root (two further devices), unmounted at the end of the case
}

// unmount detaches the tmpfs mounts of the case (lazily, so that a busy mount cannot keep the
// scratch directory from being removed).
func (m *vFSC54) unmount() {
	for _, p := range m.mounts {
		_ = unix.Unmount(p, unix.MNT_DETACH)
	}
	m.mounts = nil
}

var vTmpfsProbeC54 struct {
	once sync.Once
	ok   bool
}

// vTmpfsOKC54 reports whether this process may mount a tmpfs (root in the sandbox may).
func vTmpfsOKC54(dir string) bool {
	vTmpfsProbeC54.once.Do(func() {
		p := filepath.Join(dir, "tmpfs-probe")
		if os.Mkdir(p, 0o755) != nil {
			return
		}
		defer os.Remove(p)
		if unix.Mount("none", p, "tmpfs", 0, "size=1m") == nil {
			vTmpfsProbeC54.ok = true
			_ = unix.Unmount(p, unix.MNT_DETACH)
		}
	})
	return vTmpfsProbeC54.ok
}

// twoDevices mounts two small tmpfs file systems below the root, each with one hard-link group
// of two names. The first file created on a fresh tmpfs gets the same inode number on both, so
// the snapshot holds two different hard-linked files with equal inode numbers on different
// devices - a restore writes both.
func (m *vFSC54) twoDevices() {
	var inos []uint64
	var devs []uint64
	for i, d := range []string{"xa", "xb"} {
		m.fail(os.Mkdir(m.full(d), 0o755))
		m.ents[d] = &vEntC54{Kind: 'D'}
		if err := unix.Mount("none", m.full(d), "tmpfs", 0, "size=1m"); err != nil {
			// the probe succeeded but this mount did not (mount limit, namespace change): go on
			// with plain directories on the one device, the case is then an ordinary one
			m.flags["tmpfs-mount-failed-later"] = true
		} else {
			m.mounts = append(m.mounts, m.full(d))
		}
		m.nextIno++
		ino := m.nextIno
		m.size[ino] = 300 + 1000*i + rapid.IntRange(0, 500).Draw(m.t, "devsize")
		m.fail(os.WriteFile(m.full(d+"/f"), m.content(ino, m.size[ino]), 0o644))
		m.fail(os.Link(m.full(d+"/f"), m.full(d+"/g")))
		m.ents[d+"/f"] = &vEntC54{Kind: 'F', Inode: ino}
		m.ents[d+"/g"] = &vEntC54{Kind: 'F', Inode: ino}
		var st unix.Stat_t
		m.fail(unix.Lstat(m.full(d+"/f"), &st))
		inos, devs = append(inos, st.Ino), append(devs, uint64(st.Dev))
		m.log = append(m.log, fmt.Sprintf("tmpfs %s: f,g ino=%d (fs inode %d dev %d) size=%d", d, ino, st.Ino, st.Dev, m.size[ino]))
	}
	if inos[0] == inos[1] && devs[0] != devs[1] {
		m.flags["two-devices-same-inode-number"] = true
	} else {
		m.flags["two-devices-other-inode-numbers"] = true
	}
}

var vDirsC54 = []string{"", "d1", "d2", "d1/s", "d2/t"}
var vFileNamesC54 = []string{"f0", "f1", "f2", "f3", "g.dat", "h.txt", "k", "m", "n", "empty"}

func (m *vFSC54) fail(err error) {
	if err != nil {
		m.t.Fatalf("harness: %v (log %v)", err, m.log)
	}
}

func (m *vFSC54) full(p string) string { return filepath.Join(m.root, filepath.FromSlash(p)) }

func (m *vFSC54) dirs() []string {
	out := []string{""}
	for p, e := range m.ents {
		if e.Kind == 'd' {
			out = append(out, p)
		}
	}
	sort.Strings(out)
	return out
}

func (m *vFSC54) freePath(label string) (string, bool) {
	ds := m.dirs()
	for try := 0; try < 5; try++ {
		d := rapid.SampledFrom(ds).Draw(m.t, label+"dir")
		n := rapid.SampledFrom(vFileNamesC54).Draw(m.t, label+"name")
		p := n
		if d != "" {
			p = d + "/" + n
		}
		if _, ok := m.ents[p]; !ok {
			return p, true
		}
	}
	return "", false
}

func (m *vFSC54) content(ino, size int) []byte {
	return vContent(&vNode{Seed: uint64(ino)*977 + uint64(size), Len: size})
}

func (m *vFSC54) drawSize(label string) int {
	return rapid.OneOf(rapid.Just(0), rapid.IntRange(1, 200), rapid.IntRange(1, 5000)).Draw(m.t, label)
}

// newFile creates a regular file with a fresh inode.
func (m *vFSC54) newFile(label string) (string, bool) {
	p, ok := m.freePath(label)
	if !ok {
		return "", false
	}
	m.nextIno++
	ino := m.nextIno
	m.size[ino] = m.drawSize(label + "size")
	m.fail(os.WriteFile(m.full(p), m.content(ino, m.size[ino]), 0o644))
	m.ents[p] = &vEntC54{Kind: 'f', Inode: ino}
	m.log = append(m.log, fmt.Sprintf("file %s ino=%d size=%d", p, ino, m.size[ino]))
	return p, true
}

func (m *vFSC54) link(from, label string) bool {
	p, ok := m.freePath(label)
	if !ok {
		return false
	}
	m.fail(os.Link(m.full(from), m.full(p)))
	e := *m.ents[from]
	m.ents[p] = &e
	m.log = append(m.log, fmt.Sprintf("link %s -> %s", p, from))
	return true
}

func (m *vFSC54) pickFile(label string, pred func(p string, links int) bool) (string, bool) {
	links := map[int]int{}
	for _, e := range m.ents {
		if e.Kind == 'f' {
			links[e.Inode]++
		}
	}
	var c []string
	for p, e := range m.ents {
		if e.Kind == 'f' && pred(p, links[e.Inode]) {
			c = append(c, p)
		}
	}
	if len(c) == 0 {
		return "", false
	}
	sort.Strings(c)
	return rapid.SampledFrom(c).Draw(m.t, label), true
}

// group creates a hard-link group with k links.
func (m *vFSC54) group(label string, k int) {
	first, ok := m.newFile(label)
	if !ok {
		return
	}
	for i := 1; i < k; i++ {
		m.link(first, fmt.Sprintf("%sl%d", label, i))
	}
	if rapid.IntRange(0, 3).Draw(m.t, label+"outside") == 0 {
		// a further link that is not part of the backup
		m.fail(os.Link(m.full(first), filepath.Join(m.outside, fmt.Sprintf("o%d", m.ents[first].Inode))))
		m.log = append(m.log, "outside link of "+first)
		m.flags["link-outside-backup"] = true
	}
}

func (m *vFSC54) initial() {
	nd := rapid.IntRange(0, len(vDirsC54)-1).Draw(m.t, "ndirs")
	for _, d := range vDirsC54[1 : nd+1] {
		m.fail(os.MkdirAll(m.full(d), 0o755))
		for q := d; q != "." && q != ""; q = path.Dir(q) {
			m.ents[q] = &vEntC54{Kind: 'd'}
		}
	}
	for i, n := 0, rapid.IntRange(0, 4).Draw(m.t, "nsingle"); i < n; i++ {
		m.newFile(fmt.Sprintf("s%d", i))
	}
	for i, n := 0, rapid.IntRange(1, 3).Draw(m.t, "ngroups"); i < n; i++ {
		m.group(fmt.Sprintf("g%d", i), rapid.SampledFrom([]int{2, 3, 3, 4, 5}).Draw(m.t, "glinks"))
	}
	if rapid.Bool().Draw(m.t, "symlinks") {
		if p, ok := m.freePath("sl"); ok {
			m.fail(os.Symlink("f0", m.full(p)))
			m.ents[p] = &vEntC54{Kind: 'l'}
			if rapid.Bool().Draw(m.t, "hardlinked-symlink") {
				if q, ok := m.freePath("sl2"); ok {
					m.fail(os.Link(m.full(p), m.full(q)))
					m.ents[q] = &vEntC54{Kind: 'l'}
					m.log = append(m.log, "hard-linked symlink "+p+" "+q)
					m.flags["hard-linked-symlink"] = true
				}
			}
		}
	}
}

// edit changes the tree between two snapshots.
func (m *vFSC54) edit(i int) {
	l := fmt.Sprintf("e%d", i)
	kind := rapid.SampledFrom([]string{"add-link", "remove-path", "resize", "new-file", "new-group", "break-link"}).Draw(m.t, l+"kind")
	m.flags["edit="+kind] = true
	switch kind {
	case "add-link":
		if p, ok := m.pickFile(l+"from", func(string, int) bool { return true }); ok {
			m.link(p, l)
		}
	case "remove-path":
		if p, ok := m.pickFile(l+"victim", func(string, int) bool { return true }); ok {
			m.fail(os.Remove(m.full(p)))
			delete(m.ents, p)
			m.log = append(m.log, "remove "+p)
		}
	case "resize":
		// writing through one name changes the file behind all names of the inode
		if p, ok := m.pickFile(l+"target", func(string, int) bool { return true }); ok {
			ino := m.ents[p].Inode
			m.size[ino] = m.drawSize(l + "size")
			m.fail(os.WriteFile(m.full(p), m.content(ino+1000, m.size[ino]), 0o644))
			m.log = append(m.log, fmt.Sprintf("resize %s ino=%d size=%d", p, ino, m.size[ino]))
		}
	case "new-file":
		m.newFile(l)
	case "new-group":
		m.group(l, rapid.IntRange(2, 4).Draw(m.t, l+"links"))
	case "break-link":
		// replace one name of a group by an independent copy with the same content
		if p, ok := m.pickFile(l+"target", func(_ string, links int) bool { return links >= 2 }); ok {
			old := m.ents[p].Inode
			buf, err := os.ReadFile(m.full(p))
			m.fail(err)
			m.fail(os.Remove(m.full(p)))
			m.fail(os.WriteFile(m.full(p), buf, 0o644))
			m.nextIno++
			m.size[m.nextIno] = m.size[old]
			m.ents[p] = &vEntC54{Kind: 'f', Inode: m.nextIno}
			m.log = append(m.log, fmt.Sprintf("break-link %s (ino %d -> %d)", p, old, m.nextIno))
		}
	}
}

// vSnapModelC54 is what one snapshot holds according to the model.
type vSnapModelC54 struct {
	ID        string
	Entries   int // all entries incl. the directories leading to the targets
	Bytes     uint64
	MaxLinks  int // largest number of names of one inode inside the snapshot
	Groups    int // inodes with >= 2 names inside the snapshot
	EmptyFile bool
	Crossdir  bool // a group spans directories
}

func (m *vFSC54) snapshotModel(targets []string) vSnapModelC54 {
	// targets are relative to root ("" = root itself)
	in := func(p string) bool {
		for _, t := range targets {
			if t == "" || p == t || strings.HasPrefix(p, t+"/") {
				return true
			}
		}
		return false
	}
	paths := map[string]bool{}
	addAncestors := func(abs string) {
		for q := abs; q != "/" && q != "."; q = path.Dir(q) {
			paths[q] = true
		}
	}
	rootAbs := filepath.ToSlash(m.root)
	for _, t := range targets {
		addAncestors(path.Join(rootAbs, t))
	}
	var s vSnapModelC54
	names := map[int][]string{}
	for p, e := range m.ents {
		if !in(p) {
			continue
		}
		paths[path.Join(rootAbs, p)] = true
		if e.Kind == 'f' || e.Kind == 'F' { // 'F': regular file on one of the tmpfs devices (never edited)
			names[e.Inode] = append(names[e.Inode], p)
		}
	}
	s.Entries = len(paths)
	for ino, ns := range names {
		s.Bytes += uint64(m.size[ino])
		if m.size[ino] == 0 {
			s.EmptyFile = true
		}
		if len(ns) > s.MaxLinks {
			s.MaxLinks = len(ns)
		}
		if len(ns) >= 2 {
			s.Groups++
			for _, n := range ns[1:] {
				if path.Dir(n) != path.Dir(ns[0]) {
					s.Crossdir = true
				}
			}
		}
	}
	return s
}

// vMeasureRestoreC54 restores a snapshot and measures what was written: number of
// entries below the target and the bytes of the distinct regular-file inodes.
func vMeasureRestoreC54(e *vEnv, id string) (entries int, bytes uint64, err error) {
	target := e.Scratch("restore-")
	defer os.RemoveAll(target)
	if err := e.Restore(id, target, RestoreOptions{}); err != nil {
		return 0, 0, fmt.Errorf("restore %s: %w", id[:8], err)
	}
	type key struct{ dev, ino uint64 }
	seen := map[key]bool{}
	err = filepath.Walk(target, func(p string, fi os.FileInfo, err error) error {
		if err != nil {
			return err
		}
		if p == target {
			return nil
		}
		entries++
		if fi.Mode().IsRegular() {
			st := fi.Sys().(*syscall.Stat_t)
			k := key{uint64(st.Dev), st.Ino}
			if !seen[k] {
				seen[k] = true
				bytes += uint64(fi.Size())
			}
		}
		return nil
	})
	return entries, bytes, err
}

type vStatsOutC54 struct {
	TotalSize      uint64 `json:"total_size"`
	TotalFileCount uint64 `json:"total_file_count"`
	SnapshotsCount int    `json:"snapshots_count"`
}

func vRunStatsC54(e *vEnv, args []string) (vStatsOutC54, error) {
	var r vStatsOutC54
	g := e.gopts
	g.JSON = true
	g.Quiet = false
	out, err := e.call(g, func(ctx context.Context, gopts global.Options) error {
		return runStats(ctx, StatsOptions{countMode: countModeRestoreSize}, gopts, args, gopts.Term)
	})
	if err != nil {
		return r, fmt.Errorf("stats: %v\n%s%s", err, out.Stdout, out.Stderr)
	}
	lines := strings.Split(strings.TrimSpace(out.Stdout), "\n")
	if err := json.Unmarshal([]byte(lines[len(lines)-1]), &r); err != nil {
		return r, fmt.Errorf("stats output %q: %v", out.Stdout, err)
	}
	return r, nil
}

func TestVerifC54StatsRestoreSize(t *testing.T) {
	vSetup(t)
	st := verifkit.Begin(t, "C54")

	rapid.Check(t, func(t *rapid.T) {
		e, err := vNewEnv(true)
		if err != nil {
			t.Fatal(err)
		}
		defer e.Close()
		if err := e.Init("2"); err != nil {
			t.Fatal(err)
		}
		m := &vFSC54{t: t, root: e.Scratch("root-"), outside: e.Scratch("outside-"), ents: map[string]*vEntC54{}, size: map[int]int{}, flags: map[string]bool{}}
		defer m.unmount()
		m.initial()
		if rapid.IntRange(0, 2).Draw(t, "twodevices") == 0 {
			if vTmpfsOKC54(e.base) {
				m.twoDevices()
			} else {
				m.flags["tmpfs-mount-not-permitted"] = true
			}
		}

		nSnap := rapid.SampledFrom([]int{1, 2, 2, 3, 3}).Draw(t, "snapshots")
		var snaps []vSnapModelC54
		for i := 0; i < nSnap; i++ {
			if i > 0 {
				for j, n := 0, rapid.IntRange(0, 3).Draw(t, "nedits"); j < n; j++ {
					m.edit(i*10 + j)
				}
			}
			// the whole root, or two of its directories as separate targets
			targets := []string{""}
			if _, ok1 := m.ents["d1"]; ok1 {
				if _, ok2 := m.ents["d2"]; ok2 && rapid.IntRange(0, 3).Draw(t, "split-targets") == 0 {
					targets = []string{"d1", "d2"}
					m.flags["split-targets"] = true
				}
			}
			var abs []string
			for _, tg := range targets {
				abs = append(abs, m.full(tg))
			}
			before, _ := e.SnapshotIDs()
			if err := e.Backup(abs, BackupOptions{Force: rapid.Bool().Draw(t, "force")}); err != nil {
				t.Fatalf("backup: %v (log %v)", err, m.log)
			}
			after, _ := e.SnapshotIDs()
			sm := m.snapshotModel(targets)
			sm.ID = vNewID(before, after)
			if sm.ID == "" {
				t.Fatalf("no new snapshot")
			}
			snaps = append(snaps, sm)
			m.log = append(m.log, fmt.Sprintf("snapshot %d targets=%v", i, targets))
		}

		// selection
		sel := rapid.SampledFrom([]string{"all", "all", "ids", "ids", "latest"}).Draw(t, "selection")
		var args []string
		var chosen []vSnapModelC54
		switch sel {
		case "all":
			chosen = snaps
		case "latest":
			args = []string{"latest"}
			chosen = snaps[len(snaps)-1:]
		case "ids":
			k := rapid.IntRange(1, len(snaps)).Draw(t, "nids")
			perm := rapid.Permutation(vRange(len(snaps))).Draw(t, "idperm")
			for _, i := range perm[:k] {
				args = append(args, snaps[i].ID[:rapid.IntRange(10, 64).Draw(t, "idlen")])
				chosen = append(chosen, snaps[i])
			}
		}

		got, err := vRunStatsC54(e, args)
		if err != nil {
			t.Fatal(err)
		}

		var wantEntries int
		var wantBytes uint64
		var restEntries int
		var restBytes uint64
		maxLinks, groups := 0, 0
		empty, cross := false, false
		for _, s := range chosen {
			wantEntries += s.Entries
			wantBytes += s.Bytes
			n, b, err := vMeasureRestoreC54(e, s.ID)
			if err != nil {
				t.Fatal(err)
			}
			restEntries += n
			restBytes += b
			maxLinks = max(maxLinks, s.MaxLinks)
			groups += s.Groups
			empty = empty || s.EmptyFile
			cross = cross || s.Crossdir
		}

		key := ""
		if maxLinks >= 3 {
			key = fmt.Sprintf("%v|%v|%s", m.log, args, sel)
		}
		var fl []string
		for f := range m.flags {
			fl = append(fl, f)
		}
		sort.Strings(fl)
		st.Class(fl...)
		st.Case(key, "selection="+sel, fmt.Sprintf("snapshots=%d", len(chosen)), fmt.Sprintf("max-links=%d", min(maxLinks, 5)),
			fmt.Sprintf("groups>=2:%v", groups >= 2), fmt.Sprintf("empty-file=%v", empty), fmt.Sprintf("cross-directory-group=%v", cross),
			fmt.Sprintf("no-group=%v", groups == 0))
		if key != "" && st.WantSample() {
			st.Sample(map[string]any{"log": m.log, "selection": sel, "stats": got, "model_entries": wantEntries, "model_bytes": wantBytes})
		}

		desc := fmt.Sprintf("stats --mode restore-size %v (selection %s, %d snapshots)\nhistory: %s", args, sel, len(chosen), strings.Join(m.log, "; "))
		if got.SnapshotsCount != len(chosen) {
			t.Fatalf("%s\nsnapshots_count=%d, want %d", desc, got.SnapshotsCount, len(chosen))
		}
		// the harness' own two measurements agree (else the model is wrong, not restic's stats)
		if restEntries != wantEntries || restBytes != wantBytes {
			t.Fatalf("%s\nrestore measured %d entries / %d bytes, the model says %d / %d (restore or harness problem)", desc, restEntries, restBytes, wantEntries, wantBytes)
		}
		if got.TotalFileCount != uint64(wantEntries) {
			t.Fatalf("%s\ntotal_file_count=%d, the snapshots hold %d entries (restore created %d)", desc, got.TotalFileCount, wantEntries, restEntries)
		}
		if got.TotalSize != wantBytes {
			t.Fatalf("%s\ntotal_size=%d, a restore writes %d bytes (model: %d, hard links counted once per snapshot)", desc, got.TotalSize, restBytes, wantBytes)
		}
	})
}
