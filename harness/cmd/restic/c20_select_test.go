package main

// Property C20: restore includes/excludes and --delete select exactly the matching paths.
//
// The reference below is written from the user documentation only:
//
//   doc/040_backup.rst "Excluding files":
//     * patterns use the filepath.Match syntax per path component, plus the component
//       "**" which stands for any number of components (including none);
//     * patterns must match complete path components; a pattern that is not anchored
//       with a leading "/" matches at any depth; a trailing "/" is ignored;
//     * a match on a directory covers everything inside it ("/bin matches /bin/bash");
//     * a pattern starting with "!" cancels the match of an earlier pattern; once a
//       directory is excluded nothing inside it can be included again;
//   doc/050_restore.rst:
//     * --include restores the matching items (and the directories needed to hold
//       them), --exclude restores everything else; --iinclude/--iexclude ignore case;
//     * --delete removes the files of the target that do not exist in the snapshot;
//       with --include/--exclude only items matched by those options are deleted.

import (
	"fmt"
	"os"
	"path"
	"path/filepath"
	"sort"
	"strings"
	"testing"

	"github.com/restic/restic/internal/filter"
	"github.com/restic/restic/internal/verifkit"
	"pgregory.net/rapid"
)

const (
	vKeyAC20 = "C20:delete-skips-dirs-without-selected-snapshot-child"
	vKeyCC20 = "C20:delete-skips-selected-entries-in-unselected-stale-dirs"
)

// ---------------------------------------------------------------------------
// reference matcher

// refFullC20 matches the pattern components against exactly these path components.
func refFullC20(pat, comps []string) bool {
	if len(pat) == 0 {
		return len(comps) == 0
	}
	if pat[0] == "**" {
		for j := 0; j <= len(comps); j++ {
			if refFullC20(pat[1:], comps[j:]) {
				return true
			}
		}
		return false
	}
	if len(comps) == 0 {
		return false
	}
	ok, err := filepath.Match(pat[0], comps[0])
	if err != nil || !ok {
		return false
	}
	return refFullC20(pat[1:], comps[1:])
}

// refMatchC20: does one (non-negated) pattern cover the absolute path p?
func refMatchC20(pattern, p string) bool {
	anchored := strings.HasPrefix(pattern, "/")
	pattern = strings.Trim(pattern, "/")
	pat := strings.Split(pattern, "/")
	comps := strings.Split(strings.Trim(p, "/"), "/")
	// a match on the item itself or on one of the directories it lives in
	for k := 1; k <= len(comps); k++ {
		if anchored {
			if refFullC20(pat, comps[:k]) {
				return true
			}
			continue
		}
		for s := 0; s < k; s++ {
			if refFullC20(pat, comps[s:k]) {
				return true
			}
		}
	}
	return false
}

// refListC20 folds a pattern list: later "!" patterns cancel earlier matches.
func refListC20(patterns []string, p string) bool {
	matched := false
	for _, pt := range patterns {
		if strings.HasPrefix(pt, "!") {
			if refMatchC20(pt[1:], p) {
				matched = false
			}
			continue
		}
		if refMatchC20(pt, p) {
			matched = true
		}
	}
	return matched
}

// vSelC20 is one restore selection as given on the command line.
type vSelC20 struct {
	Include bool     `json:"include"` // false: exclude mode
	Sens    []string `json:"patterns"`
	Insens  []string `json:"ipatterns"`
}

func vLowerAllC20(l []string) []string {
	out := make([]string, len(l))
	for i, s := range l {
		out[i] = strings.ToLower(s)
	}
	return out
}

// hit: does the option set match p (each option list is a pattern list of its own)?
func (s vSelC20) hit(p string) bool {
	return refListC20(s.Sens, p) || refListC20(vLowerAllC20(s.Insens), strings.ToLower(p))
}

// selected: is the item at absolute snapshot path p selected for restore?
func (s vSelC20) selected(p string) bool {
	if s.Include {
		return s.hit(p)
	}
	// exclude mode: neither the item nor a directory above it is excluded
	for q := p; q != "/" && q != "."; q = path.Dir(q) {
		if s.hit(q) {
			return false
		}
	}
	return true
}

// ---------------------------------------------------------------------------
// model of a small tree: absolute slash path -> entry

type vEntC20 struct {
	Kind byte   `json:"k"` // 'f' 'd' 'l'
	Data string `json:"d,omitempty"`
}

type vFSC20 map[string]vEntC20

func (m vFSC20) paths() []string {
	ps := make([]string, 0, len(m))
	for p := range m {
		ps = append(ps, p)
	}
	sort.Strings(ps)
	return ps
}

func (m vFSC20) String() string {
	var sb strings.Builder
	for _, p := range m.paths() {
		e := m[p]
		switch e.Kind {
		case 'd':
			sb.WriteString(p + "/ ")
		case 'l':
			sb.WriteString(p + "@ ")
		default:
			sb.WriteString(p + " ")
		}
	}
	return sb.String()
}

func (m vFSC20) materialize(root string) error {
	for _, p := range m.paths() {
		e := m[p]
		full := filepath.Join(root, filepath.FromSlash(p))
		var err error
		switch e.Kind {
		case 'd':
			err = os.Mkdir(full, 0o755)
		case 'l':
			err = os.Symlink(e.Data, full)
		default:
			err = os.WriteFile(full, []byte(e.Data), 0o644)
		}
		if err != nil {
			return err
		}
	}
	return nil
}

func vReadFSC20(root string) (vFSC20, error) {
	out := vFSC20{}
	err := filepath.Walk(root, func(p string, fi os.FileInfo, err error) error {
		if err != nil {
			return err
		}
		rel, _ := filepath.Rel(root, p)
		if rel == "." {
			return nil
		}
		key := "/" + filepath.ToSlash(rel)
		switch {
		case fi.IsDir():
			out[key] = vEntC20{Kind: 'd'}
		case fi.Mode()&os.ModeSymlink != 0:
			tg, _ := os.Readlink(p)
			out[key] = vEntC20{Kind: 'l', Data: tg}
		case fi.Mode().IsRegular():
			b, err := os.ReadFile(p)
			if err != nil {
				return err
			}
			out[key] = vEntC20{Kind: 'f', Data: string(b)}
		default:
			out[key] = vEntC20{Kind: '?'}
		}
		return nil
	})
	return out, err
}

// vDepthC20 is the number of components of an absolute path ("/" has none).
func vDepthC20(p string) int {
	if p == "/" {
		return 0
	}
	return strings.Count(p, "/")
}

// ---------------------------------------------------------------------------
// generators

var (
	vDirNamesC20   = []string{"a", "b", "d", "e", "Sub", "x.txt"}
	vFileNamesC20  = []string{"x.txt", "y.txt", "K.TXT", "m.dat", "n", "a", "old.txt", "B"}
	vStaleNamesC20 = []string{"old.txt", "stale.dat", "Old.TXT", "x.txt", "y.txt", "zz", "olddir", "b", "keep.log"}
)

func vJoinC20(dir, name string) string {
	if dir == "/" {
		return "/" + name
	}
	return dir + "/" + name
}

// vGenSnapC20 draws the snapshot tree.
func vGenSnapC20(t *rapid.T) vFSC20 {
	m := vFSC20{}
	dirs := []string{"/"}
	n := rapid.IntRange(2, 12).Draw(t, "entries")
	for i := 0; i < n; i++ {
		parent := dirs[rapid.IntRange(0, len(dirs)-1).Draw(t, "parent")]
		k := rapid.IntRange(0, 19).Draw(t, "kind")
		switch {
		case k < 7 && vDepthC20(parent) < 3 || parent == "/" && k < 10:
			p := vJoinC20(parent, rapid.SampledFrom(vDirNamesC20).Draw(t, "dname"))
			if _, ok := m[p]; ok {
				continue
			}
			m[p] = vEntC20{Kind: 'd'}
			dirs = append(dirs, p)
		case k == 19:
			p := vJoinC20(parent, rapid.SampledFrom(vFileNamesC20).Draw(t, "lname"))
			if _, ok := m[p]; ok {
				continue
			}
			m[p] = vEntC20{Kind: 'l', Data: "snap-target"}
		default:
			p := vJoinC20(parent, rapid.SampledFrom(vFileNamesC20).Draw(t, "fname"))
			if _, ok := m[p]; ok {
				continue
			}
			m[p] = vEntC20{Kind: 'f', Data: "snap:" + p}
		}
	}
	return m
}

// vGenPreC20 draws the pre-existing target tree: a part of the snapshot's entries
// (files with other content, a few with another type) plus stale entries.
func vGenPreC20(t *rapid.T, snap vFSC20) vFSC20 {
	pre := vFSC20{}
	if rapid.IntRange(0, 5).Draw(t, "fresh") == 0 {
		return pre
	}
	isDir := func(p string) bool { return p == "/" || pre[p].Kind == 'd' }
	for _, p := range snap.paths() {
		if !isDir(path.Dir(p)) {
			continue
		}
		r := rapid.IntRange(0, 19).Draw(t, "have")
		if r < 8 {
			continue
		}
		e := snap[p]
		switch {
		case r == 8 && e.Kind == 'f':
			pre[p] = vEntC20{Kind: 'l', Data: "pre-target"} // a symlink where the snapshot has a file
		case r == 9 && e.Kind == 'f':
			pre[p] = vEntC20{Kind: 'd'} // an (empty) directory where the snapshot has a file
		case r == 9 && e.Kind == 'd':
			pre[p] = vEntC20{Kind: 'f', Data: "old:" + p} // a file where the snapshot has a directory
		case e.Kind == 'f':
			pre[p] = vEntC20{Kind: 'f', Data: "old:" + p}
		default:
			pre[p] = e
		}
	}
	// stale entries: not part of the snapshot
	n := rapid.IntRange(0, 7).Draw(t, "stale")
	for i := 0; i < n; i++ {
		var cand []string
		cand = append(cand, "/")
		for _, p := range pre.paths() {
			if pre[p].Kind == 'd' && vDepthC20(p) < 4 {
				if se, ok := snap[p]; ok && se.Kind != 'd' {
					continue // keep directories that stand in for snapshot files empty
				}
				cand = append(cand, p)
			}
		}
		parent := cand[rapid.IntRange(0, len(cand)-1).Draw(t, "sparent")]
		p := vJoinC20(parent, rapid.SampledFrom(vStaleNamesC20).Draw(t, "sname"))
		if _, ok := snap[p]; ok {
			continue
		}
		if _, ok := pre[p]; ok {
			continue
		}
		if rapid.IntRange(0, 9).Draw(t, "sdir") < 4 {
			// a stale directory, usually with something inside
			pre[p] = vEntC20{Kind: 'd'}
			for j := rapid.IntRange(0, 2).Draw(t, "skids"); j > 0; j-- {
				c := vJoinC20(p, rapid.SampledFrom(vStaleNamesC20).Draw(t, "skid"))
				if _, ok := pre[c]; !ok {
					pre[c] = vEntC20{Kind: 'f', Data: "stale:" + c}
				}
			}
		} else {
			pre[p] = vEntC20{Kind: 'f', Data: "stale:" + p}
		}
	}
	return pre
}

func vGlobOfC20(t *rapid.T, name string) string {
	ext := path.Ext(name)
	base := strings.TrimSuffix(name, ext)
	opts := []string{name, name, "*", "**"}
	if ext != "" {
		opts = append(opts, "*"+ext, "?"+ext, base+".*", "["+base+"z]"+ext)
	} else {
		opts = append(opts, "?", "["+name+"q]", "[a-e]", name+"*")
	}
	return rapid.SampledFrom(opts).Draw(t, "glob")
}

var vPoolC20 = []string{"*.txt", "*.TXT", "x.txt", "y.txt", "old.txt", "*.dat", "m.*", "n", "a", "b", "d", "e", "Sub", "*",
	"a/*.txt", "*/x.txt", "a/**/x.txt", "**/y.txt", "/a", "/b", "/**/b", "/a/**", "/*/x.txt", "/*/*/*", "/**/d/**/*.txt", "d/**", "olddir", "[ab]/*", "/*.txt", "keep.log", "*.log"}

// vGenPatternC20 draws one pattern: from a pool or derived from an existing path.
func vGenPatternC20(t *rapid.T, paths []string, insens bool) string {
	var pt string
	if len(paths) == 0 || rapid.IntRange(0, 9).Draw(t, "frompool") < 4 {
		pt = rapid.SampledFrom(vPoolC20).Draw(t, "pool")
	} else {
		p := rapid.SampledFrom(paths).Draw(t, "ppath")
		comps := strings.Split(strings.Trim(p, "/"), "/")
		// cut the tail (a directory above) and/or the head (relative pattern)
		end := rapid.IntRange(1, len(comps)).Draw(t, "end")
		if rapid.IntRange(0, 2).Draw(t, "full") > 0 {
			end = len(comps)
		}
		start := 0
		anchored := rapid.Bool().Draw(t, "anchored")
		if !anchored {
			start = rapid.IntRange(0, end-1).Draw(t, "start")
		}
		var out []string
		for _, c := range comps[start:end] {
			if rapid.IntRange(0, 2).Draw(t, "globit") == 0 {
				c = vGlobOfC20(t, c)
			}
			out = append(out, c)
		}
		pt = strings.Join(out, "/")
		if anchored {
			pt = "/" + pt
		}
		if pt == "/**" || pt == "**" || pt == "/*" || pt == "*" {
			if rapid.IntRange(0, 3).Draw(t, "keepall") > 0 {
				pt = "/" + strings.Join(comps[:end], "/")
			}
		}
	}
	if rapid.IntRange(0, 11).Draw(t, "trail") == 0 {
		pt += "/"
	}
	if insens {
		switch rapid.IntRange(0, 2).Draw(t, "case") {
		case 0:
			pt = strings.ToUpper(pt)
		case 1:
			pt = strings.ToLower(pt)
		}
	}
	return pt
}

func vGenSelC20(t *rapid.T, paths []string) vSelC20 {
	s := vSelC20{Include: rapid.IntRange(0, 2).Draw(t, "include") > 0}
	ns := rapid.IntRange(0, 3).Draw(t, "nsens")
	ni := 0
	if rapid.IntRange(0, 2).Draw(t, "hasinsens") == 0 {
		ni = rapid.IntRange(1, 2).Draw(t, "ninsens")
	}
	if ns+ni == 0 {
		ns = 1
	}
	gen := func(n int, insens bool) []string {
		var l []string
		for i := 0; i < n; i++ {
			pt := vGenPatternC20(t, paths, insens)
			if i > 0 && rapid.IntRange(0, 2).Draw(t, "neg") == 0 || i == 0 && rapid.IntRange(0, 19).Draw(t, "neg0") == 0 {
				pt = "!" + pt
			}
			l = append(l, pt)
		}
		return l
	}
	s.Sens = gen(ns, false)
	s.Insens = gen(ni, true)
	return s
}

func (s vSelC20) options(del bool) RestoreOptions {
	o := RestoreOptions{Delete: del}
	if s.Include {
		o.IncludePatternOptions = filter.IncludePatternOptions{Includes: s.Sens, InsensitiveIncludes: s.Insens}
	} else {
		o.ExcludePatternOptions = filter.ExcludePatternOptions{Excludes: s.Sens, InsensitiveExcludes: s.Insens}
	}
	return o
}

// ---------------------------------------------------------------------------
// oracle

type vVerdictC20 struct {
	diffs   []string // violations of the statement that are not a listed shape
	shapeA  []string // selected stale entry survived in a directory that restore never left
	shapeC  []string // selected stale entry survived inside an unselected stale directory
	classes []string
	nt      bool
}

// vJudgeC20 compares the target after restore with what the statement demands.
func vJudgeC20(snap, pre, got vFSC20, sel vSelC20, del bool) vVerdictC20 {
	var v vVerdictC20
	cls := map[string]bool{}

	// which snapshot entries must be there: the selected ones and the directories holding them
	need := map[string]bool{}
	nsel := 0
	for _, p := range snap.paths() {
		if sel.selected(p) {
			nsel++
			need[p] = true
			for q := path.Dir(p); q != "/"; q = path.Dir(q) {
				need[q] = true
			}
		}
	}
	switch {
	case nsel == 0:
		cls["sel=none"] = true
	case nsel == len(snap):
		cls["sel=all"] = true
	default:
		cls["sel=strict"] = true
	}
	left := func(dir string) bool { // did restore finish (leave) this snapshot directory?
		if dir == "/" {
			return nsel > 0
		}
		return need[dir]
	}

	// 1. entries of the snapshot
	for _, p := range snap.paths() {
		want := snap[p]
		g, have := got[p]
		o, had := pre[p]
		switch {
		case need[p] && sel.selected(p):
			if !have || g.Kind != want.Kind || (want.Kind != 'd' && g.Data != want.Data) {
				v.diffs = append(v.diffs, fmt.Sprintf("selected %s not restored (got %v)", p, g))
			}
			if want.Kind == 'f' {
				cls["file-restored"] = true
			}
		case need[p]: // unselected directory that holds a selected item
			if !have || g.Kind != 'd' {
				v.diffs = append(v.diffs, fmt.Sprintf("directory %s needed for a selected item is missing (got %v)", p, g))
			}
			cls["dir-as-ancestor-only"] = true
		default: // not selected: untouched
			if had != have || (had && g != o) {
				// an entry below a pre-existing non-directory that was replaced cannot survive; not generated
				v.diffs = append(v.diffs, fmt.Sprintf("unselected %s touched: before %v (present=%v), after %v (present=%v)", p, o, had, g, have))
			}
			if want.Kind == 'd' {
				cls["dir-not-created"] = true
			} else {
				cls["file-skipped"] = true
			}
		}
	}

	// 2. entries of the target that are not part of the snapshot
	staleTop := func(p string) string { // top-most stale directory-or-self
		top := p
		for q := path.Dir(p); q != "/"; q = path.Dir(q) {
			if _, ok := snap[q]; !ok {
				top = q
			}
		}
		return top
	}
	for _, p := range pre.paths() {
		if _, ok := snap[p]; ok {
			continue
		}
		_, have := got[p]
		if have && got[p] != pre[p] {
			v.diffs = append(v.diffs, fmt.Sprintf("stale %s changed: %v -> %v", p, pre[p], got[p]))
			continue
		}
		if !del {
			if !have {
				v.diffs = append(v.diffs, fmt.Sprintf("%s vanished without --delete", p))
			}
			continue
		}
		s := sel.selected(p)
		top := staleTop(p)
		if s && vDepthC20(p) >= 2 {
			v.nt = true
		}
		// the two situations restic is known to mishandle, counted whatever the outcome
		if s && sel.selected(top) && !left(path.Dir(top)) {
			cls["gen:selected-stale-in-dir-never-left"] = true
		}
		if s && !sel.selected(top) {
			cls["gen:selected-stale-inside-unselected-stale-dir"] = true
		}
		switch {
		case s && !have:
			cls["del:selected-removed"] = true
		case !s && have:
			cls["del:unselected-kept"] = true
		case s && have:
			// the statement wants it removed
			switch {
			case sel.selected(top) && !left(path.Dir(top)):
				v.shapeA = append(v.shapeA, p)
			case !sel.selected(top):
				v.shapeC = append(v.shapeC, p)
			default:
				v.diffs = append(v.diffs, fmt.Sprintf("selected stale %s not deleted", p))
			}
		default: // !s && !have
			// a selected stale directory above it was removed as a whole: the statement asks for the
			// directory to go and for this entry to stay; restic (and its unit tests) remove the
			// directory recursively. Counted, not judged.
			ambiguous := false
			for q := path.Dir(p); q != "/"; q = path.Dir(q) {
				if _, ok := snap[q]; !ok && sel.selected(q) {
					ambiguous = true
				}
			}
			if ambiguous {
				cls["del:unselected-below-selected-stale-dir"] = true
			} else {
				v.diffs = append(v.diffs, fmt.Sprintf("unselected stale %s deleted", p))
			}
		}
	}

	// 3. nothing else appeared
	for _, p := range got.paths() {
		if _, ok := snap[p]; ok {
			continue
		}
		if _, ok := pre[p]; ok {
			continue
		}
		v.diffs = append(v.diffs, fmt.Sprintf("unexpected %s", p))
	}

	// classes of the selection
	for _, l := range [][]string{sel.Sens, sel.Insens} {
		for _, pt := range l {
			if strings.Contains(pt, "**") {
				cls["pat:doublestar"] = true
			}
			if strings.HasPrefix(pt, "!") {
				cls["pat:negation"] = true
			}
			if strings.HasPrefix(strings.TrimPrefix(pt, "!"), "/") {
				cls["pat:absolute"] = true
			} else {
				cls["pat:relative"] = true
			}
			if strings.HasSuffix(pt, "/") {
				cls["pat:trailing-slash"] = true
			}
		}
	}
	if len(sel.Insens) > 0 {
		cls["pat:insensitive"] = true
	}
	// did a negation / the case folding / a '**' change the outcome for some path?
	var plain, noNeg []string
	for _, pt := range sel.Sens {
		if !strings.HasPrefix(pt, "!") {
			noNeg = append(noNeg, pt)
		}
	}
	var noNegI []string
	for _, pt := range sel.Insens {
		if !strings.HasPrefix(pt, "!") {
			noNegI = append(noNegI, pt)
		}
	}
	plain = append(append(plain, sel.Sens...), sel.Insens...)
	for _, m := range []vFSC20{snap, pre} {
		for p := range m {
			if (vSelC20{Include: sel.Include, Sens: noNeg, Insens: noNegI}).selected(p) != sel.selected(p) {
				cls["negation-effective"] = true
			}
			if len(sel.Insens) > 0 && (vSelC20{Include: sel.Include, Sens: plain}).selected(p) != sel.selected(p) {
				cls["casefold-effective"] = true
			}
		}
	}
	if (cls["pat:doublestar"] || cls["negation-effective"]) && cls["sel=strict"] {
		v.nt = true
	}
	if len(v.shapeA) > 0 {
		cls["shape:A-dir-never-left"] = true
	}
	if len(v.shapeC) > 0 {
		cls["shape:C-inside-unselected-stale-dir"] = true
	}
	for c := range cls {
		v.classes = append(v.classes, c)
	}
	sort.Strings(v.classes)
	return v
}

// vRoundC20 runs one restore into a fresh target and judges it.
func vRoundC20(e *vEnv, snapID, src string, snap, pre vFSC20, sel vSelC20, del bool) (vVerdictC20, vFSC20, error) {
	target := e.Scratch("target-")
	defer os.RemoveAll(target)
	if err := pre.materialize(target); err != nil {
		return vVerdictC20{}, nil, fmt.Errorf("materialize target: %w", err)
	}
	if err := e.Restore(snapID+":"+filepath.ToSlash(src), target, sel.options(del)); err != nil {
		return vVerdictC20{}, nil, fmt.Errorf("restore: %w", err)
	}
	got, err := vReadFSC20(target)
	if err != nil {
		return vVerdictC20{}, nil, err
	}
	return vJudgeC20(snap, pre, got, sel, del), got, nil
}

// vBackupC20 writes the snapshot tree below a source directory and backs it up.
func vBackupC20(e *vEnv, snap vFSC20) (snapID, src string, err error) {
	src = e.Scratch("src-")
	if err = snap.materialize(src); err != nil {
		return
	}
	if err = e.Backup([]string{src}, BackupOptions{}); err != nil {
		return
	}
	ids, err := e.SnapshotIDs()
	if err != nil || len(ids) != 1 {
		return "", "", fmt.Errorf("snapshots: %v %v", ids, err)
	}
	return ids[0], src, nil
}

func vBaseEnvC20(t *testing.T) *vEnv {
	base, err := vNewEnv(true)
	if err != nil {
		t.Fatal(err)
	}
	t.Cleanup(base.Close)
	if err := base.Init("2"); err != nil {
		t.Fatal(err)
	}
	return base
}

func TestVerifC20Select(t *testing.T) {
	vSetup(t)
	st := verifkit.Begin(t, "C20")
	base := vBaseEnvC20(t)
	baseStore := base.store

	rapid.Check(t, func(t *rapid.T) {
		e := base.OnStore(baseStore.Clone())
		defer e.Release()
		snap := vGenSnapC20(t)
		snapID, src, err := vBackupC20(e, snap)
		if err != nil {
			t.Fatalf("backup: %v", err)
		}
		defer os.RemoveAll(src)

		rounds := rapid.IntRange(2, 4).Draw(t, "rounds")
		for r := 0; r < rounds; r++ {
			pre := vGenPreC20(t, snap)
			all := append(snap.paths(), pre.paths()...)
			sel := vGenSelC20(t, all)
			del := rapid.Bool().Draw(t, "delete")

			v, got, err := vRoundC20(e, snapID, src, snap, pre, sel, del)
			if err != nil {
				t.Fatalf("snapshot %v target %v selection %s delete=%v: %v", snap, pre, vJSON(sel), del, err)
			}
			key := ""
			if v.nt {
				key = fmt.Sprintf("%v|%v|%s|%v", snap, pre, vJSON(sel), del)
			}
			mode := "mode=exclude"
			if sel.Include {
				mode = "mode=include"
			}
			pc := "pre=populated"
			if len(pre) == 0 {
				pc = "pre=empty"
			}
			st.Case(key, append(v.classes, mode, pc, fmt.Sprintf("delete=%v", del))...)
			if st.WantSample() {
				st.Sample(map[string]any{"snapshot": snap.String(), "target_before": pre.String(), "selection": sel, "delete": del, "target_after": got.String()})
			}
			desc := fmt.Sprintf("\n snapshot: %v\n target before: %v\n selection: %s delete=%v\n target after: %v", snap, pre, vJSON(sel), del, got)
			if len(v.diffs) > 0 {
				t.Fatalf("restore did not select exactly the matching paths: %s%s", strings.Join(v.diffs, "; "), desc)
			}
			if len(v.shapeA) > 0 && !st.Known(vKeyAC20) {
				t.Fatalf("--delete left selected stale entries %v behind in directories without a selected snapshot child%s", v.shapeA, desc)
			}
			if len(v.shapeC) > 0 && !st.Known(vKeyCC20) {
				t.Fatalf("--delete left selected stale entries %v behind inside unselected stale directories%s", v.shapeC, desc)
			}
		}
	})
}

// TestVerifC20Regression: fixed probes for the shapes singled out in DESIGN section 6.
func TestVerifC20Regression(t *testing.T) {
	vSetup(t)
	st := verifkit.Begin(t, "C20")
	if verifkit.Shard() != 0 {
		return
	}
	base := vBaseEnvC20(t)

	type probe struct {
		name      string
		snap, pre vFSC20
		sel       vSelC20
		del       bool
		wantA     []string
		wantC     []string
	}
	f := func(p string) vEntC20 { return vEntC20{Kind: 'f', Data: "snap:" + p} }
	s := func(p string) vEntC20 { return vEntC20{Kind: 'f', Data: "stale:" + p} }
	d := vEntC20{Kind: 'd'}
	probes := []probe{
		{
			name: "include-txt-delete: stale .txt in a directory whose snapshot version has no .txt",
			snap: vFSC20{"/d": d, "/d/keep.dat": f("/d/keep.dat"), "/e": d, "/e/new.txt": f("/e/new.txt")},
			pre: vFSC20{"/d": d, "/d/keep.dat": f("/d/keep.dat"), "/d/old.txt": s("/d/old.txt"), "/d/old.dat": s("/d/old.dat"),
				"/e": d, "/e/old.txt": s("/e/old.txt"), "/e/old.dat": s("/e/old.dat")},
			sel: vSelC20{Include: true, Sens: []string{"*.txt"}}, del: true,
			wantA: []string{"/d/old.txt"},
		},
		{
			name: "include-txt-delete: nothing selected in the snapshot at all",
			snap: vFSC20{"/keep.dat": f("/keep.dat")},
			pre:  vFSC20{"/keep.dat": f("/keep.dat"), "/old.txt": s("/old.txt")},
			sel:  vSelC20{Include: true, Sens: []string{"*.txt"}}, del: true,
			wantA: []string{"/old.txt"},
		},
		{
			name: "include-txt-delete: stale .txt inside a stale directory that is not selected itself",
			snap: vFSC20{"/new.txt": f("/new.txt")},
			pre:  vFSC20{"/olddir": d, "/olddir/old.txt": s("/olddir/old.txt"), "/olddir/old.dat": s("/olddir/old.dat"), "/top.txt": s("/top.txt")},
			sel:  vSelC20{Include: true, Sens: []string{"*.txt"}}, del: true,
			wantC: []string{"/olddir/old.txt"},
		},
		{
			name: "include-dir-delete (documented example): only entries inside the included directory go",
			snap: vFSC20{"/foo": d, "/foo/a": f("/foo/a"), "/bar": d, "/bar/a": f("/bar/a")},
			pre: vFSC20{"/foo": d, "/foo/stale": s("/foo/stale"), "/foo/sd": d, "/foo/sd/x": s("/foo/sd/x"),
				"/bar": d, "/bar/stale": s("/bar/stale"), "/top": s("/top")},
			sel: vSelC20{Include: true, Sens: []string{"/foo"}}, del: true,
		},
		{
			name: "exclude-delete: excluded stale entries stay, the others go",
			snap: vFSC20{"/a": d, "/a/x.txt": f("/a/x.txt"), "/a/m.dat": f("/a/m.dat")},
			pre:  vFSC20{"/a": d, "/a/old.txt": s("/a/old.txt"), "/a/old.dat": s("/a/old.dat"), "/old.dat": s("/old.dat"), "/zz": s("/zz")},
			sel:  vSelC20{Include: false, Sens: []string{"*.dat"}}, del: true,
		},
	}
	probes = append(probes, probe{
		name: "exclude-delete: excluded entry inside a stale directory that is selected itself (counted, not judged)",
		snap: vFSC20{"/a": d, "/a/x.txt": f("/a/x.txt")},
		pre:  vFSC20{"/a": d, "/olddir": d, "/olddir/old.txt": s("/olddir/old.txt"), "/olddir/keep.log": s("/olddir/keep.log"), "/top.log": s("/top.log")},
		sel:  vSelC20{Include: false, Sens: []string{"*.log"}}, del: true,
	})
	for _, p := range probes {
		e := base.OnStore(base.store.Clone())
		snapID, src, err := vBackupC20(e, p.snap)
		if err != nil {
			t.Fatalf("%s: %v", p.name, err)
		}
		v, got, err := vRoundC20(e, snapID, src, p.snap, p.pre, p.sel, p.del)
		os.RemoveAll(src)
		e.Release()
		if err != nil {
			t.Fatalf("%s: %v", p.name, err)
		}
		st.Case("probe:"+p.name, append(v.classes, "probe")...)
		desc := fmt.Sprintf("\n snapshot: %v\n target before: %v\n selection: %s delete=%v\n target after: %v", p.snap, p.pre, vJSON(p.sel), p.del, got)
		if len(v.diffs) > 0 {
			t.Fatalf("probe %q: %s%s", p.name, strings.Join(v.diffs, "; "), desc)
		}
		// either the shape is still there exactly as recorded (and listed), or it is repaired
		if len(v.shapeA) > 0 {
			if fmt.Sprint(v.shapeA) != fmt.Sprint(p.wantA) || !st.Known(vKeyAC20) {
				t.Fatalf("probe %q: --delete left selected stale entries %v behind (directory never left by restore)%s", p.name, v.shapeA, desc)
			}
			st.Class("probe:shape-A-present")
		}
		if len(v.shapeC) > 0 {
			if fmt.Sprint(v.shapeC) != fmt.Sprint(p.wantC) || !st.Known(vKeyCC20) {
				t.Fatalf("probe %q: --delete left selected stale entries %v behind (inside an unselected stale directory)%s", p.name, v.shapeC, desc)
			}
			st.Class("probe:shape-C-present")
		}
	}
}
