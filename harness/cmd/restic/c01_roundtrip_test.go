package main

// C01: backup then restore reproduces the source tree exactly.
//
// A rich tree specification is drawn with rapid, materialised on the real file
// system (root on ext4), backed up with runBackup and restored with runRestore.
// The oracle walks source and restored tree with lstat/readlink/read/listxattr
// and demands byte-identical names, types, contents, link targets, rdev, mode
// (incl. setuid/setgid/sticky), mtime (ns), uid/gid, xattr sets and the same
// hard-link partition. Sockets are documented as not restored.

import (
	"bytes"
	"context"
	"crypto/sha256"
	"encoding/binary"
	"encoding/hex"
	"fmt"
	"math/rand/v2"
	"os"
	"path/filepath"
	"sort"
	"strings"
	"sync"
	"testing"
	"unicode/utf8"

	"github.com/restic/restic/internal/global"
	"github.com/restic/restic/internal/repository"
	"github.com/restic/restic/internal/verifkit"
	"golang.org/x/sys/unix"
	"pgregory.net/rapid"
)

// ---------------------------------------------------------------------------
// capabilities of the sandbox, probed at run time

type vCapsC01 struct {
	Mknod, Fifo, Socket, Chown             bool
	UserX, TrustedX, SecurityX, ACL        bool
	SymX, SpecX                            bool // trusted.* on symlinks / fifos
	NonUTF8, Nsec, NegTime, Time64         bool
	Holes, LinkSymlink, LinkSpecial, Name255 bool
}

var (
	vCapsOnceC01 sync.Once
	vCapsValC01  vCapsC01
)

func vTsC01(sec, nsec int64) unix.Timespec { return unix.Timespec{Sec: sec, Nsec: nsec} }

func vSetTimesC01(path string, asec, ansec, msec, mnsec int64) error {
	return unix.UtimesNanoAt(unix.AT_FDCWD, path, []unix.Timespec{vTsC01(asec, ansec), vTsC01(msec, mnsec)}, unix.AT_SYMLINK_NOFOLLOW)
}

func vProbeCapsC01() vCapsC01 {
	vCapsOnceC01.Do(func() {
		d, err := os.MkdirTemp("", "verif-c01-probe-")
		if err != nil {
			return
		}
		defer os.RemoveAll(d)
		c := &vCapsValC01
		p := func(n string) string { return filepath.Join(d, n) }
		c.Mknod = unix.Mknod(p("cdev"), unix.S_IFCHR|0o600, int(unix.Mkdev(1, 3))) == nil &&
			unix.Mknod(p("bdev"), unix.S_IFBLK|0o600, int(unix.Mkdev(8, 1))) == nil
		c.Fifo = unix.Mknod(p("fifo"), unix.S_IFIFO|0o600, 0) == nil
		c.Socket = unix.Mknod(p("sock"), unix.S_IFSOCK|0o600, 0) == nil
		_ = os.WriteFile(p("f"), []byte("x"), 0o600)
		_ = os.Symlink("f", p("sym"))
		if os.Lchown(p("f"), 1000, 1001) == nil {
			var st unix.Stat_t
			c.Chown = unix.Lstat(p("f"), &st) == nil && st.Uid == 1000 && st.Gid == 1001
		}
		c.UserX = unix.Lsetxattr(p("f"), "user.verif", []byte("v"), 0) == nil
		c.TrustedX = unix.Lsetxattr(p("f"), "trusted.verif", []byte("v"), 0) == nil
		c.SecurityX = unix.Lsetxattr(p("f"), "security.verif", []byte("v"), 0) == nil
		c.ACL = unix.Lsetxattr(p("f"), "system.posix_acl_access", vACLC01(6, 4, 4, 0, 1000), 0) == nil
		c.SymX = unix.Lsetxattr(p("sym"), "trusted.verif", []byte("v"), 0) == nil
		if c.Fifo {
			c.SpecX = unix.Lsetxattr(p("fifo"), "trusted.verif", []byte("v"), 0) == nil
		}
		if os.WriteFile(p("bad\xff\xfename"), nil, 0o600) == nil {
			names, _ := vReaddirC01(d)
			for _, n := range names {
				if n == "bad\xff\xfename" {
					c.NonUTF8 = true
				}
			}
		}
		c.Name255 = os.WriteFile(p(strings.Repeat("L", 255)), nil, 0o600) == nil
		var st unix.Stat_t
		if vSetTimesC01(p("f"), 5, 123456789, 7, 987654321) == nil && unix.Lstat(p("f"), &st) == nil {
			c.Nsec = st.Mtim.Sec == 7 && st.Mtim.Nsec == 987654321
		}
		if vSetTimesC01(p("f"), -5, 1, -100000, 5) == nil && unix.Lstat(p("f"), &st) == nil {
			c.NegTime = st.Mtim.Sec == -100000 && st.Mtim.Nsec == 5
		}
		if vSetTimesC01(p("f"), 1, 1, 15032385535, 999999999) == nil && unix.Lstat(p("f"), &st) == nil {
			c.Time64 = st.Mtim.Sec == 15032385535
		}
		if f, err := os.Create(p("sparse")); err == nil {
			_ = f.Truncate(4 << 20)
			_ = f.Close()
			if unix.Lstat(p("sparse"), &st) == nil {
				c.Holes = st.Blocks*512 < 1<<20
			}
		}
		if os.Link(p("sym"), p("symlink2")) == nil && unix.Lstat(p("symlink2"), &st) == nil {
			c.LinkSymlink = st.Mode&unix.S_IFMT == unix.S_IFLNK && st.Nlink == 2
		}
		if c.Fifo {
			c.LinkSpecial = os.Link(p("fifo"), p("fifo2")) == nil
		}
	})
	return vCapsValC01
}

// vACLC01 builds a posix ACL xattr (version 2) with one named user entry.
func vACLC01(userObj, groupObj, mask, other uint16, uid uint32) []byte {
	b := binary.LittleEndian.AppendUint32(nil, 2)
	add := func(tag, perm uint16, id uint32) {
		b = binary.LittleEndian.AppendUint16(b, tag)
		b = binary.LittleEndian.AppendUint16(b, perm)
		b = binary.LittleEndian.AppendUint32(b, id)
	}
	add(0x01, userObj, 0xffffffff)
	add(0x02, 5, uid)
	add(0x04, groupObj, 0xffffffff)
	add(0x10, mask, 0xffffffff)
	add(0x20, other, 0xffffffff)
	return b
}

// ---------------------------------------------------------------------------
// the specification of a source tree

type vSegC01 struct {
	K    byte   `json:"k"` // 'r' random, 't' compressible text, 'z' zeros
	N    int    `json:"n"`
	Seed uint64 `json:"seed,omitempty"`
	Hole bool   `json:"hole,omitempty"` // zeros are not written (sparse)
}

type vXattrC01 struct {
	Name string `json:"name"`
	Val  []byte `json:"val"`
}

type vEntC01 struct {
	Parent int         `json:"parent"` // index of the parent directory entry, -1 = root
	Name   string      `json:"-"`
	QName  string      `json:"name"` // quoted, for samples
	Kind   byte        `json:"kind"` // f d l p(fifo) c b s(socket) h(hard link)
	Segs   []vSegC01   `json:"segs,omitempty"`
	Target string      `json:"-"`
	QTarget string     `json:"target,omitempty"`
	LinkTo int         `json:"link_to,omitempty"`
	Rdev   uint64      `json:"rdev,omitempty"`
	Mode   uint32      `json:"mode"` // 07777 bits
	UID    uint32      `json:"uid"`
	GID    uint32      `json:"gid"`
	Msec   int64       `json:"msec"`
	Mnsec  int64       `json:"mnsec"`
	Asec   int64       `json:"asec"`
	Ansec  int64       `json:"ansec"`
	Xattrs []vXattrC01 `json:"-"`
	NX     int         `json:"nxattr,omitempty"`
	path   string
}

type vCfgC01 struct {
	Vmem        bool   `json:"vmem"`
	Version     string `json:"version"`
	Compression string `json:"compression"`
	PackSize    uint   `json:"pack_size"`
	ReadConc    uint   `json:"read_concurrency"`
	Conns       uint   `json:"connections"`
	WithAtime   bool   `json:"with_atime"`
	Sparse      bool   `json:"restore_sparse"`
	Verify      bool   `json:"restore_verify"`
	Subfolder   bool   `json:"restore_subfolder"`
}

type vSpecC01 struct {
	Root vEntC01   `json:"root"`
	Ents []vEntC01 `json:"entries"`
	Cfg  vCfgC01   `json:"config"`
}

const (
	vMinChunkC01 = 512 * 1024
)

var vNamesC01 = []string{
	"a", "b", "c", "a.", "a-", "a0", "a b", "A", "file.txt", "data.bin", "sub", "dir", ".hidden", "..."," lead", "trail ", " ",
	"über", "日本語", "é", "é", "‮evil", " ls", "emoji\U0001F600",
	"-dash", "--", "~", "#", "&", ";", "a:b", "a|b", "`", "$HOME", "%41", "*", "?", "[a]", "{x,y}", "!", "(p)", "<>", "=", "@", "^", ",",
	"a\\b", "\\", "\\\\", "q\"uote", "\"", "it's", "'",
	"nl\nname", "\n", "tab\t", "cr\r", "\x01", "\x1b[31m", "\x7f", "bell\x07",
	"\xff", "\xff\xfe", "bad\xc3", "\xe2\x28\xa1", "\xc0\xaf", "\xed\xa0\x80", "lat\xe9n", "\x80abc", "ok\xf0\x9f",
	"CON", "nul", "aux.txt", "a.b.c.d", "UPPER", "MiXeD", "0", "00", "1e3", "true", "null",
}

func vGenNameC01(t *rapid.T, caps vCapsC01) string {
	var name string
	switch rapid.IntRange(0, 11).Draw(t, "nameKind") {
	case 0, 1, 2, 3, 4, 5, 6:
		name = rapid.SampledFrom(vNamesC01).Draw(t, "name")
	case 7, 8:
		bs := rapid.SliceOfN(rapid.ByteRange(1, 255), 1, 10).Draw(t, "nameBytes")
		for i, b := range bs {
			if b == '/' {
				bs[i] = '\\'
			}
		}
		name = string(bs)
	case 9, 10:
		name = rapid.StringMatching(`[a-z]{1,6}(\.[a-z]{1,3})?`).Draw(t, "nameAscii")
	default:
		if caps.Name255 {
			switch rapid.IntRange(0, 2).Draw(t, "longKind") {
			case 0:
				name = strings.Repeat("L", 255)
			case 1:
				name = strings.Repeat("é", 127) // 254 bytes
			default:
				name = strings.Repeat("x\xff", 100)
			}
		} else {
			name = "long"
		}
	}
	if name == "." || name == ".." || name == "" {
		name = "..."
	}
	if !caps.NonUTF8 && !utf8.ValidString(name) {
		name = hex.EncodeToString([]byte(name))
	}
	return name
}

var vTargetsC01 = []string{
	"a", "../b", "nonexistent", "/dev/null", ".", "..", "/", "./self", "a/b/c", "../../..", " ",
	"\xff\xfe/x", "t\xe9l\xe9", "bad\xc3/\xc3", "with\nnewline", "q\"uote\\", "ü/日本", "\\", "tab\t", "\x01", "//double//slash//", "trailing/",
}

func vGenTargetC01(t *rapid.T, caps vCapsC01) string {
	var tg string
	switch rapid.IntRange(0, 9).Draw(t, "targetKind") {
	case 0, 1, 2, 3, 4, 5:
		tg = rapid.SampledFrom(vTargetsC01).Draw(t, "target")
	case 6, 7:
		tg = string(rapid.SliceOfN(rapid.ByteRange(1, 255), 1, 40).Draw(t, "targetBytes"))
	case 8:
		tg = strings.Repeat("d/", rapid.IntRange(29, 200).Draw(t, "targetDeep")) + "x" // beyond the 60 byte ext4 fast symlink
	default:
		tg = strings.Repeat("\xfftarget/", 512)[:rapid.SampledFrom([]int{59, 60, 61, 255, 1024, 4095}).Draw(t, "targetLen")]
	}
	if !caps.NonUTF8 && !utf8.ValidString(tg) {
		tg = hex.EncodeToString([]byte(tg))
	}
	return tg
}

// vGenTimeC01 draws an odd time stamp.
func vGenTimeC01(t *rapid.T, label string, caps vCapsC01) (int64, int64) {
	var sec int64
	switch rapid.IntRange(0, 5).Draw(t, label+"Kind") {
	case 0, 1, 2:
		sec = rapid.Int64Range(1400000000, 1750000000).Draw(t, label+"Sec")
	case 3, 4:
		sec = rapid.SampledFrom([]int64{0, 1, -1, -2, -86400, -2147483648, -2147483647, 2147483647, 2147483648, 4294967295, 4294967296,
			9223372035, 9223372036, 946684800, 1e9, 253402300, 5000000000,
			9223372037, 10000000000, 15032385535}).Draw(t, label+"Odd") // the last three: beyond time.Time.UnixNano, within ext4
	default:
		sec = rapid.Int64Range(-2147483648, 9223372035).Draw(t, label+"Any")
	}
	nsec := rapid.OneOf(rapid.SampledFrom([]int64{0, 1, 999, 1000, 999999999, 999999000, 500000000, 123456789, 100}), rapid.Int64Range(0, 999999999)).Draw(t, label+"Nsec")
	if sec < 0 && !caps.NegTime {
		sec = -sec
	}
	if sec > 2147483647 && !caps.Time64 {
		sec %= 2147483647
	}
	if !caps.Nsec {
		nsec = 0
	}
	// time.Time.UnixNano (used by restic to restore) is defined up to 2262-04-11T23:47:16.854775807Z
	if sec == 9223372036 && nsec > 854775807 {
		nsec = 854775807
	}
	return sec, nsec
}

func vGenMetaC01(t *rapid.T, e *vEntC01, caps vCapsC01) {
	perm := rapid.OneOf(rapid.SampledFrom([]int{0o644, 0o600, 0o755, 0o444, 0o400, 0o777, 0o000, 0o666, 0o711, 0o750, 0o640}), rapid.IntRange(0, 0o777)).Draw(t, "perm")
	special := rapid.SampledFrom([]int{0, 0, 0, 0, 0, 0, 0o4000, 0o2000, 0o1000, 0o6000, 0o7000, 0o3000, 0o5000}).Draw(t, "special")
	e.Mode = uint32(perm | special)
	if caps.Chown {
		ids := []uint32{0, 0, 0, 1, 2, 1000, 1001, 65534, 100000, 2147483647, 2147483648, 4294967294}
		e.UID = rapid.SampledFrom(ids).Draw(t, "uid")
		e.GID = rapid.SampledFrom(ids).Draw(t, "gid")
	}
	e.Msec, e.Mnsec = vGenTimeC01(t, "mtime", caps)
	e.Asec, e.Ansec = vGenTimeC01(t, "atime", caps)

	if rapid.IntRange(0, 9).Draw(t, "hasXattr") < 3 {
		var nss []string
		switch e.Kind {
		case 'f', 'd':
			if caps.UserX {
				nss = append(nss, "user.", "user.", "user.")
			}
			if caps.TrustedX {
				nss = append(nss, "trusted.")
			}
			if caps.SecurityX {
				nss = append(nss, "security.")
			}
		case 'l':
			if caps.SymX {
				nss = append(nss, "trusted.")
			}
		default:
			if caps.SpecX {
				nss = append(nss, "trusted.")
			}
		}
		if len(nss) > 0 {
			n := rapid.IntRange(1, 3).Draw(t, "nXattr")
			seen := map[string]bool{}
			for i := 0; i < n; i++ {
				name := rapid.SampledFrom(nss).Draw(t, "xns") + rapid.SampledFrom([]string{"a", "b", "mime_type", "with space", "ü", "k=v", "UPPER", "dot.ted.name",
					strings.Repeat("n", 240), "new\nline", "q\"uote", "\xff\xfe", "lat\xe9n"}).Draw(t, "xname")
				if seen[name] {
					continue
				}
				if !caps.NonUTF8 && !utf8.ValidString(name) {
					continue
				}
				seen[name] = true
				var val []byte
				switch rapid.IntRange(0, 4).Draw(t, "xvalKind") {
				case 0:
					val = []byte{}
				case 1:
					val = []byte(rapid.SampledFrom([]string{"text/plain", "1", "value with space", "üñí", "\x00", "\x00\x00\x00"}).Draw(t, "xvalText"))
				case 2, 3:
					val = rapid.SliceOfN(rapid.Byte(), 1, 64).Draw(t, "xvalBytes")
				default:
					val = vBytesC01('r', rapid.Uint64().Draw(t, "xvalSeed"), rapid.IntRange(300, 3000).Draw(t, "xvalLen"))
				}
				e.Xattrs = append(e.Xattrs, vXattrC01{name, val})
			}
		}
		if caps.ACL && (e.Kind == 'f' || e.Kind == 'd') && rapid.IntRange(0, 4).Draw(t, "acl") == 0 {
			acl := vACLC01(uint16(perm>>6&7), uint16(rapid.IntRange(0, 7).Draw(t, "aclGroup")), uint16(perm>>3&7), uint16(perm&7), rapid.SampledFrom([]uint32{1, 1000, 65534}).Draw(t, "aclUID"))
			e.Xattrs = append(e.Xattrs, vXattrC01{"system.posix_acl_access", acl})
			if e.Kind == 'd' && rapid.Bool().Draw(t, "aclDefault") {
				e.Xattrs = append(e.Xattrs, vXattrC01{"system.posix_acl_default", acl})
			}
		}
	}
	e.NX = len(e.Xattrs)
}

// vGenSegsC01 draws the content layout of one regular file. slots is the remaining
// number of "big" (>= 512 KiB) files the tree may still contain.
func vGenSegsC01(t *rapid.T, slots *int, big, huge *bool) (segs []vSegC01, class string) {
	seed := func() uint64 { return rapid.Uint64().Draw(t, "seed") }
	kind := func() byte { return rapid.SampledFrom([]byte{'r', 'r', 't'}).Draw(t, "segKind") }
	c := rapid.IntRange(0, 99).Draw(t, "sizeClass")
	switch {
	case *huge && c < 50:
		// > 25 blobs (the restorer's "large file" path): mostly holes with small islands of data
		*huge = false
		n := rapid.IntRange(26, 34).Draw(t, "hugeChunks")
		segs = append(segs, vSegC01{K: 'r', N: rapid.IntRange(1, 70000).Draw(t, "hugeHead"), Seed: seed()})
		segs = append(segs, vSegC01{K: 'z', N: n * vMinChunkC01 / 2, Hole: true})
		segs = append(segs, vSegC01{K: 't', N: rapid.IntRange(1, 70000).Draw(t, "hugeMid"), Seed: seed()})
		segs = append(segs, vSegC01{K: 'z', N: n*vMinChunkC01/2 + rapid.IntRange(0, 4096).Draw(t, "hugeOdd"), Hole: rapid.Bool().Draw(t, "hugeHole")})
		if rapid.Bool().Draw(t, "hugeTail") {
			segs = append(segs, vSegC01{K: 'r', N: rapid.IntRange(1, 5000).Draw(t, "hugeTailLen"), Seed: seed()})
		}
		return segs, "content=manyblobs(>25)"
	case *big && c < 50:
		// several MiB of real data
		*big = false
		n := rapid.IntRange(3<<20, 8<<20).Draw(t, "bigLen")
		return []vSegC01{{K: kind(), N: n / 2, Seed: seed()}, {K: kind(), N: n - n/2, Seed: seed()}}, "content=several-MiB"
	case *slots > 0 && c < 30:
		*slots--
		switch rapid.IntRange(0, 4).Draw(t, "bigKind") {
		case 0: // multi chunk data
			return []vSegC01{{K: kind(), N: rapid.IntRange(vMinChunkC01+1, 5*vMinChunkC01).Draw(t, "mcLen"), Seed: seed()}}, "content=multichunk"
		case 1: // the same non-zero chunk twice or more: A = data ++ zeros up to the minimum chunk size
			n := rapid.IntRange(1, 200000).Draw(t, "repData")
			s, k := seed(), kind()
			reps := rapid.IntRange(2, 3).Draw(t, "reps")
			for i := 0; i < reps; i++ {
				segs = append(segs, vSegC01{K: k, N: n, Seed: s}, vSegC01{K: 'z', N: vMinChunkC01 - n, Hole: rapid.Bool().Draw(t, "repHole")})
			}
			if rapid.Bool().Draw(t, "repTail") {
				segs = append(segs, vSegC01{K: 'r', N: rapid.IntRange(1, 3000).Draw(t, "repTailLen"), Seed: seed()})
			}
			return segs, "content=repeated-chunk"
		case 2: // data, a zero run >= 512 KiB, data
			segs = append(segs, vSegC01{K: kind(), N: rapid.IntRange(0, 100000).Draw(t, "spHead"), Seed: seed()})
			segs = append(segs, vSegC01{K: 'z', N: rapid.IntRange(vMinChunkC01, 4*vMinChunkC01).Draw(t, "spRun"), Hole: rapid.IntRange(0, 3).Draw(t, "spHole") > 0})
			segs = append(segs, vSegC01{K: kind(), N: rapid.IntRange(0, 100000).Draw(t, "spTail"), Seed: seed()})
			return segs, "content=zero-run>=512K"
		case 3: // leading zero run that is not a multiple of the chunk size, then data (blob with a zero prefix)
			segs = append(segs, vSegC01{K: 'z', N: rapid.IntRange(1, 3).Draw(t, "zpChunks")*vMinChunkC01 + rapid.IntRange(1, vMinChunkC01-1).Draw(t, "zpOdd"), Hole: rapid.Bool().Draw(t, "zpHole")})
			segs = append(segs, vSegC01{K: kind(), N: rapid.IntRange(1, 300000).Draw(t, "zpData"), Seed: seed()})
			if rapid.Bool().Draw(t, "zpEndHole") {
				segs = append(segs, vSegC01{K: 'z', N: rapid.IntRange(1, 2*vMinChunkC01).Draw(t, "zpEnd"), Hole: true})
			}
			return segs, "content=zero-prefix-blob"
		default: // only zeros
			return []vSegC01{{K: 'z', N: rapid.IntRange(vMinChunkC01, 3*vMinChunkC01+5).Draw(t, "zLen"), Hole: rapid.Bool().Draw(t, "zHole")}}, "content=all-zero>=512K"
		}
	case c < 10:
		return nil, "content=empty"
	case c < 40:
		return []vSegC01{{K: kind(), N: rapid.IntRange(1, 64).Draw(t, "tinyLen"), Seed: seed()}}, "content=tiny"
	case c < 85:
		return []vSegC01{{K: kind(), N: rapid.IntRange(65, 4096).Draw(t, "smallLen"), Seed: seed()}}, "content=small"
	case c < 92:
		return []vSegC01{{K: kind(), N: rapid.IntRange(4097, 300000).Draw(t, "medLen"), Seed: seed()}}, "content=medium"
	default: // small sparse file
		return []vSegC01{{K: 'r', N: rapid.IntRange(0, 100).Draw(t, "ssHead"), Seed: seed()},
			{K: 'z', N: rapid.IntRange(1, 200000).Draw(t, "ssRun"), Hole: true},
			{K: 'r', N: rapid.IntRange(0, 100).Draw(t, "ssTail"), Seed: seed()}}, "content=small-sparse"
	}
}

func vGenSpecC01(t *rapid.T, caps vCapsC01) (*vSpecC01, []string) {
	sp := &vSpecC01{}
	var classes []string
	sp.Root = vEntC01{Kind: 'd', Parent: -1}
	vGenMetaC01(t, &sp.Root, caps)
	n := rapid.IntRange(1, 40).Draw(t, "entries")
	slots := rapid.SampledFrom([]int{0, 0, 1, 1, 2, 3}).Draw(t, "bigSlots")
	big := rapid.IntRange(0, 9).Draw(t, "severalMiB") == 0
	huge := rapid.IntRange(0, 15).Draw(t, "manyBlobs") == 0
	dirs := []int{-1}
	depth := map[int]int{-1: 0}
	used := map[string]bool{}
	var linkable, linkableSpecial []int
	for i := 0; i < n; i++ {
		e := vEntC01{}
		e.Parent = dirs[rapid.IntRange(0, len(dirs)-1).Draw(t, "parent")]
		e.Name = vGenNameC01(t, caps)
		ppath := ""
		if e.Parent >= 0 {
			ppath = sp.Ents[e.Parent].path + "/"
		}
		e.path = ppath + e.Name
		if used[e.path] {
			e.Name = fmt.Sprintf("%s~%d", e.Name, i)
			if len(e.Name) > 255 {
				e.Name = fmt.Sprintf("dup~%d", i)
			}
			e.path = ppath + e.Name
		}
		used[e.path] = true
		e.QName = fmt.Sprintf("%q", e.Name)
		k := rapid.IntRange(0, 99).Draw(t, "kind")
		switch {
		case k < 42:
			e.Kind = 'f'
		case k < 62:
			e.Kind = 'd'
		case k < 73:
			e.Kind = 'l'
		case k < 83:
			e.Kind = 'h'
		case k < 88:
			e.Kind = 'p'
		case k < 92:
			e.Kind = 'c'
		case k < 95:
			e.Kind = 'b'
		case k < 98:
			e.Kind = 's'
		default:
			e.Kind = 'H' // hard link to a non-regular entry
		}
		if e.Kind == 'd' && depth[e.Parent] >= 4 {
			e.Kind = 'f'
		}
		if e.Kind == 'h' && len(linkable) == 0 {
			e.Kind = 'f'
		}
		if e.Kind == 'H' && len(linkableSpecial) == 0 {
			e.Kind = 'l'
		}
		if (e.Kind == 'c' || e.Kind == 'b') && !caps.Mknod {
			classes = append(classes, "dropped=device")
			e.Kind = 'f'
		}
		if e.Kind == 'p' && !caps.Fifo {
			classes = append(classes, "dropped=fifo")
			e.Kind = 'f'
		}
		if e.Kind == 's' && !caps.Socket {
			classes = append(classes, "dropped=socket")
			e.Kind = 'f'
		}
		switch e.Kind {
		case 'f':
			var cl string
			e.Segs, cl = vGenSegsC01(t, &slots, &big, &huge)
			classes = append(classes, cl)
			vGenMetaC01(t, &e, caps)
			linkable = append(linkable, i)
		case 'd':
			vGenMetaC01(t, &e, caps)
			dirs = append(dirs, i)
			depth[i] = depth[e.Parent] + 1
		case 'l':
			e.Target = vGenTargetC01(t, caps)
			e.QTarget = fmt.Sprintf("%q", e.Target)
			vGenMetaC01(t, &e, caps)
			if caps.LinkSymlink {
				linkableSpecial = append(linkableSpecial, i)
			}
		case 'h':
			e.LinkTo = linkable[rapid.IntRange(0, len(linkable)-1).Draw(t, "linkTo")]
		case 'H':
			e.LinkTo = linkableSpecial[rapid.IntRange(0, len(linkableSpecial)-1).Draw(t, "linkToSpecial")]
		case 'c', 'b':
			e.Rdev = rapid.SampledFrom([]uint64{unix.Mkdev(1, 3), unix.Mkdev(0, 0), unix.Mkdev(8, 1), unix.Mkdev(255, 255), unix.Mkdev(4095, 1048575), unix.Mkdev(259, 65536), unix.Mkdev(0, 1), unix.Mkdev(1, 0)}).Draw(t, "rdev")
			vGenMetaC01(t, &e, caps)
			if caps.LinkSpecial {
				linkableSpecial = append(linkableSpecial, i)
			}
		case 'p':
			vGenMetaC01(t, &e, caps)
			if caps.LinkSpecial {
				linkableSpecial = append(linkableSpecial, i)
			}
		case 's':
			vGenMetaC01(t, &e, caps)
		}
		sp.Ents = append(sp.Ents, e)
	}
	return sp, classes
}

func vGenCfgC01(t *rapid.T) vCfgC01 {
	return vCfgC01{
		Vmem:        rapid.Bool().Draw(t, "vmem"),
		Version:     rapid.SampledFrom([]string{"1", "2", "2"}).Draw(t, "version"),
		Compression: rapid.SampledFrom([]string{"off", "off", "auto", "auto", "auto", "auto", "max", "fastest", "better"}).Draw(t, "compression"),
		PackSize:    rapid.SampledFrom([]uint{0, 4, 4, 16, 128, 7}).Draw(t, "packSize"),
		ReadConc:    uint(rapid.IntRange(0, 8).Draw(t, "readConcurrency")),
		Conns:       rapid.SampledFrom([]uint{1, 2, 5, 8}).Draw(t, "connections"),
		WithAtime:   rapid.Bool().Draw(t, "withAtime"),
		Sparse:      rapid.Bool().Draw(t, "sparse"),
		Verify:      rapid.IntRange(0, 3).Draw(t, "verify") == 0,
		Subfolder:   rapid.IntRange(0, 3).Draw(t, "subfolder") == 0,
	}
}

// vBytesC01 expands (kind, seed, n) deterministically.
func vBytesC01(kind byte, seed uint64, n int) []byte {
	b := make([]byte, n)
	switch kind {
	case 'z':
	case 't':
		r := rand.New(rand.NewPCG(seed, 0xc01))
		words := []string{"restic ", "backup ", "snapshot ", "tree ", "blob ", "pack ", "index ", "the ", "quick ", "brown ", "fox\n", "0123456789 "}
		for i := 0; i < n; {
			i += copy(b[i:], words[r.IntN(len(words))])
		}
	default:
		r := rand.New(rand.NewPCG(seed, 0xc01))
		i := 0
		for ; i+8 <= n; i += 8 {
			binary.LittleEndian.PutUint64(b[i:], r.Uint64())
		}
		for ; i < n; i++ {
			b[i] = byte(r.Uint32())
		}
	}
	return b
}

// ---------------------------------------------------------------------------
// materialisation

func vWriteFileC01(path string, segs []vSegC01) error {
	f, err := os.OpenFile(path, os.O_CREATE|os.O_EXCL|os.O_WRONLY, 0o600)
	if err != nil {
		return err
	}
	defer f.Close()
	off := int64(0)
	for _, s := range segs {
		if !(s.K == 'z' && s.Hole) && s.N > 0 {
			if _, err := f.WriteAt(vBytesC01(s.K, s.Seed, s.N), off); err != nil {
				return err
			}
		}
		off += int64(s.N)
	}
	return f.Truncate(off)
}

func vApplyMetaC01(path string, e *vEntC01, st *verifkit.Stats) error {
	if e.UID != 0 || e.GID != 0 {
		if err := os.Lchown(path, int(e.UID), int(e.GID)); err != nil {
			return fmt.Errorf("lchown %q: %w", path, err)
		}
	}
	for _, x := range e.Xattrs {
		if err := unix.Lsetxattr(path, x.Name, x.Val, 0); err != nil {
			// no space for the attribute, name not acceptable for this inode type, ...: dropped and counted
			st.Class("dropped=xattr:" + err.Error())
		}
	}
	if e.Kind != 'l' {
		if err := unix.Fchmodat(unix.AT_FDCWD, path, e.Mode, 0); err != nil {
			return fmt.Errorf("chmod %q: %w", path, err)
		}
	}
	if err := vSetTimesC01(path, e.Asec, e.Ansec, e.Msec, e.Mnsec); err != nil {
		return fmt.Errorf("utimes %q: %w", path, err)
	}
	return nil
}

func (sp *vSpecC01) Materialize(root string, st *verifkit.Stats) error {
	for i := range sp.Ents {
		e := &sp.Ents[i]
		full := root + "/" + e.path
		var err error
		switch e.Kind {
		case 'f':
			err = vWriteFileC01(full, e.Segs)
		case 'd':
			err = os.Mkdir(full, 0o700)
		case 'l':
			err = os.Symlink(e.Target, full)
		case 'h', 'H':
			err = os.Link(root+"/"+sp.Ents[e.LinkTo].path, full)
		case 'p':
			err = unix.Mknod(full, unix.S_IFIFO|0o600, 0)
		case 'c':
			err = unix.Mknod(full, unix.S_IFCHR|0o600, int(e.Rdev))
		case 'b':
			err = unix.Mknod(full, unix.S_IFBLK|0o600, int(e.Rdev))
		case 's':
			err = unix.Mknod(full, unix.S_IFSOCK|0o600, 0)
		}
		if err != nil {
			return fmt.Errorf("create %c %q: %w", e.Kind, e.path, err)
		}
	}
	// metadata: children before parents, hard links have none of their own
	for i := len(sp.Ents) - 1; i >= 0; i-- {
		e := &sp.Ents[i]
		if e.Kind == 'h' || e.Kind == 'H' {
			continue
		}
		if err := vApplyMetaC01(root+"/"+e.path, e, st); err != nil {
			return err
		}
	}
	return vApplyMetaC01(root, &sp.Root, st)
}

// ---------------------------------------------------------------------------
// observation: lstat / readlink / read / listxattr

type vObsC01 struct {
	Type   byte // f d l p c b s ?
	Mode   uint32
	Size   int64
	Sum    string
	Target string
	Rdev   uint64
	Msec   int64
	Mnsec  int64
	Asec   int64
	Ansec  int64
	UID    uint32
	GID    uint32
	X      map[string]string
	Dev    uint64
	Ino    uint64
	Nlink  uint64
	Blocks int64
}

func vReaddirC01(dir string) ([]string, error) {
	fd, err := unix.Open(dir, unix.O_RDONLY|unix.O_DIRECTORY|unix.O_NOFOLLOW|unix.O_NOATIME|unix.O_CLOEXEC, 0)
	if err != nil {
		return nil, &os.PathError{Op: "open", Path: dir, Err: err}
	}
	f := os.NewFile(uintptr(fd), dir)
	defer f.Close()
	names, err := f.Readdirnames(-1)
	sort.Strings(names)
	return names, err
}

func vHashFileC01(path string) (string, int64, error) {
	fd, err := unix.Open(path, unix.O_RDONLY|unix.O_NOFOLLOW|unix.O_NOATIME|unix.O_CLOEXEC, 0)
	if err != nil {
		return "", 0, &os.PathError{Op: "open", Path: path, Err: err}
	}
	f := os.NewFile(uintptr(fd), path)
	defer f.Close()
	h := sha256.New()
	buf := make([]byte, 1<<18)
	var n int64
	for {
		k, err := f.Read(buf)
		h.Write(buf[:k])
		n += int64(k)
		if err != nil {
			break
		}
	}
	return hex.EncodeToString(h.Sum(nil)[:16]), n, nil
}

func vXattrsC01(path string) (map[string]string, error) {
	sz, err := unix.Llistxattr(path, nil)
	if err != nil {
		if err == unix.ENOTSUP {
			return nil, nil
		}
		return nil, fmt.Errorf("llistxattr %q: %w", path, err)
	}
	if sz == 0 {
		return nil, nil
	}
	buf := make([]byte, sz+256)
	sz, err = unix.Llistxattr(path, buf)
	if err != nil {
		return nil, fmt.Errorf("llistxattr %q: %w", path, err)
	}
	out := map[string]string{}
	for _, name := range bytes.Split(bytes.TrimSuffix(buf[:sz], []byte{0}), []byte{0}) {
		vb := make([]byte, 70000)
		n, err := unix.Lgetxattr(path, string(name), vb)
		if err != nil {
			return nil, fmt.Errorf("lgetxattr %q %q: %w", path, name, err)
		}
		out[string(name)] = string(vb[:n])
	}
	return out, nil
}

func vLstatC01(path string, content bool, sums map[[2]uint64]string) (*vObsC01, error) {
	var st unix.Stat_t
	if err := unix.Lstat(path, &st); err != nil {
		return nil, &os.PathError{Op: "lstat", Path: path, Err: err}
	}
	o := &vObsC01{Mode: st.Mode & 0o7777, Size: st.Size, Rdev: st.Rdev, Msec: st.Mtim.Sec, Mnsec: st.Mtim.Nsec, Asec: st.Atim.Sec, Ansec: st.Atim.Nsec,
		UID: st.Uid, GID: st.Gid, Dev: st.Dev, Ino: st.Ino, Nlink: uint64(st.Nlink), Blocks: st.Blocks}
	switch st.Mode & unix.S_IFMT {
	case unix.S_IFREG:
		o.Type = 'f'
	case unix.S_IFDIR:
		o.Type = 'd'
	case unix.S_IFLNK:
		o.Type = 'l'
	case unix.S_IFIFO:
		o.Type = 'p'
	case unix.S_IFCHR:
		o.Type = 'c'
	case unix.S_IFBLK:
		o.Type = 'b'
	case unix.S_IFSOCK:
		o.Type = 's'
	default:
		o.Type = '?'
	}
	var err error
	if o.X, err = vXattrsC01(path); err != nil {
		return nil, err
	}
	switch o.Type {
	case 'l':
		buf := make([]byte, 8192)
		n, err := unix.Readlink(path, buf)
		if err != nil {
			return nil, &os.PathError{Op: "readlink", Path: path, Err: err}
		}
		o.Target = string(buf[:n])
	case 'f':
		if content {
			key := [2]uint64{st.Dev, st.Ino}
			if s, ok := sums[key]; ok {
				o.Sum = s
			} else {
				s, n, err := vHashFileC01(path)
				if err != nil {
					return nil, err
				}
				if n != st.Size {
					return nil, fmt.Errorf("%q: read %d bytes, lstat size %d", path, n, st.Size)
				}
				o.Sum = s
				sums[key] = s
			}
		}
	}
	return o, nil
}

// vScanC01 observes root ("" key) and everything below it (keys are slash separated raw names).
func vScanC01(root string, content bool) (map[string]*vObsC01, error) {
	out := map[string]*vObsC01{}
	sums := map[[2]uint64]string{}
	var walk func(rel string) error
	walk = func(rel string) error {
		full := root
		if rel != "" {
			full = root + "/" + rel
		}
		o, err := vLstatC01(full, content, sums)
		if err != nil {
			return err
		}
		out[rel] = o
		if o.Type != 'd' {
			return nil
		}
		names, err := vReaddirC01(full)
		if err != nil {
			return err
		}
		for _, n := range names {
			sub := n
			if rel != "" {
				sub = rel + "/" + n
			}
			if err := walk(sub); err != nil {
				return err
			}
		}
		return nil
	}
	return out, walk("")
}

// vPartitionC01 returns the hard-link groups (>= 2 names) of the non-directories, canonically.
func vPartitionC01(m map[string]*vObsC01, skipSockets bool) (all []string, nonRegular []string) {
	groups := map[[2]uint64][]string{}
	for p, o := range m {
		if o.Type == 'd' || (skipSockets && o.Type == 's') {
			continue
		}
		k := [2]uint64{o.Dev, o.Ino}
		groups[k] = append(groups[k], p)
	}
	for k, g := range groups {
		if len(g) < 2 {
			continue
		}
		sort.Strings(g)
		s := fmt.Sprintf("%q", g)
		all = append(all, s)
		if m[groups[k][0]].Type != 'f' {
			nonRegular = append(nonRegular, s)
		}
	}
	sort.Strings(all)
	sort.Strings(nonRegular)
	return
}

// vDiffItemC01 is one difference; known is the key of the known finding whose exact
// shape it has ("" = none).
type vDiffItemC01 struct {
	msg   string
	known string
}

type vDiffC01 struct {
	items []vDiffItemC01
}

func (d *vDiffC01) add(known, format string, args ...any) {
	d.items = append(d.items, vDiffItemC01{fmt.Sprintf(format, args...), known})
}

func (d *vDiffC01) String() string {
	var all []string
	for _, it := range d.items {
		all = append(all, it.msg)
	}
	if len(all) > 12 {
		all = append(all[:12], fmt.Sprintf("... %d more", len(all)-12))
	}
	return strings.Join(all, "\n  ")
}

const (
	vKnownHardlinkNonRegularC01 = "C01:hardlinked-nonregular-not-linked"
	vKnownXattrNameC01          = "C01:xattr-name-invalid-utf8-mangled"
	vKnownMtimeOverflowC01      = "C01:mtime-beyond-2262-unixnano-overflow"
)

// vCompareC01 compares the observed source with the observed restored tree.
func vCompareC01(src, srcAfter, dst map[string]*vObsC01, withAtime, rootMeta bool) *vDiffC01 {
	d := &vDiffC01{}
	var paths []string
	for p := range src {
		paths = append(paths, p)
	}
	sort.Strings(paths)
	for _, p := range paths {
		s := src[p]
		g, ok := dst[p]
		if s.Type == 's' {
			if ok {
				d.add("", "%q: socket was restored as %c", p, g.Type)
			}
			continue
		}
		if !ok {
			d.add("", "%q (%c): missing in restored tree", p, s.Type)
			continue
		}
		if s.Type != g.Type {
			d.add("", "%q: type %c restored as %c", p, s.Type, g.Type)
			continue
		}
		if p == "" && !rootMeta {
			continue
		}
		var diffs []string
		switch s.Type {
		case 'f':
			if s.Size != g.Size {
				diffs = append(diffs, fmt.Sprintf("size %d != %d", g.Size, s.Size))
			}
			if s.Sum != g.Sum {
				diffs = append(diffs, fmt.Sprintf("content %s != %s (size %d)", g.Sum, s.Sum, s.Size))
			}
		case 'l':
			if s.Target != g.Target {
				diffs = append(diffs, fmt.Sprintf("target %q != %q", g.Target, s.Target))
			}
		case 'c', 'b':
			if s.Rdev != g.Rdev {
				diffs = append(diffs, fmt.Sprintf("rdev %#x != %#x", g.Rdev, s.Rdev))
			}
		}
		if s.Type != 'l' && s.Mode != g.Mode {
			diffs = append(diffs, fmt.Sprintf("mode %04o != %04o", g.Mode, s.Mode))
		}
		if s.Msec != g.Msec || s.Mnsec != g.Mnsec {
			if vBeyondUnixNanoC01(s.Msec, s.Mnsec) {
				// known shape, narrowly: the source mtime is later than 2262-04-11T23:47:16.854775807Z
				d.add(vKnownMtimeOverflowC01, "%q (%c): mtime %d.%09d != %d.%09d", p, s.Type, g.Msec, g.Mnsec, s.Msec, s.Mnsec)
			} else {
				diffs = append(diffs, fmt.Sprintf("mtime %d.%09d != %d.%09d", g.Msec, g.Mnsec, s.Msec, s.Mnsec))
			}
		}
		if s.UID != g.UID || s.GID != g.GID {
			diffs = append(diffs, fmt.Sprintf("owner %d:%d != %d:%d", g.UID, g.GID, s.UID, s.GID))
		}
		// xattrs; the shape "name is not valid UTF-8 and comes back with U+FFFD" is kept apart
		var mangled []string
		mangledTo := map[string]bool{}
		for k, v := range s.X {
			gv, ok := g.X[k]
			switch {
			case !ok && !utf8.ValidString(k) && g.X[vJSONStringC01(k)] == v:
				mangled = append(mangled, fmt.Sprintf("xattr %q restored as %q", k, vJSONStringC01(k)))
				mangledTo[vJSONStringC01(k)] = true
			case !ok:
				diffs = append(diffs, fmt.Sprintf("xattr %q missing", k))
			case gv != v:
				diffs = append(diffs, fmt.Sprintf("xattr %q value %q != %q", k, vShortC01(gv), vShortC01(v)))
			}
		}
		for k := range g.X {
			if _, ok := s.X[k]; !ok && !mangledTo[k] {
				diffs = append(diffs, fmt.Sprintf("xattr %q unexpected", k))
			}
		}
		sort.Strings(diffs)
		sort.Strings(mangled)
		if len(diffs) > 0 {
			d.add("", "%q (%c): %s", p, s.Type, strings.Join(diffs, ", "))
		}
		if len(mangled) > 0 {
			d.add(vKnownXattrNameC01, "%q (%c): %s", p, s.Type, strings.Join(mangled, ", "))
		}
		if withAtime {
			a := srcAfter[p]
			// the atime restic stored was read between the two observations of the source
			if a != nil && a.Asec == s.Asec && a.Ansec == s.Ansec && (g.Asec != s.Asec || g.Ansec != s.Ansec) {
				known := ""
				if vBeyondUnixNanoC01(s.Asec, s.Ansec) {
					known = vKnownMtimeOverflowC01
				}
				d.add(known, "%q (%c): atime %d.%09d != %d.%09d (--with-atime)", p, s.Type, g.Asec, g.Ansec, s.Asec, s.Ansec)
			}
		}
	}
	var extra []string
	for p := range dst {
		if _, ok := src[p]; !ok {
			extra = append(extra, p)
		}
	}
	sort.Strings(extra)
	for _, p := range extra {
		d.add("", "%q (%c): unexpected in restored tree", p, dst[p].Type)
	}
	// hard-link partition
	sAll, sNon := vPartitionC01(src, true)
	gAll, gNon := vPartitionC01(dst, true)
	isNon := map[string]bool{}
	for _, s := range append(sNon, gNon...) {
		isNon[s] = true
	}
	inS, inG := map[string]bool{}, map[string]bool{}
	for _, s := range sAll {
		inS[s] = true
	}
	for _, s := range gAll {
		inG[s] = true
	}
	members := func(m map[string]*vObsC01) map[string][]string {
		byIno := map[[2]uint64][]string{}
		for p, o := range m {
			if o.Type != 'd' && o.Type != 's' {
				byIno[[2]uint64{o.Dev, o.Ino}] = append(byIno[[2]uint64{o.Dev, o.Ino}], p)
			}
		}
		out := map[string][]string{}
		for _, g := range byIno {
			sort.Strings(g)
			out[fmt.Sprintf("%q", g)] = g
		}
		return out
	}
	srcGroups := members(src)
	for _, s := range sAll {
		if !inG[s] {
			// known shape, narrowly: a group of non-regular entries (one inode, hence one type) whose
			// names all come back as independent inodes (link count 1) of that type
			known := ""
			if isNon[s] {
				known = vKnownHardlinkNonRegularC01
				for _, p := range srcGroups[s] {
					if g := dst[p]; g == nil || g.Type != src[p].Type || g.Nlink != 1 {
						known = ""
					}
				}
			}
			d.add(known, "hard-link group of the source is not a group of the restored tree: %s", s)
		}
	}
	for _, s := range gAll {
		if !inS[s] {
			d.add("", "restored tree links entries that are not linked in the source: %s", s)
		}
	}
	return d
}

// vJSONStringC01 is what encoding/json makes of a string: every invalid byte becomes U+FFFD.
func vJSONStringC01(s string) string {
	var sb strings.Builder
	for i := 0; i < len(s); {
		r, w := utf8.DecodeRuneInString(s[i:])
		if r == utf8.RuneError && w == 1 {
			sb.WriteString("\ufffd")
		} else {
			sb.WriteString(s[i : i+w])
		}
		i += w
	}
	return sb.String()
}

// vBeyondUnixNanoC01: the time stamp is later than the largest value of time.Time.UnixNano.
func vBeyondUnixNanoC01(sec, nsec int64) bool {
	return sec > 9223372036 || (sec == 9223372036 && nsec > 854775807)
}

func vShortC01(s string) string {
	if len(s) > 24 {
		return s[:24] + fmt.Sprintf("...(%d)", len(s))
	}
	return s
}

// ---------------------------------------------------------------------------

func vCompressionC01(s string) repository.CompressionMode {
	var m repository.CompressionMode
	if err := m.Set(s); err != nil {
		panic(err)
	}
	return m
}

func TestVerifC01RoundTrip(t *testing.T) {
	vSetup(t)
	st := verifkit.Begin(t, "C01")
	caps := vProbeCapsC01()
	st.Note("capabilities", fmt.Sprintf("%+v", caps))
	rapid.Check(t, func(t *rapid.T) {
		cfg := vGenCfgC01(t)
		sp, classes := vGenSpecC01(t, caps)
		sp.Cfg = cfg
		vRunC01(t, st, sp, classes)
	})
}

// vFatalC01 is the part of *rapid.T / *testing.T the round trip needs.
type vFatalC01 interface {
	Fatalf(format string, args ...any)
}

// vRunC01 materialises sp, runs backup and restore with sp.Cfg and applies the oracle.
func vRunC01(t vFatalC01, st *verifkit.Stats, sp *vSpecC01, classes []string) {
	cfg := sp.Cfg
	e, err := vNewEnv(cfg.Vmem)
	if err != nil {
		t.Fatalf("harness: %v", err)
	}
	defer e.Close()
	e.gopts.Compression = vCompressionC01(cfg.Compression)
	e.gopts.PackSize = cfg.PackSize
	if cfg.Vmem {
		e.store.Conns = cfg.Conns
	} else {
		e.gopts.Extended["local.connections"] = fmt.Sprint(cfg.Conns)
	}
	if err := e.Init(cfg.Version); err != nil {
		t.Fatalf("init: %v", err)
	}
	src := e.Scratch("src-")
	if err := sp.Materialize(src, st); err != nil {
		t.Fatalf("harness: materialize: %v", err)
	}
	before, err := vScanC01(src, true)
	if err != nil {
		t.Fatalf("harness: scan source: %v", err)
	}

	out, err := e.BackupOut(context.Background(), e.gopts, []string{src}, BackupOptions{ReadConcurrency: cfg.ReadConc, WithAtime: cfg.WithAtime})
	if err != nil {
		t.Fatalf("backup failed: %v\n%s%s\nspec %s", err, out.Stdout, out.Stderr, vJSON(sp))
	}
	after, err := vScanC01(src, false)
	if err != nil {
		t.Fatalf("harness: rescan source: %v", err)
	}
	ids, err := e.SnapshotIDs()
	if err != nil || len(ids) != 1 {
		t.Fatalf("expected one snapshot, got %v (%v)", ids, err)
	}

	target := e.Scratch("restore-")
	snap, restoredRoot := ids[0], target+src
	if cfg.Subfolder {
		snap, restoredRoot = ids[0]+":"+src, target
	}
	ropts := RestoreOptions{Sparse: cfg.Sparse, Verify: cfg.Verify}
	if err := e.Restore(snap, target, ropts); err != nil {
		t.Fatalf("restore failed: %v\nspec %s", err, vJSON(sp))
	}
	got, err := vScanC01(restoredRoot, true)
	if err != nil {
		t.Fatalf("harness: scan restored tree: %v", err)
	}

	// classes, measured on what is really on disk
	var nonUTF8, special, sockets, xattrs, multichunk, zerorun, symlinks, dirs, files, oddTime, farTime, sbits, owned int
	for p, o := range before {
		if !utf8.ValidString(p) {
			nonUTF8++
		}
		switch o.Type {
		case 'p', 'c', 'b':
			special++
		case 's':
			sockets++
		case 'l':
			symlinks++
		case 'd':
			dirs++
		case 'f':
			files++
			if o.Size > vMinChunkC01 {
				multichunk++
			}
		}
		if len(o.X) > 0 {
			xattrs++
		}
		if o.Msec < 0 || o.Msec > 1<<31 {
			oddTime++
		}
		if vBeyondUnixNanoC01(o.Msec, o.Mnsec) {
			farTime++
		}
		if o.Mode&0o7000 != 0 {
			sbits++
		}
		if o.UID != 0 || o.GID != 0 {
			owned++
		}
	}
	for i := range sp.Ents {
		for _, s := range sp.Ents[i].Segs {
			if s.K == 'z' && s.N >= vMinChunkC01 {
				zerorun++
				break
			}
		}
	}
	groups, groupsNon := vPartitionC01(before, true)
	b2c := func(label string, n int) string {
		if n > 0 {
			return label + "=yes"
		}
		return label + "=no"
	}
	classes = append(classes, b2c("nonutf8-name", nonUTF8), b2c("special-file", special), b2c("socket", sockets), b2c("xattr", xattrs),
		b2c("multichunk-file", multichunk), b2c("zero-run>=512K", zerorun), b2c("hardlink-group", len(groups)), b2c("hardlink-group-nonregular", len(groupsNon)),
		b2c("symlink", symlinks), b2c("odd-mtime", oddTime), b2c("mtime>2262", farTime), b2c("special-mode-bits", sbits), b2c("owner!=root", owned),
		"repo=v"+cfg.Version, "compression="+cfg.Compression, fmt.Sprintf("packsize=%d", cfg.PackSize), fmt.Sprintf("readconc=%d", cfg.ReadConc),
		fmt.Sprintf("vmem=%v", cfg.Vmem), fmt.Sprintf("with-atime=%v", cfg.WithAtime), fmt.Sprintf("restore-sparse=%v", cfg.Sparse),
		fmt.Sprintf("restore-verify=%v", cfg.Verify), fmt.Sprintf("restore-subfolder=%v", cfg.Subfolder))
	key := ""
	if nonUTF8+special+xattrs+multichunk+zerorun+len(groups) > 0 {
		h := sha256.Sum256([]byte(vJSON(sp) + fmt.Sprint(len(before))))
		var names []string
		for p := range before {
			names = append(names, p)
		}
		sort.Strings(names)
		key = hex.EncodeToString(h[:]) + strings.Join(names, "\x00")
	}
	st.Case(key, classes...)
	st.Evals(len(before))
	if st.WantSample() {
		var names []string
		for p, o := range before {
			names = append(names, fmt.Sprintf("%c %q", o.Type, p))
		}
		sort.Strings(names)
		st.Sample(map[string]any{"config": cfg, "entries": names, "hardlink_groups": groups})
	}

	d := vCompareC01(before, after, got, cfg.WithAtime && !cfg.Verify, !cfg.Subfolder)
	// differences that have exactly the shape of a listed known finding are counted, not failed
	var rest []vDiffItemC01
	for _, it := range d.items {
		if it.known != "" && st.Known(it.known) {
			continue
		}
		rest = append(rest, it)
	}
	d.items = rest
	if len(d.items) > 0 {
		t.Fatalf("restored tree differs from the source (restored != source):\n  %s\nconfig %s\nspec %s", d, vJSON(cfg), vJSON(sp))
	}
}

var _ = global.Options{}

// TestVerifC01KnownShapes runs one small fixed tree per known finding, so that the
// KNOWN-FINDING lines do not depend on the seed, plus neighbours of the shapes that
// must round-trip (valid UTF-8 xattr names, hard links between regular files).
func TestVerifC01KnownShapes(t *testing.T) {
	vSetup(t)
	st := verifkit.Begin(t, "C01")
	caps := vProbeCapsC01()
	meta := func(e vEntC01) vEntC01 {
		e.Mode, e.Msec, e.Mnsec, e.Asec, e.Ansec = 0o640, 1500000000, 123456789, 1500000100, 1
		e.QName = fmt.Sprintf("%q", e.Name)
		e.path = e.Name
		e.Parent = -1
		return e
	}
	cfg := vCfgC01{Vmem: true, Version: "2", Compression: "auto", Conns: 2}
	root := meta(vEntC01{Kind: 'd'})
	root.Mode = 0o755
	if caps.UserX && caps.NonUTF8 {
		sp := &vSpecC01{Root: root, Cfg: cfg, Ents: []vEntC01{
			meta(vEntC01{Name: "f", Kind: 'f', Segs: []vSegC01{{K: 't', N: 100, Seed: 1}},
				Xattrs: []vXattrC01{{"user.\xff", []byte("x")}, {"user.valid-\u00fc", []byte("y")}, {"user.lat\xe9n\xfe", []byte{}}}}),
		}}
		vRunC01(t, st, sp, []string{"probe=xattr-name-invalid-utf8"})
	}
	if caps.Time64 {
		// beyond the range of time.Time.UnixNano (2262-04-11), within the range of ext4 (2446)
		far := meta(vEntC01{Name: "far-future", Kind: 'f', Segs: []vSegC01{{K: 't', N: 10, Seed: 3}}})
		far.Msec, far.Mnsec = 10000000000, 5
		far2 := meta(vEntC01{Name: "ext4-max", Kind: 'f'})
		far2.Msec, far2.Mnsec = 15032385535, 999999999
		sp := &vSpecC01{Root: root, Cfg: cfg, Ents: []vEntC01{far, far2}}
		vRunC01(t, st, sp, []string{"probe=mtime-beyond-2262"})
	}
	if caps.LinkSymlink && caps.LinkSpecial && caps.Mknod {
		dev := meta(vEntC01{Name: "cdev", Kind: 'c', Rdev: unix.Mkdev(1, 3)})
		sp := &vSpecC01{Root: root, Cfg: cfg, Ents: []vEntC01{
			meta(vEntC01{Name: "s", Kind: 'l', Target: "f"}),
			meta(vEntC01{Name: "s2", Kind: 'H', LinkTo: 0}),
			meta(vEntC01{Name: "fifo", Kind: 'p'}),
			meta(vEntC01{Name: "fifo2", Kind: 'H', LinkTo: 2}),
			meta(vEntC01{Name: "fifo3", Kind: 'H', LinkTo: 2}),
			dev,
			meta(vEntC01{Name: "cdev2", Kind: 'H', LinkTo: 5}),
			meta(vEntC01{Name: "f", Kind: 'f', Segs: []vSegC01{{K: 'r', N: 10, Seed: 2}}}),
			meta(vEntC01{Name: "f2", Kind: 'h', LinkTo: 7}),
		}}
		vRunC01(t, st, sp, []string{"probe=hardlinked-nonregular"})
	}
}
