package main

// Property C15: `check --read-data` reports no errors on any repository restic itself
// produced, including histories with interrupted runs.
//
// A rapid state machine (t.Repeat) drives two repositories on the recording harness
// backend through the real CLI entry points. Every operation is recorded; with
// probability 1/3 the operation is CUT: the history continues on the state after a drawn
// prefix of its mutating backend operations (locks removed, the process is dead).
//
// Oracles
//   - after every step (invariant action): `check --read-data` returns no error, the set
//     of snapshot files is exactly the model's, and every snapshot restores to its model
//     tree (content, modes, mtimes, link targets);
//   - per operation, over EVERY prefix of its recorded log (cheap, structural): no
//     snapshot of the model disappears unless the command was asked to remove it, a
//     snapshot that is replaced (tag, rewrite --forget) is only removed once its
//     replacement exists, and at least one key with a known password exists.

import (
	"context"
	"encoding/json"
	"fmt"
	"os"
	"path"
	"path/filepath"
	"sort"
	"strings"
	"syscall"
	"testing"
	"time"

	"github.com/restic/restic/internal/backend"
	"github.com/restic/restic/internal/data"
	"github.com/restic/restic/internal/filter"
	"github.com/restic/restic/internal/global"
	"github.com/restic/restic/internal/repository"
	"github.com/restic/restic/internal/verifkit"
	"github.com/restic/restic/internal/verifkit/vbe"
	"pgregory.net/rapid"
)

var vNamesC15 = []string{"aa", "bb", "cc", "dd", "e.txt", "f.txt", "g.dat", "sub", "x y", "über"}

const vPoolC15 = 14

// vSnapC15 is the model of one snapshot.
type vSnapC15 struct {
	Seq  int    // creation order (stable selection key; ids are not reproducible)
	Src  string // absolute source path the tree was backed up from
	Tree vTree
}

type vRepoC15 struct {
	name     string
	env      *vEnv
	src      string
	cur      vTree               // tree currently materialized in src
	models   map[string]vSnapC15 // snapshot id -> model
	keys     map[string]string   // key id -> password
	keySeq   map[string]int
	okDigest string // store digest at the last successful invariant evaluation
	// verified: snapshot id -> digest of the pack/index/config files it was last restored and compared with
	verified map[string]string
}

// dataDigest identifies everything besides the snapshot file that a restore depends on:
// the names of all pack and index files (content-addressed) and the config.
func (r *vRepoC15) dataDigest() string {
	var sb strings.Builder
	for _, tpe := range []backend.FileType{backend.PackFile, backend.IndexFile} {
		sb.WriteString(strings.Join(r.env.store.Keys(tpe), ","))
		sb.WriteString(";")
	}
	cfg, _ := r.env.store.Get(backend.ConfigFile, "")
	sb.Write(cfg)
	return vSum([]byte(sb.String()))
}

type vMachC15 struct {
	st      *verifkit.Stats
	repos   [2]*vRepoC15
	seq     int
	kseq    int
	clock   int
	hist    []string
	ops     int
	crashes int
	prunes  int
	// number of operations executed after the first crashed step
	firstCrash int
	scratch    string
}

// vOpC15 describes one CLI invocation and how it may change the model.
type vOpC15 struct {
	name string
	desc string
	r    *vRepoC15
	run  func(env *vEnv) (vOut, error)
	// derive returns the model of a snapshot that is not in the model yet (Seq = Seq of its predecessor).
	derive func(out vOut, sn *data.Snapshot) (vSnapC15, bool)
	// mayRemove: the command was asked to remove that snapshot
	mayRemove func(id string) bool
	// replaced: old -> new; the old one may only vanish once the new one exists
	replaced     map[string]string
	newKeyPw     string
	mayRemoveKey func(id string) bool
	isPrune      bool
	after        func()
}

func (m *vMachC15) logf(format string, args ...any) {
	m.hist = append(m.hist, fmt.Sprintf(format, args...))
}

func (m *vMachC15) history() string {
	return strings.Join(m.hist, "\n  ")
}

func (m *vMachC15) pickRepo(t *rapid.T) *vRepoC15 {
	return m.repos[rapid.SampledFrom([]int{0, 0, 1}).Draw(t, "repo")]
}

func (m *vMachC15) other(r *vRepoC15) *vRepoC15 {
	if r == m.repos[0] {
		return m.repos[1]
	}
	return m.repos[0]
}

// snapsBySeq lists the model's snapshot ids in creation order.
func (r *vRepoC15) snapsBySeq() []string {
	ids := make([]string, 0, len(r.models))
	for id := range r.models {
		ids = append(ids, id)
	}
	sort.Slice(ids, func(i, j int) bool { return r.models[ids[i]].Seq < r.models[ids[j]].Seq })
	return ids
}

func (r *vRepoC15) keysBySeq() []string {
	ids := make([]string, 0, len(r.keys))
	for id := range r.keys {
		ids = append(ids, id)
	}
	sort.Slice(ids, func(i, j int) bool { return r.keySeq[ids[i]] < r.keySeq[ids[j]] })
	return ids
}

func (r *vRepoC15) currentKey() string {
	for _, id := range r.keysBySeq() {
		if r.keys[id] == r.env.gopts.Password {
			return id
		}
	}
	return ""
}

// pickSnaps draws between lo and hi snapshots (fewer if the model has fewer).
func (r *vRepoC15) pickSnaps(t *rapid.T, label string, lo, hi int) []string {
	ids := r.snapsBySeq()
	if len(ids) == 0 {
		return nil
	}
	if hi > len(ids) {
		hi = len(ids)
	}
	if lo > hi {
		lo = hi
	}
	n := rapid.IntRange(lo, hi).Draw(t, label+"N")
	perm := rapid.Permutation(vRange(len(ids))).Draw(t, label)
	var out []string
	for _, i := range perm[:n] {
		out = append(out, ids[i])
	}
	return out
}

func vShortC15(ids []string) string {
	var s []string
	for _, id := range ids {
		if len(id) > 8 {
			id = id[:8]
		}
		s = append(s, id)
	}
	return strings.Join(s, ",")
}

// ---------------------------------------------------------------------------
// source trees

func vPoolNodeC15(t *rapid.T, mt int64) *vNode {
	nd := &vNode{Kind: 'f', Mode: uint32(rapid.SampledFrom([]int{0o644, 0o600, 0o755, 0o444}).Draw(t, "fmode")), Mtime: mt}
	nd.Seed = uint64(rapid.IntRange(1, vPoolC15).Draw(t, "pool"))
	nd.Len = 200 + int(nd.Seed%7)*311
	return nd
}

func vMtimeC15(t *rapid.T) int64 {
	return int64(1500000000+rapid.IntRange(0, 100000000).Draw(t, "mt"))*1e9 + int64(rapid.IntRange(0, 999).Draw(t, "mtns"))*1000
}

// vMutateTreeC15 applies a few edits to a copy of the tree: remove a subtree, change a
// file, add a file or directory. Unchanged files keep their inode on disk, so a backup
// with parent takes them from the parent snapshot.
func vMutateTreeC15(t *rapid.T, old vTree) vTree {
	tr := old.Clone()
	n := rapid.IntRange(1, 4).Draw(t, "edits")
	for i := 0; i < n; i++ {
		ps := tr.Paths()
		var files []string
		dirs := []string{""}
		for _, p := range ps {
			switch tr[p].Kind {
			case 'f':
				files = append(files, p)
			case 'd':
				if strings.Count(p, "/") < 2 {
					dirs = append(dirs, p)
				}
			}
		}
		kind := rapid.IntRange(0, 3).Draw(t, "edit")
		mt := vMtimeC15(t)
		switch {
		case kind == 0 && len(ps) > 1:
			p := ps[rapid.IntRange(0, len(ps)-1).Draw(t, "rm")]
			for _, q := range ps {
				if q == p || strings.HasPrefix(q, p+"/") {
					delete(tr, q)
				}
			}
		case kind == 1 && len(files) > 0:
			p := files[rapid.IntRange(0, len(files)-1).Draw(t, "chg")]
			tr[p] = vPoolNodeC15(t, mt)
		default:
			parent := dirs[rapid.IntRange(0, len(dirs)-1).Draw(t, "parent")]
			name := rapid.SampledFrom(vNamesC15).Draw(t, "name")
			p := name
			if parent != "" {
				p = parent + "/" + name
			}
			if _, ok := tr[p]; ok {
				continue
			}
			if rapid.IntRange(0, 3).Draw(t, "newdir") == 0 {
				tr[p] = &vNode{Kind: 'd', Mode: 0o755, Mtime: mt}
			} else {
				tr[p] = vPoolNodeC15(t, mt)
			}
		}
	}
	return tr
}

func vSameNodeC15(a, b *vNode) bool {
	if a.Kind != b.Kind {
		return false
	}
	switch a.Kind {
	case 'd':
		return true
	case 'l':
		return a.Target == b.Target && a.Mtime == b.Mtime
	}
	return a.Seed == b.Seed && a.Len == b.Len && a.Zeros == b.Zeros && a.Mode == b.Mode && a.Mtime == b.Mtime
}

// vSyncTreeC15 brings the directory from the old model to the new one touching only
// what changed (plus the metadata of all directories).
func vSyncTreeC15(root string, old, nw vTree) error {
	for _, p := range old.Paths() {
		n, ok := nw[p]
		if !ok || !vSameNodeC15(old[p], n) {
			if err := os.RemoveAll(filepath.Join(root, filepath.FromSlash(p))); err != nil {
				return err
			}
		}
	}
	ps := nw.Paths()
	changed := map[string]bool{}
	for _, p := range ps {
		nd := nw[p]
		if o, ok := old[p]; ok && vSameNodeC15(o, nd) {
			continue
		}
		full := filepath.Join(root, filepath.FromSlash(p))
		changed[p] = true
		switch nd.Kind {
		case 'd':
			if err := os.Mkdir(full, 0o700); err != nil {
				return err
			}
		case 'l':
			if err := os.Symlink(nd.Target, full); err != nil {
				return err
			}
		default:
			if err := os.WriteFile(full, vContent(nd), 0o600); err != nil {
				return err
			}
		}
	}
	for i := len(ps) - 1; i >= 0; i-- {
		nd := nw[ps[i]]
		if nd.Kind != 'd' && !changed[ps[i]] {
			continue
		}
		full := filepath.Join(root, filepath.FromSlash(ps[i]))
		if nd.Kind == 'l' {
			_ = vLutimes(full, nd.Mtime)
			continue
		}
		if err := os.Chmod(full, os.FileMode(nd.Mode)); err != nil {
			return err
		}
		ts := []syscall.Timespec{syscall.NsecToTimespec(nd.Mtime), syscall.NsecToTimespec(nd.Mtime)}
		if err := syscall.UtimesNano(full, ts); err != nil {
			return err
		}
	}
	return nil
}

// vExcludeTreeC15 is the model of `rewrite --exclude pat` for a single-component glob:
// every node with a path component matching the pattern is gone.
func vExcludeTreeC15(tr vTree, pat string) vTree {
	out := vTree{}
	for p, nd := range tr {
		hit := false
		for _, c := range strings.Split(p, "/") {
			if ok, _ := path.Match(pat, c); ok {
				hit = true
			}
		}
		if !hit {
			c := *nd
			out[p] = &c
		}
	}
	return out
}

// ---------------------------------------------------------------------------
// the executor

func vSetOfC15(ids []string) map[string]bool {
	m := map[string]bool{}
	for _, id := range ids {
		m[id] = true
	}
	return m
}

func (m *vMachC15) exec(t *rapid.T, op *vOpC15) {
	r := op.r
	crash := rapid.IntRange(0, 2).Draw(t, "crash") == 0
	st := r.env.store
	st.StartRecording(vbe.NoFaults())
	out, err := op.run(r.env)
	log := st.StopRecording()
	if op.after != nil {
		op.after()
	}
	m.ops++
	m.logf("%s[%s] %s (%d backend ops)", op.name, r.name, op.desc, len(log))
	if err != nil {
		t.Fatalf("%s on %s failed on a healthy backend: %v\n%s%s\nhistory:\n  %s", op.name, r.name, err, out.Stdout, out.Stderr, m.history())
	}
	if op.isPrune {
		m.prunes++
	}
	m.st.Class("op=" + op.name)

	// --- keys of the complete run
	newKeys := map[string]string{}
	present := vSetOfC15(st.Keys(backend.KeyFile))
	for id := range present {
		if _, ok := r.keys[id]; !ok {
			if op.newKeyPw == "" {
				t.Fatalf("%s created the unexpected key file %s\nhistory:\n  %s", op.name, id, m.history())
			}
			newKeys[id] = op.newKeyPw
		}
	}
	for id := range r.keys {
		if !present[id] && (op.mayRemoveKey == nil || !op.mayRemoveKey(id)) {
			t.Fatalf("%s removed key %s\nhistory:\n  %s", op.name, id, m.history())
		}
	}
	oldKeys := r.keys
	adoptKeys := func(s *vbe.Store) {
		nk := map[string]string{}
		for _, id := range s.Keys(backend.KeyFile) {
			if pw, ok := oldKeys[id]; ok {
				nk[id] = pw
			} else if pw, ok := newKeys[id]; ok {
				nk[id] = pw
				if _, ok := r.keySeq[id]; !ok {
					m.kseq++
					r.keySeq[id] = m.kseq
				}
			} else {
				t.Fatalf("unknown key file %s after %s\nhistory:\n  %s", id, op.name, m.history())
			}
		}
		if len(nk) == 0 {
			t.Fatalf("no key file left after %s\nhistory:\n  %s", op.name, m.history())
		}
		r.keys = nk
		if r.currentKey() == "" {
			r.env.gopts.Password = r.keys[r.keysBySeq()[0]]
		}
	}
	adoptKeys(st)

	// --- snapshots of the complete run
	after, err := r.env.Snapshots()
	if err != nil {
		t.Fatalf("listing snapshots after %s: %v\nhistory:\n  %s", op.name, err, m.history())
	}
	type newSnap struct {
		id string
		m  vSnapC15
	}
	var fresh []newSnap
	afterSet := map[string]bool{}
	for _, sn := range after {
		id := sn.ID().String()
		afterSet[id] = true
		if _, ok := r.models[id]; ok {
			continue
		}
		var d vSnapC15
		ok := false
		if op.derive != nil {
			d, ok = op.derive(out, sn)
		}
		if !ok {
			t.Fatalf("%s created snapshot %s which the model cannot explain (original %v)\n%s%s\nhistory:\n  %s", op.name, id[:8], sn.Original, out.Stdout, out.Stderr, m.history())
		}
		fresh = append(fresh, newSnap{id, d})
	}
	sort.SliceStable(fresh, func(i, j int) bool { return fresh[i].m.Seq < fresh[j].m.Seq })
	newModels := map[string]vSnapC15{}
	for _, f := range fresh {
		m.seq++
		f.m.Seq = m.seq
		newModels[f.id] = f.m
	}
	for id := range r.models {
		if !afterSet[id] && (op.mayRemove == nil || !op.mayRemove(id)) {
			t.Fatalf("%s removed snapshot %s although it was not asked to\n%s%s\nhistory:\n  %s", op.name, id[:8], out.Stdout, out.Stderr, m.history())
		}
	}

	// --- structural oracle over every prefix of the recorded log
	snapNow := map[string]bool{}
	keyNow := map[string]bool{}
	for id := range r.models {
		snapNow[id] = true
	}
	for id := range oldKeys {
		keyNow[id] = true
	}
	prefixOK := func(k int) {
		for id := range r.models {
			if snapNow[id] {
				continue
			}
			if afterSet[id] {
				t.Fatalf("%s: snapshot %s is absent after %d of %d backend operations but present at the end\n%s\nhistory:\n  %s", op.name, id[:8], k, len(log), vOpsStringC15(log), m.history())
			}
			if n, ok := op.replaced[id]; ok && !snapNow[n] {
				t.Fatalf("%s: a crash after %d of %d backend operations loses snapshot %s: it is removed before its replacement %s exists\n%s\nhistory:\n  %s", op.name, k, len(log), id[:8], n[:8], vOpsStringC15(log), m.history())
			}
		}
		n := 0
		for id, there := range keyNow {
			_, o := oldKeys[id]
			_, nw := newKeys[id]
			if there && (o || nw) {
				n++
			}
		}
		if n == 0 {
			t.Fatalf("%s: a crash after %d of %d backend operations leaves the repository without a usable key\n%s\nhistory:\n  %s", op.name, k, len(log), vOpsStringC15(log), m.history())
		}
	}
	removalStates := 0
	for k, o := range log {
		switch o.Key.Type {
		case backend.SnapshotFile:
			snapNow[o.Key.Name] = !o.Remove
		case backend.KeyFile:
			keyNow[o.Key.Name] = !o.Remove
		}
		prefixOK(k + 1)
		m.st.Evals(1)
		if o.Remove && (o.Key.Type == backend.PackFile || o.Key.Type == backend.IndexFile) && removalStates < 3 && k+1 < len(log) {
			// the moment a pack or index file disappears: whatever replaces it must already be in
			// place (first three removals of a command; a crash here is one of the interruptions
			// the statement quantifies over, the drawn crash point below samples the same space)
			removalStates++
			s := st.StateAt(k + 1)
			s.DropLocks()
			ce := r.env.OnStore(s)
			cout, cerr := ce.Check(false)
			ce.Release()
			m.st.Class("removal-state-checked")
			m.st.Evals(1)
			if cerr != nil {
				t.Fatalf("%s: a crash right after %s was removed (%d of %d backend operations) leaves a repository that check rejects: %v\n%s%s\n%s\nhistory:\n  %s", op.name, o.Key, k+1, len(log), cerr, cout.Stdout, cout.Stderr, vOpsStringC15(log), m.history())
			}
		}
		if o.Key.Type == backend.SnapshotFile && !o.Remove && k+1 < len(log) {
			// the moment a snapshot file exists it is what a crash leaves behind: everything it
			// refers to must already be stored AND indexed (check without --read-data: structure only)
			s := st.StateAt(k + 1)
			s.DropLocks()
			ce := r.env.OnStore(s)
			cout, cerr := ce.Check(false)
			ce.Release()
			m.st.Class("snapshot-save-state-checked")
			m.st.Evals(1)
			if cerr != nil {
				t.Fatalf("%s: a crash right after snapshot %s was written (%d of %d backend operations) leaves a repository that check rejects: %v\n%s%s\n%s\nhistory:\n  %s", op.name, o.Key.Name[:8], k+1, len(log), cerr, cout.Stdout, cout.Stderr, vOpsStringC15(log), m.history())
			}
		}
	}

	// --- continue on the complete state or on a crash state
	if crash && len(log) >= 2 {
		k := rapid.IntRange(1, len(log)-1).Draw(t, "crashAt")
		s := st.StateAt(k)
		byCommand := rapid.IntRange(0, 2).Draw(t, "unlockCmd") == 0
		r.env.ReplaceStore(s)
		adoptKeys(s)
		if byCommand {
			// our own PID is alive, so the lock of the "dead" process is not stale: --remove-all
			if _, err := r.env.call(r.env.gopts, func(ctx context.Context, gopts global.Options) error {
				return runUnlock(ctx, UnlockOptions{RemoveAll: true}, gopts, gopts.Term)
			}); err != nil {
				t.Fatalf("unlock --remove-all after crash: %v", err)
			}
			if n := len(s.Keys(backend.LockFile)); n != 0 {
				t.Fatalf("unlock --remove-all left %d lock files", n)
			}
		} else {
			s.DropLocks()
		}
		m.crashes++
		if m.firstCrash < 0 {
			m.firstCrash = m.ops
		}
		m.st.Class("crash=" + op.name)
		m.logf("  CRASH after %d of %d backend operations (%s)", k, len(log), vOpAtC15(log, k))
		nm := map[string]vSnapC15{}
		for _, id := range s.Keys(backend.SnapshotFile) {
			if mo, ok := r.models[id]; ok {
				nm[id] = mo
			} else if mo, ok := newModels[id]; ok {
				nm[id] = mo
			} else {
				t.Fatalf("crash state of %s has the unexplained snapshot %s\nhistory:\n  %s", op.name, id[:8], m.history())
			}
		}
		r.models = nm
		return
	}
	nm := map[string]vSnapC15{}
	for id := range afterSet {
		if mo, ok := r.models[id]; ok {
			nm[id] = mo
		} else {
			nm[id] = newModels[id]
		}
	}
	r.models = nm
}

// invariant is the "" action of the state machine.
func (m *vMachC15) invariant(t *rapid.T) {
	for _, r := range m.repos {
		dg := r.env.store.Digest()
		if dg == r.okDigest {
			continue
		}
		m.st.Evals(1)
		// one backend connection while checking: `check --read-data` allocates a 4 MiB stream buffer per
		// connection on every run, which dominated the run time; the commands of the history keep 5
		conns := r.env.store.Conns
		r.env.store.Conns = 1
		out, err := r.env.Check(true)
		r.env.store.Conns = conns
		if err != nil {
			t.Fatalf("check --read-data on %s: %v\n%s%s\nhistory:\n  %s", r.name, err, out.Stdout, out.Stderr, m.history())
		}
		listed := r.env.store.Keys(backend.SnapshotFile)
		if len(listed) != len(r.models) {
			t.Fatalf("%s lists %d snapshots, model has %d\nhistory:\n  %s", r.name, len(listed), len(r.models), m.history())
		}
		dd := r.dataDigest()
		for id := range r.verified {
			if _, ok := r.models[id]; !ok {
				delete(r.verified, id)
			}
		}
		for _, id := range listed {
			mo, ok := r.models[id]
			if !ok {
				t.Fatalf("%s lists snapshot %s which is not in the model\nhistory:\n  %s", r.name, id[:8], m.history())
			}
			// a restore is a function of the snapshot file, the index and pack files and the config:
			// nothing to re-verify if none of them changed since this snapshot was last compared
			if r.verified[id] == dd {
				continue
			}
			m.st.Class("restores")
			d, err := r.env.RestoreEq(id, mo.Src, mo.Tree)
			if err != nil {
				t.Fatalf("%s: %v\nhistory:\n  %s", r.name, err, m.history())
			}
			if d != "" {
				t.Fatalf("%s: snapshot %s restores differently from its model: %s\nhistory:\n  %s", r.name, id[:8], d, m.history())
			}
			r.verified[id] = dd
		}
		if n := len(r.env.store.Keys(backend.LockFile)); n != 0 {
			t.Fatalf("%s: %d lock files left behind\nhistory:\n  %s", r.name, n, m.history())
		}
		r.okDigest = r.env.store.Digest()
	}
}

// ---------------------------------------------------------------------------
// actions

func (m *vMachC15) actBackup(t *rapid.T) {
	m.backup(t, m.pickRepo(t))
}

func (m *vMachC15) backup(t *rapid.T, r *vRepoC15) {
	m.backupMode(t, r, "")
}

func (m *vMachC15) backupMode(t *rapid.T, r *vRepoC15, mode string) {
	if len(r.models) >= 6 {
		m.forget(t, r)
		return
	}
	if mode == "" {
		mode = rapid.SampledFrom([]string{"mutate", "mutate", "regen", "same"}).Draw(t, "srcmode")
	}
	if r.cur == nil {
		mode = "regen"
	}
	var tr vTree
	if mode == "same" {
		// unchanged source: a second snapshot with the same root tree (a later copy of both finds
		// nothing new to transfer for the second one)
		tr = r.cur.Clone()
		m.st.Class("backup=unchanged-source")
	} else if mode == "regen" {
		tr = vGenTree(t, vTreeGen{MaxEntries: 10, ContentPool: vPoolC15, Names: vNamesC15, Symlinks: true})
		_ = os.RemoveAll(r.src)
		if err := os.Mkdir(r.src, 0o755); err != nil {
			t.Fatal(err)
		}
		if err := tr.Materialize(r.src); err != nil {
			t.Fatal(err)
		}
	} else {
		tr = vMutateTreeC15(t, r.cur)
		if err := vSyncTreeC15(r.src, r.cur, tr); err != nil {
			t.Fatal(err)
		}
	}
	r.cur = tr
	m.clock++
	bo := BackupOptions{
		Force:     rapid.IntRange(0, 3).Draw(t, "force") == 0,
		TimeStamp: vTimeString(time.Date(2020, 1, 1, 0, 0, 0, 0, time.Local).Add(time.Duration(m.clock) * time.Hour)),
	}
	if rapid.Bool().Draw(t, "tagged") {
		bo.Tags = data.TagLists{data.TagList{"x"}}
	}
	model := vSnapC15{Src: r.src, Tree: tr.Clone()}
	m.exec(t, &vOpC15{
		name: "backup", r: r, desc: fmt.Sprintf("%s force=%v tags=%v tree=%s", mode, bo.Force, bo.Tags, tr),
		run: func(env *vEnv) (vOut, error) {
			return env.BackupOut(context.Background(), env.gopts, []string{r.src}, bo)
		},
		derive: func(_ vOut, sn *data.Snapshot) (vSnapC15, bool) {
			return model, len(sn.Paths) == 1 && sn.Paths[0] == r.src
		},
	})
	if mode == "mutate" {
		m.st.Class("backup=incremental")
	}
}

func (m *vMachC15) pruneOpts(t *rapid.T, r *vRepoC15) (PruneOptions, string) {
	o, d := vPruneOptsC15(t)
	if o.RepackUncompressed {
		ver, err := r.version()
		if err != nil {
			t.Fatal(err)
		}
		if ver < 2 || r.env.gopts.Compression == repository.CompressionOff {
			o.RepackUncompressed = false
		}
	}
	return o, d
}

func vPruneOptsC15(t *rapid.T) (PruneOptions, string) {
	o := PruneOptions{
		MaxUnused:           rapid.SampledFrom([]string{"0", "0", "5%", "50%", "unlimited", "1k", "100k"}).Draw(t, "maxunused"),
		MaxRepackSize:       rapid.SampledFrom([]string{"", "", "", "0", "2k", "1M"}).Draw(t, "maxrepack"),
		RepackCacheableOnly: rapid.IntRange(0, 4).Draw(t, "cacheable") == 0,
		RepackUncompressed:  rapid.IntRange(0, 4).Draw(t, "uncompressed") == 0,
		SmallPackSize:       rapid.SampledFrom([]string{"", "", "1M", "1k"}).Draw(t, "smaller"),
	}
	return o, fmt.Sprintf("max-unused=%s max-repack=%q cacheable=%v uncompressed=%v smaller=%q", o.MaxUnused, o.MaxRepackSize, o.RepackCacheableOnly, o.RepackUncompressed, o.SmallPackSize)
}

func (r *vRepoC15) version() (uint, error) {
	var v uint
	err := r.env.WithRepo(func(_ context.Context, repo *repository.Repository) error {
		v = repo.Config().Version
		return nil
	})
	return v, err
}

func (m *vMachC15) actForget(t *rapid.T) {
	m.forget(t, m.pickRepo(t))
}

func (m *vMachC15) forget(t *rapid.T, r *vRepoC15) {
	kind := rapid.SampledFrom([]string{"ids", "ids", "policy"}).Draw(t, "forgetkind")
	withPrune := rapid.IntRange(0, 3).Draw(t, "withprune") == 0
	popts, pdesc := PruneOptions{}, ""
	if withPrune {
		popts, pdesc = m.pruneOpts(t, r)
	}
	fo := ForgetOptions{Prune: withPrune}
	var ids []string
	if kind == "ids" {
		ids = r.pickSnaps(t, "forget", 1, 2)
	}
	desc := "ids " + vShortC15(ids)
	if len(ids) == 0 {
		kind = "policy"
		fo.Last = ForgetPolicyCount(rapid.IntRange(1, 3).Draw(t, "keeplast"))
		if rapid.Bool().Draw(t, "grouped") {
			fo.GroupBy = data.SnapshotGroupByOptions{Host: true, Path: true}
		}
		desc = fmt.Sprintf("keep-last %d group=%v", fo.Last, fo.GroupBy)
	}
	if withPrune {
		desc += " --prune " + pdesc
	}
	want := vSetOfC15(ids)
	m.exec(t, &vOpC15{
		name: "forget", r: r, desc: desc, isPrune: withPrune,
		run: func(env *vEnv) (vOut, error) { return env.Forget(fo, popts, ids...) },
		mayRemove: func(id string) bool {
			return kind == "policy" || want[id]
		},
	})
	m.st.Class("forget=" + kind)
}

func (m *vMachC15) actPrune(t *rapid.T) {
	r := m.pickRepo(t)
	popts, pdesc := m.pruneOpts(t, r)
	m.exec(t, &vOpC15{
		name: "prune", r: r, desc: pdesc, isPrune: true,
		run: func(env *vEnv) (vOut, error) { return vOut{}, env.Prune(popts) },
	})
}

func (m *vMachC15) actTag(t *rapid.T) {
	r := m.pickRepo(t)
	mode := rapid.SampledFrom([]string{"add", "add", "set", "remove"}).Draw(t, "tagmode")
	tag := rapid.SampledFrom([]string{"x", "y", "z"}).Draw(t, "tag")
	var ids []string
	if rapid.Bool().Draw(t, "tagsome") {
		ids = r.pickSnaps(t, "tag", 1, 2)
	}
	to := TagOptions{}
	tl := data.TagLists{data.TagList{tag}}
	switch mode {
	case "add":
		to.AddTags = tl
	case "set":
		to.SetTags = tl
	default:
		to.RemoveTags = tl
	}
	op := &vOpC15{name: "tag", r: r, desc: fmt.Sprintf("--%s %s %s", mode, tag, vShortC15(ids)), replaced: map[string]string{}}
	newToOld := map[string]string{}
	op.run = func(env *vEnv) (vOut, error) {
		g := env.gopts
		g.JSON = true
		out, err := env.call(g, func(ctx context.Context, gopts global.Options) error {
			return runTag(ctx, to, gopts, gopts.Term, ids)
		})
		for _, line := range strings.Split(out.Stdout, "\n") {
			var c struct {
				MessageType string `json:"message_type"`
				Old         string `json:"old_snapshot_id"`
				New         string `json:"new_snapshot_id"`
			}
			if json.Unmarshal([]byte(line), &c) == nil && c.MessageType == "changed" {
				op.replaced[c.Old] = c.New
				newToOld[c.New] = c.Old
			}
		}
		return out, err
	}
	op.derive = func(_ vOut, sn *data.Snapshot) (vSnapC15, bool) {
		old, ok := r.models[newToOld[sn.ID().String()]]
		return old, ok
	}
	op.mayRemove = func(id string) bool { _, ok := op.replaced[id]; return ok }
	m.exec(t, op)
	m.st.Class(fmt.Sprintf("tag_changed=%v", len(op.replaced) > 0))
}

func (m *vMachC15) actRewrite(t *rapid.T) {
	r := m.pickRepo(t)
	pat := rapid.SampledFrom([]string{"*.txt", "g.dat", "sub", "aa", "x y", "über", "[bc][bc]", "e.*"}).Draw(t, "exclude")
	forget := rapid.Bool().Draw(t, "rwforget") || len(r.models) >= 6
	var ids []string
	if !forget || rapid.Bool().Draw(t, "rwsome") {
		ids = r.pickSnaps(t, "rewrite", 1, 1)
	}
	// mostly a name that occurs in the (first) selected snapshot, so that the rewrite changes something
	if from := append(ids, r.snapsBySeq()...); len(from) > 0 && rapid.IntRange(0, 3).Draw(t, "patFromTree") != 0 {
		if ps := r.models[from[0]].Tree.Paths(); len(ps) > 0 {
			pat = path.Base(ps[rapid.IntRange(0, len(ps)-1).Draw(t, "patPath")])
		}
	}
	ro := RewriteOptions{Forget: forget, ExcludePatternOptions: filter.ExcludePatternOptions{Excludes: []string{pat}}}
	op := &vOpC15{name: "rewrite", r: r, desc: fmt.Sprintf("--exclude %q forget=%v %s", pat, forget, vShortC15(ids)), replaced: map[string]string{}}
	op.run = func(env *vEnv) (vOut, error) {
		return env.call(env.gopts, func(ctx context.Context, gopts global.Options) error {
			return runRewrite(ctx, ro, gopts, ids, gopts.Term)
		})
	}
	op.derive = func(_ vOut, sn *data.Snapshot) (vSnapC15, bool) {
		if sn.Original == nil {
			return vSnapC15{}, false
		}
		old, ok := r.models[sn.Original.String()]
		if !ok {
			return vSnapC15{}, false
		}
		if forget {
			op.replaced[sn.Original.String()] = sn.ID().String()
		}
		return vSnapC15{Seq: old.Seq, Src: old.Src, Tree: vExcludeTreeC15(old.Tree, pat)}, true
	}
	op.mayRemove = func(id string) bool { _, ok := op.replaced[id]; return ok }
	m.exec(t, op)
	m.st.Class(fmt.Sprintf("rewrite_changed=%v", len(op.replaced) > 0 || !forget), fmt.Sprintf("rewrite_forget=%v", forget))
}

// actTwinCopy: a changed and then an unchanged backup of the source repository (two snapshots
// with one root tree, both new to the destination), then a copy of everything: the second
// snapshot has nothing left to transfer while the data of the first is still being uploaded.
func (m *vMachC15) actTwinCopy(t *rapid.T) {
	dst := m.pickRepo(t)
	src := m.other(dst)
	m.backupMode(t, src, "mutate")
	m.invariant(t)
	// the twin: rewrite --new-host without --forget keeps the old snapshot and adds one with the
	// SAME root tree (a second backup of the unchanged source would not: the root tree also holds
	// the scratch directories above the source, whose timestamps move)
	if ids := src.snapsBySeq(); len(ids) > 0 && len(src.models) < 6 {
		newest := ids[len(ids)-1]
		ro := RewriteOptions{Metadata: snapshotMetadataArgs{Hostname: fmt.Sprintf("twin%d", m.ops)}}
		op := &vOpC15{name: "rewrite", r: src, desc: fmt.Sprintf("--new-host (twin of %s)", newest[:8])}
		op.run = func(env *vEnv) (vOut, error) {
			return env.call(env.gopts, func(ctx context.Context, gopts global.Options) error {
				return runRewrite(ctx, ro, gopts, []string{newest}, gopts.Term)
			})
		}
		op.derive = func(_ vOut, sn *data.Snapshot) (vSnapC15, bool) {
			if sn.Original == nil || sn.Original.String() != newest {
				return vSnapC15{}, false
			}
			old := src.models[newest]
			return vSnapC15{Seq: old.Seq, Src: old.Src, Tree: old.Tree.Clone()}, true
		}
		m.exec(t, op)
		m.invariant(t)
		m.st.Class("copy=twin-snapshots")
	}
	m.copyInto(t, dst, true)
}

func (m *vMachC15) actCopy(t *rapid.T) {
	m.copyInto(t, m.pickRepo(t), false)
}

func (m *vMachC15) copyInto(t *rapid.T, dst *vRepoC15, all bool) {
	src := m.other(dst)
	var ids []string
	if !all && (rapid.Bool().Draw(t, "copysome") || len(dst.models) >= 5) {
		ids = src.pickSnaps(t, "copy", 1, 2)
	}
	srcSns, err := src.env.Snapshots()
	if err != nil {
		t.Fatal(err)
	}
	co := CopyOptions{SecondaryRepoOptions: global.SecondaryRepoOptions{Repo: src.env.gopts.Repo, Password: src.env.gopts.Password}}
	op := &vOpC15{name: "copy", r: dst, desc: fmt.Sprintf("from %s %s", src.name, vShortC15(ids))}
	op.run = func(env *vEnv) (vOut, error) {
		return env.call(env.gopts, func(ctx context.Context, gopts global.Options) error {
			return runCopy(ctx, co, gopts, ids, gopts.Term)
		})
	}
	op.derive = func(_ vOut, sn *data.Snapshot) (vSnapC15, bool) {
		best, found := vSnapC15{}, false
		for _, s := range srcSns {
			if sn.Tree == nil || s.Tree == nil || !s.Tree.Equal(*sn.Tree) || !s.Time.Equal(sn.Time) {
				continue
			}
			if mo, ok := src.models[s.ID().String()]; ok && (!found || mo.Seq < best.Seq) {
				best, found = mo, true
			}
		}
		return best, found
	}
	m.exec(t, op)
	if n := len(src.env.store.Keys(backend.LockFile)); n != 0 {
		t.Fatalf("copy left %d lock files in the source repository", n)
	}
}

func (m *vMachC15) actRepairIndex(t *rapid.T) {
	r := m.pickRepo(t)
	all := rapid.Bool().Draw(t, "readall")
	m.exec(t, &vOpC15{
		name: "repair-index", r: r, desc: fmt.Sprintf("read-all-packs=%v", all),
		run: func(env *vEnv) (vOut, error) {
			return env.call(env.gopts, func(ctx context.Context, gopts global.Options) error {
				return runRebuildIndex(ctx, RepairIndexOptions{ReadAllPacks: all}, gopts, gopts.Term)
			})
		},
	})
}

func (m *vMachC15) actRepairPacks(t *rapid.T) {
	r := m.pickRepo(t)
	files := r.env.store.Files()
	var packs []string
	for k := range files {
		if k.Type == backend.PackFile {
			packs = append(packs, k.Name)
		}
	}
	if len(packs) == 0 {
		m.actRepairIndex(t)
		return
	}
	sort.Slice(packs, func(i, j int) bool {
		a, b := len(files[vbe.Key{Type: backend.PackFile, Name: packs[i]}]), len(files[vbe.Key{Type: backend.PackFile, Name: packs[j]}])
		if a != b {
			return a < b
		}
		return packs[i] < packs[j]
	})
	id := packs[rapid.IntRange(0, len(packs)-1).Draw(t, "pack")]
	m.exec(t, &vOpC15{
		name: "repair-packs", r: r, desc: id[:8],
		run: func(env *vEnv) (vOut, error) {
			return env.call(env.gopts, func(ctx context.Context, gopts global.Options) error {
				return runRepairPacks(ctx, gopts, gopts.Term, []string{id})
			})
		},
		// the command drops a copy of the pack into the working directory
		after: func() { _ = os.Remove("pack-" + id) },
	})
}

func (m *vMachC15) actRepairSnapshots(t *rapid.T) {
	r := m.pickRepo(t)
	forget := rapid.Bool().Draw(t, "rsforget")
	op := &vOpC15{name: "repair-snapshots", r: r, desc: fmt.Sprintf("forget=%v", forget), replaced: map[string]string{}}
	op.run = func(env *vEnv) (vOut, error) {
		return env.call(env.gopts, func(ctx context.Context, gopts global.Options) error {
			return runRepairSnapshots(ctx, gopts, RepairOptions{Forget: forget}, nil, gopts.Term)
		})
	}
	// a healthy repository needs no repair; if restic rewrites a snapshot nevertheless the content must stay
	op.derive = func(_ vOut, sn *data.Snapshot) (vSnapC15, bool) {
		if sn.Original == nil {
			return vSnapC15{}, false
		}
		old, ok := r.models[sn.Original.String()]
		if ok && forget {
			op.replaced[sn.Original.String()] = sn.ID().String()
		}
		m.st.Class("repair_snapshots_rewrote")
		return old, ok
	}
	op.mayRemove = func(id string) bool { _, ok := op.replaced[id]; return ok }
	m.exec(t, op)
}

func (m *vMachC15) newPasswordFile(t *rapid.T) (string, string) {
	m.kseq++
	pw := fmt.Sprintf("pw-%d", m.kseq)
	f := filepath.Join(m.scratch, fmt.Sprintf("newpw-%d", m.kseq))
	if err := os.WriteFile(f, []byte(pw+"\n"), 0o600); err != nil {
		t.Fatal(err)
	}
	return pw, f
}

func (m *vMachC15) actKeyAdd(t *rapid.T) {
	m.keyAdd(t, m.pickRepo(t))
}

func (m *vMachC15) keyAdd(t *rapid.T, r *vRepoC15) {
	if len(r.keys) >= 4 {
		m.keyRemove(t, r)
		return
	}
	pw, f := m.newPasswordFile(t)
	m.exec(t, &vOpC15{
		name: "key-add", r: r, desc: pw, newKeyPw: pw,
		run: func(env *vEnv) (vOut, error) {
			return env.call(env.gopts, func(ctx context.Context, gopts global.Options) error {
				return runKeyAdd(ctx, gopts, KeyAddOptions{NewPasswordFile: f, Username: "u", Hostname: "h"}, nil, gopts.Term)
			})
		},
	})
}

func (m *vMachC15) actKeyPasswd(t *rapid.T) {
	r := m.pickRepo(t)
	pw, f := m.newPasswordFile(t)
	cur := r.currentKey()
	m.exec(t, &vOpC15{
		name: "key-passwd", r: r, desc: r.env.gopts.Password + " -> " + pw, newKeyPw: pw,
		run: func(env *vEnv) (vOut, error) {
			return env.call(env.gopts, func(ctx context.Context, gopts global.Options) error {
				return runKeyPasswd(ctx, gopts, KeyPasswdOptions{KeyAddOptions: KeyAddOptions{NewPasswordFile: f}}, nil, gopts.Term)
			})
		},
		mayRemoveKey: func(id string) bool { return id == cur },
	})
}

func (m *vMachC15) actKeyRemove(t *rapid.T) {
	m.keyRemove(t, m.pickRepo(t))
}

func (m *vMachC15) keyRemove(t *rapid.T, r *vRepoC15) {
	if len(r.keys) < 2 {
		m.keyAdd(t, r)
		return
	}
	cur := r.currentKey()
	var cand []string
	for _, id := range r.keysBySeq() {
		if id != cur {
			cand = append(cand, id)
		}
	}
	victim := cand[rapid.IntRange(0, len(cand)-1).Draw(t, "victim")]
	m.exec(t, &vOpC15{
		name: "key-remove", r: r, desc: r.keys[victim],
		run: func(env *vEnv) (vOut, error) {
			return env.call(env.gopts, func(ctx context.Context, gopts global.Options) error {
				return runKeyRemove(ctx, gopts, []string{victim}, gopts.Term)
			})
		},
		mayRemoveKey: func(id string) bool { return id == victim },
	})
}

func (m *vMachC15) actMigrate(t *rapid.T) {
	r := m.pickRepo(t)
	ver, err := r.version()
	if err != nil {
		t.Fatal(err)
	}
	m.exec(t, &vOpC15{
		name: "migrate", r: r, desc: fmt.Sprintf("upgrade_repo_v2 (from v%d)", ver),
		run: func(env *vEnv) (vOut, error) {
			return env.call(env.gopts, func(ctx context.Context, gopts global.Options) error {
				return runMigrate(ctx, MigrateOptions{}, gopts, []string{"upgrade_repo_v2"}, gopts.Term)
			})
		},
	})
	after, err := r.version()
	if err != nil {
		t.Fatal(err)
	}
	m.st.Class(fmt.Sprintf("migrate=v%d->v%d", ver, after))
}

func (m *vMachC15) actUnlock(t *rapid.T) {
	r := m.pickRepo(t)
	all := rapid.Bool().Draw(t, "removeall")
	m.exec(t, &vOpC15{
		name: "unlock", r: r, desc: fmt.Sprintf("remove-all=%v", all),
		run: func(env *vEnv) (vOut, error) {
			return env.call(env.gopts, func(ctx context.Context, gopts global.Options) error {
				return runUnlock(ctx, UnlockOptions{RemoveAll: all}, gopts, gopts.Term)
			})
		},
	})
}

// switchPassword lets every valid password be the one in use from time to time.
func (m *vMachC15) switchPassword(t *rapid.T) {
	for _, r := range m.repos {
		ids := r.keysBySeq()
		r.env.gopts.Password = r.keys[ids[rapid.IntRange(0, len(ids)-1).Draw(t, "usekey")]]
	}
}

func TestVerifC15Histories(t *testing.T) {
	vSetup(t)
	st := verifkit.Begin(t, "C15")
	rapid.Check(t, func(t *rapid.T) {
		m := &vMachC15{st: st, firstCrash: -1}
		// max is rare: every repository open allocates GOMAXPROCS "best" zstd encoders (tens of MB), which dominates the run time
		comp := rapid.SampledFrom([]repository.CompressionMode{repository.CompressionAuto, repository.CompressionAuto, repository.CompressionAuto, repository.CompressionAuto,
			repository.CompressionOff, repository.CompressionOff, repository.CompressionOff, repository.CompressionMax}).Draw(t, "compression")
		var versions []string
		for i := range m.repos {
			e, err := vNewEnv(true)
			if err != nil {
				t.Fatal(err)
			}
			defer e.Close()
			e.gopts.Compression = comp
			ver := rapid.SampledFrom([]string{"1", "2"}).Draw(t, "version")
			versions = append(versions, ver)
			if err := e.Init(ver); err != nil {
				t.Fatal(err)
			}
			r := &vRepoC15{name: string(rune('A' + i)), env: e, src: e.Scratch("src-"), models: map[string]vSnapC15{}, keys: map[string]string{}, keySeq: map[string]int{}, verified: map[string]string{}}
			kf := e.store.Keys(backend.KeyFile)
			if len(kf) != 1 {
				t.Fatalf("init created %d keys", len(kf))
			}
			r.keys[kf[0]] = vPassword
			m.repos[i] = r
		}
		m.scratch = m.repos[0].env.Scratch("pw-")
		m.logf("init A=v%s B=v%s compression=%v", versions[0], versions[1], comp)

		withPw := func(f func(*rapid.T)) func(*rapid.T) {
			return func(t *rapid.T) {
				m.switchPassword(t)
				f(t)
			}
		}
		// every history starts with some content: two backups into A, one into B
		for _, r := range []*vRepoC15{m.repos[0], m.repos[0], m.repos[1]} {
			m.backup(t, r)
			m.invariant(t)
		}

		// rapid draws small indices of the (sorted) action names more often: the order is a weighting
		t.Repeat(map[string]func(*rapid.T){
			"":                    m.invariant,
			"01-prune":            withPw(m.actPrune),
			"02-backup":           withPw(m.actBackup),
			"03-rewrite":          withPw(m.actRewrite),
			"04-forget":           withPw(m.actForget),
			"05-copy":             withPw(m.actCopy),
			"05-twin-copy":        withPw(m.actTwinCopy),
			"06-tag":              withPw(m.actTag),
			"07-repair-packs":     withPw(m.actRepairPacks),
			"08-key-passwd":       withPw(m.actKeyPasswd),
			"09-repair-index":     withPw(m.actRepairIndex),
			"10-repair-snapshots": withPw(m.actRepairSnapshots),
			"11-key-remove":       withPw(m.actKeyRemove),
			"12-key-add":          withPw(m.actKeyAdd),
			"13-migrate":          withPw(m.actMigrate),
			"14-unlock":           withPw(m.actUnlock),
		})

		after := 0
		if m.firstCrash >= 0 {
			after = m.ops - m.firstCrash
		}
		key := ""
		if m.crashes >= 1 && after >= 2 && m.prunes >= 1 {
			key = m.history()
		}
		bucket := func(n int) string {
			switch {
			case n == 0:
				return "0"
			case n <= 2:
				return "1-2"
			case n <= 5:
				return "3-5"
			default:
				return ">5"
			}
		}
		lenBucket := "len<=4"
		switch {
		case m.ops > 24:
			lenBucket = "len>24"
		case m.ops > 12:
			lenBucket = "len=13-24"
		case m.ops > 4:
			lenBucket = "len=5-12"
		}
		st.Case(key, "crashed_steps="+bucket(m.crashes), "prunes="+bucket(m.prunes), lenBucket, fmt.Sprintf("nontrivial=%v", key != ""))
		st.ClassN("ops_total", m.ops)
		st.ClassN("crashed_total", m.crashes)
		if st.WantSample() {
			st.Sample(map[string]any{"history": m.hist, "crashed_steps": m.crashes, "prunes": m.prunes})
		}
	})
}

func vOpAtC15(log []vbe.Op, k int) string {
	if k < len(log) {
		return "next: " + log[k].String()
	}
	return "complete"
}

func vOpsStringC15(log []vbe.Op) string {
	var sb strings.Builder
	for i, op := range log {
		fmt.Fprintf(&sb, "  %2d %s\n", i, op)
	}
	return sb.String()
}
