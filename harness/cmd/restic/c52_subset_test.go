package main

// Property C52: check --read-data-subset=n/t — for every accepted t the packs read for
// n = 1..t are pairwise disjoint and together cover every pack; a percentage or size
// subset reads at least one pack when the repository has packs (and everything at 100 %
// / at a size of at least the repository size).
//
// Pure functions only: selectPacksByBucket, selectRandomPacksByPercentage,
// selectRandomPacksByFileSize and the filter closures buildPacksFilter returns.
// For every generated pack set the bucket oracle is evaluated exhaustively over all
// t in 1..256 and all n in 1..t.

import (
	"fmt"
	"math/rand/v2"
	"testing"

	"github.com/restic/restic/internal/restic"
	"github.com/restic/restic/internal/verifkit"
	"pgregory.net/rapid"
)

type packSetC52 struct {
	dist  string
	packs map[restic.ID]int64
	order []restic.ID // generation order (deterministic iteration)
	total int64
}

// genPackSetC52 draws a pack-ID distribution; the bulk bytes come from a PRF keyed by a
// drawn seed.
func genPackSetC52(t *rapid.T) packSetC52 {
	seed := rapid.Uint64().Draw(t, "seed")
	rng := rand.New(rand.NewPCG(seed, 52))
	dists := []string{"uniform", "one-first-byte", "every-first-byte", "few-first-bytes", "multiples", "high-half", "empty", "single", "consecutive"}
	dist := rapid.SampledFrom(dists).Draw(t, "dist")
	var n int
	switch dist {
	case "empty":
		n = 0
	case "single":
		n = 1
	case "every-first-byte":
		n = 256 + rapid.IntRange(0, 64).Draw(t, "extra")
	default:
		n = rapid.OneOf(rapid.IntRange(2, 12), rapid.IntRange(2, 64), rapid.IntRange(100, 200)).Draw(t, "n")
	}
	fixed := byte(rapid.IntRange(0, 255).Draw(t, "fixedByte"))
	few := []byte{fixed, byte(rapid.IntRange(0, 255).Draw(t, "few2")), byte(rapid.IntRange(0, 255).Draw(t, "few3"))}
	step := rapid.SampledFrom([]int{2, 3, 4, 5, 7, 16, 32, 64, 128}).Draw(t, "step")
	ps := packSetC52{dist: dist, packs: map[restic.ID]int64{}}
	sizeKind := rapid.SampledFrom([]string{"typical", "tiny", "mixed", "equal"}).Draw(t, "sizeKind")
	for i := 0; len(ps.order) < n && i < 4*n+8; i++ {
		var id restic.ID
		for j := range id {
			id[j] = byte(rng.Uint32())
		}
		switch dist {
		case "one-first-byte", "single":
			id[0] = fixed
		case "every-first-byte":
			if i < 256 {
				id[0] = byte(i)
			}
		case "few-first-bytes":
			id[0] = few[rng.IntN(len(few))]
		case "multiples":
			id[0] = byte((int(id[0]) / step) * step)
		case "high-half":
			id[0] |= 0x80
		case "consecutive":
			id[0] = fixed + byte(i) // wraps
		}
		if _, dup := ps.packs[id]; dup || id.IsNull() {
			continue
		}
		var size int64
		switch sizeKind {
		case "typical":
			size = 4<<20 + rng.Int64N(16<<20)
		case "tiny":
			size = 1 + rng.Int64N(3)
		case "equal":
			size = 1 << 20
		default:
			size = 1 + rng.Int64N(1<<uint(1+rng.IntN(30)))
		}
		ps.packs[id] = size
		ps.order = append(ps.order, id)
		ps.total += size
	}
	return ps
}

func copyPacksC52(m map[restic.ID]int64) map[restic.ID]int64 {
	c := make(map[restic.ID]int64, len(m))
	for k, v := range m {
		c[k] = v
	}
	return c
}

func samePacksC52(a, b map[restic.ID]int64) bool {
	if len(a) != len(b) {
		return false
	}
	for k, v := range a {
		if w, ok := b[k]; !ok || w != v {
			return false
		}
	}
	return true
}

// subsetOfC52 reports whether sub is contained in all with identical sizes.
func subsetOfC52(sub, all map[restic.ID]int64) bool {
	for k, v := range sub {
		if w, ok := all[k]; !ok || w != v {
			return false
		}
	}
	return true
}

func TestVerifC52Buckets(t *testing.T) {
	st := verifkit.Begin(t, "C52")
	rapid.Check(t, func(t *rapid.T) {
		ps := genPackSetC52(t)
		orig := copyPacksC52(ps.packs)
		// a second repository state: a subset of the packs (packs were added in between)
		sub := map[restic.ID]int64{}
		for i, id := range ps.order {
			if i%3 != 1 {
				sub[id] = ps.packs[id]
			}
		}
		pairs := 0
		for total := uint(1); total <= totalBucketsMax; total++ {
			seen := make(map[restic.ID]uint, len(ps.packs))
			count := 0
			for n := uint(1); n <= total; n++ {
				sel := selectPacksByBucket(ps.packs, n, total)
				pairs++
				count += len(sel)
				for id, size := range sel {
					if want, ok := ps.packs[id]; !ok || want != size {
						t.Fatalf("%d/%d selects %v (size %d) which is not a pack of the repository (size %d, present %v)", n, total, id, size, want, ok)
					}
					if prev, dup := seen[id]; dup {
						t.Fatalf("pack %v is read by both %d/%d and %d/%d", id, prev, total, n, total)
					}
					seen[id] = n
				}
			}
			if count != len(ps.packs) || len(seen) != len(ps.packs) {
				for _, id := range ps.order {
					if _, ok := seen[id]; !ok {
						t.Fatalf("pack %v (first byte %d) is read by none of 1/%d .. %d/%d", id, id[0], total, total, total)
					}
				}
				t.Fatalf("t=%d: buckets hold %d packs, the repository has %d", total, count, len(ps.packs))
			}
			// the group of a pack does not depend on which other packs exist
			if total%16 == 1 || total == totalBucketsMax {
				for n := uint(1); n <= total; n++ {
					for id := range selectPacksByBucket(sub, n, total) {
						if seen[id] != n {
							t.Fatalf("pack %v is in group %d/%d of one repository state and in %d/%d of another", id, seen[id], total, n, total)
						}
					}
				}
			}
		}
		if !samePacksC52(orig, ps.packs) {
			t.Fatalf("selectPacksByBucket modified its input")
		}

		// the same through the option string, as runCheck does it
		total := uint(rapid.IntRange(1, totalBucketsMax).Draw(t, "tViaFlags"))
		union := map[restic.ID]int64{}
		for n := uint(1); n <= total; n++ {
			s := fmt.Sprintf("%d/%d", n, total)
			if err := checkFlags(CheckOptions{ReadDataSubset: s}); err != nil {
				t.Fatalf("checkFlags(%q): %v", s, err)
			}
			f, err := buildPacksFilter(CheckOptions{ReadDataSubset: s}, restic.NewNoopPrinter(), false)
			if err != nil || f == nil {
				t.Fatalf("buildPacksFilter(%q): %v", s, err)
			}
			for id, size := range f(ps.packs) {
				if _, dup := union[id]; dup {
					t.Fatalf("--read-data-subset=%s reads pack %v which an earlier group already read", s, id)
				}
				union[id] = size
			}
		}
		if !samePacksC52(union, ps.packs) {
			t.Fatalf("--read-data-subset=1/%d .. %d/%d read %d of %d packs", total, total, total, len(union), len(ps.packs))
		}

		key := ""
		if len(ps.packs) >= 2 {
			key = fmt.Sprintf("buckets|%s|%d|%v", ps.dist, len(ps.packs), ps.order[0])
		}
		st.Case(key, "dist:"+ps.dist, fmt.Sprintf("packs:%s", sizeClassC52(len(ps.packs))))
		st.ClassN("bucket-selections(n,t)", pairs)
		if st.WantSample() {
			st.Sample(map[string]any{"dist": ps.dist, "packs": len(ps.packs), "t_via_flags": total})
		}
	})
}

func sizeClassC52(n int) string {
	switch {
	case n == 0:
		return "0"
	case n == 1:
		return "1"
	case n <= 12:
		return "2-12"
	case n < 256:
		return "13-255"
	default:
		return ">=256"
	}
}

func TestVerifC52PercentageAndSize(t *testing.T) {
	st := verifkit.Begin(t, "C52")
	genPct := rapid.OneOf(
		rapid.Float64Range(0.000001, 100),
		rapid.Float64Range(99, 100),
		rapid.Float64Range(1e-300, 1),
		rapid.SampledFrom([]float64{100, 50, 25, 10, 2.5, 1, 0.1, 99.99999999999999, 1e-9, 5e-324, 33.333333333333336, 66.66666666666667}),
	)
	rapid.Check(t, func(t *rapid.T) {
		ps := genPackSetC52(t)
		orig := copyPacksC52(ps.packs)
		n := len(ps.packs)
		// several percentage/size selections per pack set
		for rep := 0; rep < 8; rep++ {
			p1 := genPct.Draw(t, "p1")
			p2 := genPct.Draw(t, "p2")
			if p1 > p2 {
				p1, p2 = p2, p1
			}
			classes := []string{"dist:" + ps.dist}

			check := func(what string, sel map[restic.ID]int64, all bool) {
				if !subsetOfC52(sel, ps.packs) {
					t.Fatalf("%s selects something that is not a pack of the repository", what)
				}
				if n > 0 && len(sel) == 0 {
					t.Fatalf("%s reads no pack although the repository has %d", what, n)
				}
				if all && !samePacksC52(sel, ps.packs) {
					t.Fatalf("%s reads %d of %d packs, want all", what, len(sel), n)
				}
			}

			s1 := selectRandomPacksByPercentage(ps.packs, p1)
			s2 := selectRandomPacksByPercentage(ps.packs, p2)
			check(fmt.Sprintf("%v%%", p1), s1, p1 == 100)
			check(fmt.Sprintf("%v%%", p2), s2, p2 == 100)
			if len(s1) > len(s2) {
				t.Fatalf("%v%% reads %d packs but %v%% reads only %d (of %d)", p1, len(s1), p2, len(s2), n)
			}
			check("100%", selectRandomPacksByPercentage(ps.packs, 100), true)
			// at most the requested share (plus the one pack that is always read)
			if float64(len(s2)) > float64(n)*p2/100+1 {
				t.Fatalf("%v%% of %d packs reads %d packs", p2, n, len(s2))
			}
			switch {
			case len(s2) == n && n > 0:
				classes = append(classes, "pct:all")
			case len(s2) == 1:
				classes = append(classes, "pct:one")
			default:
				classes = append(classes, "pct:some")
			}

			// through the option string
			pstr := fmt.Sprintf("%v%%", p2)
			if err := checkFlags(CheckOptions{ReadDataSubset: pstr}); err != nil {
				t.Fatalf("checkFlags(%q): %v", pstr, err)
			}
			f, err := buildPacksFilter(CheckOptions{ReadDataSubset: pstr}, restic.NewNoopPrinter(), false)
			if err != nil || f == nil {
				t.Fatalf("buildPacksFilter(%q): %v", pstr, err)
			}
			viaFlags := f(ps.packs)
			check("--read-data-subset="+pstr, viaFlags, p2 == 100)
			if len(viaFlags) != len(s2) {
				t.Fatalf("--read-data-subset=%s reads %d packs, selectRandomPacksByPercentage reads %d", pstr, len(viaFlags), len(s2))
			}

			// sizes
			var size int64
			switch rapid.IntRange(0, 5).Draw(t, "sizeKind") {
			case 0:
				size = 1
			case 1:
				size = max(ps.total, 1)
			case 2:
				size = max(ps.total-1, 1)
			case 3:
				size = ps.total + int64(rapid.IntRange(1, 1<<30).Draw(t, "over"))
			case 4:
				size = int64(rapid.Uint64Range(1, 1<<62).Draw(t, "anySize"))
			default:
				size = 1 + int64(rapid.Uint64Range(0, uint64(max(ps.total, 1))).Draw(t, "below"))
			}
			if ps.total > 0 {
				clamped := min(size, ps.total)
				bySize := selectRandomPacksByFileSize(ps.packs, clamped, ps.total)
				check(fmt.Sprintf("size %d of %d", clamped, ps.total), bySize, clamped == ps.total)
			}
			sstr := fmt.Sprintf("%dB", size)
			if err := checkFlags(CheckOptions{ReadDataSubset: sstr}); err != nil {
				t.Fatalf("checkFlags(%q): %v", sstr, err)
			}
			fs, err := buildPacksFilter(CheckOptions{ReadDataSubset: sstr}, restic.NewNoopPrinter(), false)
			if err != nil || fs == nil {
				t.Fatalf("buildPacksFilter(%q): %v", sstr, err)
			}
			viaSize := fs(ps.packs)
			check("--read-data-subset="+sstr, viaSize, size >= ps.total)
			switch {
			case size >= ps.total:
				classes = append(classes, "size:>=repository")
			case len(viaSize) == 1:
				classes = append(classes, "size:one")
			default:
				classes = append(classes, "size:some")
			}

			if !samePacksC52(orig, ps.packs) {
				t.Fatalf("a subset selection modified its input")
			}
			key := ""
			if n >= 2 {
				key = fmt.Sprintf("pct|%s|%d|%v|%v|%d", ps.dist, n, p1, p2, size)
			}
			st.Case(key, classes...)
			if st.WantSample() {
				st.Sample(map[string]any{"dist": ps.dist, "packs": n, "p": p2, "selected": len(s2), "size": size, "selected_by_size": len(viaSize)})
			}
		}
	})
}
