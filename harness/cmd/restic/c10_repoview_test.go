package main

// Independent view of a repository on the harness backend, shared by the checks of
// properties C10 (full prune) and C33 (repair index):
//
//   * index files are decrypted with the master key and decoded with a private JSON
//     schema (no use of the index package for reading),
//   * pack headers are located, decrypted and parsed by a private parser working on the
//     raw bytes of the pack file (no use of pack.List / repository.ListPack),
//   * the reachable blob set is computed by a private walk that decodes the tree JSON
//     itself (no use of data.FindUsedBlobs / data.LoadTree),
//
// plus builders for repository histories that do not go through `restic backup`
// (synthetic snapshots written through the blob uploader, hand-made pack and index files).

import (
	"bytes"
	"context"
	"crypto/sha256"
	"encoding/binary"
	"encoding/hex"
	"encoding/json"
	"fmt"
	"math/rand/v2"
	"os"
	"sort"
	"time"

	"github.com/klauspost/compress/zstd"
	"github.com/restic/restic/internal/backend"
	"github.com/restic/restic/internal/data"
	"github.com/restic/restic/internal/global"
	"github.com/restic/restic/internal/repository"
	"github.com/restic/restic/internal/repository/crypto"
	"github.com/restic/restic/internal/repository/pack"
	"github.com/restic/restic/internal/restic"
	"github.com/restic/restic/internal/ui/progress"
	"github.com/restic/restic/internal/verifkit/vbe"
)

// vEntC10 is one index entry / one pack header entry.
type vEntC10 struct {
	Pack string `json:"pack"`
	Type string `json:"type"` // "data" | "tree"
	ID   string `json:"id"`
	Off  uint   `json:"off"`
	Len  uint   `json:"len"`  // ciphertext length in the pack
	ULen uint   `json:"ulen"` // uncompressed length, 0 = stored uncompressed
}

// H is the blob handle "type/id".
func (e vEntC10) H() string { return e.Type + "/" + e.ID }

func (e vEntC10) String() string {
	return fmt.Sprintf("%s:%s/%s@%d+%d(u%d)", e.Pack[:8], e.Type, e.ID[:8], e.Off, e.Len, e.ULen)
}

// vHdrEntrySizeC10 is the size of the header entry of e (format: type byte, length,
// [uncompressed length,] id).
func vHdrEntrySizeC10(e vEntC10) int {
	if e.ULen != 0 {
		return 1 + 4 + 4 + 32
	}
	return 1 + 4 + 32
}

// vHdrFixedC10 is the constant part of a pack header: length field + nonce + MAC.
const vHdrFixedC10 = 4 + 16 + 16

type vIdxBlobJSONC10 struct {
	ID     string `json:"id"`
	Type   string `json:"type"`
	Offset uint   `json:"offset"`
	Length uint   `json:"length"`
	ULen   uint   `json:"uncompressed_length,omitempty"`
}

type vIdxPackJSONC10 struct {
	ID    string            `json:"id"`
	Blobs []vIdxBlobJSONC10 `json:"blobs"`
}

type vIdxJSONC10 struct {
	Packs []vIdxPackJSONC10 `json:"packs"`
}

func vSortedKeysC10[V any](m map[string]V) []string {
	ks := make([]string, 0, len(m))
	for k := range m {
		ks = append(ks, k)
	}
	sort.Strings(ks)
	return ks
}

// vKeyC10 returns the master key of the repository of e.
func vKeyC10(e *vEnv) (*crypto.Key, error) {
	var k *crypto.Key
	err := e.WithRepo(func(ctx context.Context, repo *repository.Repository) error {
		k = repo.Key()
		return nil
	})
	return k, err
}

var vZstdDecC10, _ = zstd.NewReader(nil)

// vOpenUnpackedC10 decrypts (and, for the v2 encoding, decompresses) an unpacked file.
func vOpenUnpackedC10(key *crypto.Key, raw []byte) ([]byte, error) {
	if len(raw) < crypto.Extension {
		return nil, fmt.Errorf("file of %d bytes is too short", len(raw))
	}
	pt, err := key.Open(nil, raw[:16], raw[16:], nil)
	if err != nil {
		return nil, err
	}
	if len(pt) > 0 && pt[0] != '{' && pt[0] != '[' {
		if pt[0] != 2 {
			return nil, fmt.Errorf("unknown encoding byte %d", pt[0])
		}
		return vZstdDecC10.DecodeAll(pt[1:], nil)
	}
	return pt, nil
}

// vSealUnpackedC10 encrypts plaintext (stored as raw JSON, which every repository version
// reads) with a nonce derived from seed and returns file name and content.
func vSealUnpackedC10(key *crypto.Key, plaintext []byte, seed uint64) (string, []byte) {
	r := rand.New(rand.NewPCG(seed, 0x1d))
	nonce := make([]byte, 16)
	for i := range nonce {
		nonce[i] = byte(r.Uint32())
	}
	nonce[0] |= 1
	ct := key.Seal(append([]byte(nil), nonce...), nonce, plaintext, nil)
	sum := sha256.Sum256(ct)
	return hex.EncodeToString(sum[:]), ct
}

// vDecodeIndexFileC10 decodes one index file.
func vDecodeIndexFileC10(key *crypto.Key, raw []byte) (*vIdxJSONC10, error) {
	pt, err := vOpenUnpackedC10(key, raw)
	if err != nil {
		return nil, err
	}
	var ij vIdxJSONC10
	if err := json.Unmarshal(pt, &ij); err != nil {
		return nil, err
	}
	return &ij, nil
}

// vPutIndexFileC10 stores ij as a new index file and returns its name.
func vPutIndexFileC10(s *vbe.Store, key *crypto.Key, ij *vIdxJSONC10, seed uint64) string {
	pt, _ := json.Marshal(ij)
	pt = append(pt, '\n')
	name, ct := vSealUnpackedC10(key, pt, seed)
	s.Put(backend.IndexFile, name, ct)
	return name
}

func vEntriesOfC10(ij *vIdxJSONC10) []vEntC10 {
	var out []vEntC10
	for _, p := range ij.Packs {
		for _, b := range p.Blobs {
			out = append(out, vEntC10{Pack: p.ID, Type: b.Type, ID: b.ID, Off: b.Offset, Len: b.Length, ULen: b.ULen})
		}
	}
	return out
}

// vIndexEntriesC10 decodes all index files of the store. bad lists the files that could not be decoded.
func vIndexEntriesC10(s *vbe.Store, key *crypto.Key) (all []vEntC10, perFile map[string]*vIdxJSONC10, bad []string) {
	perFile = map[string]*vIdxJSONC10{}
	for _, name := range s.Keys(backend.IndexFile) {
		raw, _ := s.Get(backend.IndexFile, name)
		ij, err := vDecodeIndexFileC10(key, raw)
		if err != nil {
			bad = append(bad, name)
			continue
		}
		perFile[name] = ij
		all = append(all, vEntriesOfC10(ij)...)
	}
	vSortEntsC10(all)
	return all, perFile, bad
}

func vSortEntsC10(es []vEntC10) {
	sort.Slice(es, func(i, j int) bool {
		a, b := es[i], es[j]
		if a.Pack != b.Pack {
			return a.Pack < b.Pack
		}
		if a.Off != b.Off {
			return a.Off < b.Off
		}
		if a.ID != b.ID {
			return a.ID < b.ID
		}
		if a.Type != b.Type {
			return a.Type < b.Type
		}
		if a.Len != b.Len {
			return a.Len < b.Len
		}
		return a.ULen < b.ULen
	})
}

// vParsePackC10 parses the header of a pack file from its raw bytes: the last four bytes
// are the little-endian length of the encrypted header that precedes them; entries are
// type(1) length(4) [uncompressed length(4)] id(32); offsets are cumulative from 0.
func vParsePackC10(key *crypto.Key, name string, raw []byte) ([]vEntC10, int, error) {
	n := len(raw)
	if n < 4 {
		return nil, 0, fmt.Errorf("pack of %d bytes has no header length", n)
	}
	hlen := int(binary.LittleEndian.Uint32(raw[n-4:]))
	if hlen < crypto.Extension || hlen > n-4 {
		return nil, 0, fmt.Errorf("header length %d does not fit a file of %d bytes", hlen, n)
	}
	hdr := raw[n-4-hlen : n-4]
	pt, err := key.Open(nil, hdr[:16], hdr[16:], nil)
	if err != nil {
		return nil, 0, err
	}
	var out []vEntC10
	off := uint(0)
	for len(pt) > 0 {
		if len(pt) < 37 {
			return nil, 0, fmt.Errorf("trailing %d header bytes", len(pt))
		}
		e := vEntC10{Pack: name, Off: off}
		tb := pt[0]
		switch tb {
		case 0, 2:
			e.Type = "data"
		case 1, 3:
			e.Type = "tree"
		default:
			return nil, 0, fmt.Errorf("header entry type %d", tb)
		}
		e.Len = uint(binary.LittleEndian.Uint32(pt[1:5]))
		pt = pt[5:]
		if tb >= 2 {
			if len(pt) < 36 {
				return nil, 0, fmt.Errorf("short compressed header entry")
			}
			e.ULen = uint(binary.LittleEndian.Uint32(pt[:4]))
			pt = pt[4:]
		}
		e.ID = hex.EncodeToString(pt[:32])
		pt = pt[32:]
		off += e.Len
		out = append(out, e)
	}
	return out, hlen + 4, nil
}

// vPackEntriesC10 parses all packs of the store: entries of the packs with a readable
// header, and the names of those without.
func vPackEntriesC10(s *vbe.Store, key *crypto.Key) (byPack map[string][]vEntC10, hdrLen map[string]int, unreadable []string) {
	byPack = map[string][]vEntC10{}
	hdrLen = map[string]int{}
	for _, name := range s.Keys(backend.PackFile) {
		raw, _ := s.Get(backend.PackFile, name)
		es, hl, err := vParsePackC10(key, name, raw)
		if err != nil {
			unreadable = append(unreadable, name)
			continue
		}
		byPack[name] = es
		hdrLen[name] = hl
	}
	return
}

// vReachableC10 walks all snapshots of the repository with a private tree decoder and
// returns the handles ("tree/<id>", "data/<id>") reachable from them.
func vReachableC10(e *vEnv) (map[string]bool, error) {
	reach := map[string]bool{}
	err := e.WithRepo(func(ctx context.Context, repo *repository.Repository) error {
		if err := repo.LoadIndex(ctx, restic.NoopTerminalCounterFactory); err != nil {
			return err
		}
		type snJSON struct {
			Tree string `json:"tree"`
		}
		type nodeJSON struct {
			Name    string   `json:"name"`
			Type    string   `json:"type"`
			Content []string `json:"content"`
			Subtree string   `json:"subtree"`
		}
		type treeJSON struct {
			Nodes []nodeJSON `json:"nodes"`
		}
		var walk func(id string) error
		walk = func(id string) error {
			h := "tree/" + id
			if reach[h] {
				return nil
			}
			reach[h] = true
			rid, err := restic.ParseID(id)
			if err != nil {
				return err
			}
			buf, err := repo.LoadBlob(ctx, restic.BlobHandle{Type: restic.TreeBlob, ID: rid}, nil)
			if err != nil {
				return fmt.Errorf("tree %s: %w", id[:8], err)
			}
			var tj treeJSON
			if err := json.Unmarshal(buf, &tj); err != nil {
				return fmt.Errorf("tree %s: %w", id[:8], err)
			}
			for _, nd := range tj.Nodes {
				for _, c := range nd.Content {
					reach["data/"+c] = true
				}
				if nd.Subtree != "" {
					if err := walk(nd.Subtree); err != nil {
						return err
					}
				}
			}
			return nil
		}
		for _, name := range e.store.Keys(backend.SnapshotFile) {
			sid, err := restic.ParseID(name)
			if err != nil {
				return err
			}
			buf, err := repo.LoadUnpacked(ctx, restic.SnapshotFile, sid)
			if err != nil {
				return err
			}
			var sj snJSON
			if err := json.Unmarshal(buf, &sj); err != nil {
				return err
			}
			if err := walk(sj.Tree); err != nil {
				return fmt.Errorf("snapshot %s: %w", name[:8], err)
			}
		}
		return nil
	})
	return reach, err
}

// vWithRepoRWC10 opens the repository for writing (append lock; e.WithRepo opens it in
// dry-run mode, which silently discards every write) and calls fn.
func vWithRepoRWC10(e *vEnv, fn func(ctx context.Context, repo *repository.Repository) error) error {
	_, err := e.call(e.gopts, func(ctx context.Context, gopts global.Options) error {
		printer := progress.NewTerminalPrinter(false, 0, gopts.Term)
		ctx, repo, unlock, err := openWithAppendLock(ctx, gopts, false, printer)
		if err != nil {
			return err
		}
		defer unlock()
		return fn(ctx, repo)
	})
	return err
}

// ---------------------------------------------------------------------------
// builders

// vBlobContentC10 expands a pool seed into blob content (length depends on the seed,
// half of the pool is compressible).
func vBlobContentC10(seed uint64) []byte {
	n := 40 + int(seed%9)*173
	b := vContent(&vNode{Seed: seed, Len: n})
	if seed%2 == 0 {
		for i := range b {
			b[i] = 'a' + b[i]%4
		}
	}
	return b
}

// vSynthSnapC10 describes a synthetic snapshot: files (pool seeds) in the root and in one subdirectory.
type vSynthSnapC10 struct {
	Root []uint64 `json:"root"`
	Sub  []uint64 `json:"sub,omitempty"`
	Tag  string   `json:"tag"`
}

func vSynthNodesC10(seeds []uint64, prefix string) []*data.Node {
	var nodes []*data.Node
	for i, sd := range seeds {
		c := vBlobContentC10(sd)
		nodes = append(nodes, &data.Node{
			Name: fmt.Sprintf("%s%02d-%d", prefix, i, sd), Type: data.NodeTypeFile, Mode: 0o644,
			ModTime: time.Unix(1600000000+int64(sd), 0).UTC(), Size: uint64(len(c)),
			Content: restic.IDs{restic.Hash(c)},
		})
	}
	return nodes
}

// vSaveSynthC10 writes the snapshots through the repository API, one upload session per
// snapshot (so every snapshot gets its own small data and tree packs).
func vSaveSynthC10(e *vEnv, snaps []vSynthSnapC10) error {
	return vWithRepoRWC10(e, func(ctx context.Context, repo *repository.Repository) error {
		if err := repo.LoadIndex(ctx, restic.NoopTerminalCounterFactory); err != nil {
			return err
		}
		for _, sp := range snaps {
			var root restic.ID
			err := repo.WithBlobUploader(ctx, func(ctx context.Context, up restic.BlobSaverWithAsync) error {
				for _, sd := range append(append([]uint64{}, sp.Root...), sp.Sub...) {
					c := vBlobContentC10(sd)
					if _, _, _, err := up.SaveBlob(ctx, restic.DataBlob, c, restic.ID{}, false); err != nil {
						return err
					}
				}
				tw := data.NewTreeWriter(up)
				if len(sp.Sub) > 0 {
					sw := data.NewTreeWriter(up)
					for _, nd := range vSynthNodesC10(sp.Sub, "s") {
						if err := sw.AddNode(nd); err != nil {
							return err
						}
					}
					sid, err := sw.Finalize(ctx)
					if err != nil {
						return err
					}
					if err := tw.AddNode(&data.Node{Name: "dir", Type: data.NodeTypeDir, Mode: 0o755 | os.ModeDir, ModTime: time.Unix(1600000000, 0).UTC(), Subtree: &sid}); err != nil {
						return err
					}
				}
				for _, nd := range vSynthNodesC10(sp.Root, "f") {
					if err := tw.AddNode(nd); err != nil {
						return err
					}
				}
				var err error
				root, err = tw.Finalize(ctx)
				return err
			})
			if err != nil {
				return err
			}
			sn, err := data.NewSnapshot([]string{"/synth/" + sp.Tag}, []string{sp.Tag}, "vhost", time.Unix(1700000000, 0).UTC())
			if err != nil {
				return err
			}
			sn.Tree = &root
			if _, err := data.SaveSnapshot(ctx, repo, sn); err != nil {
				return err
			}
		}
		return nil
	})
}

// vCrashBackupC10 runs a backup of dir and leaves the store in the state of a crash after
// at least one new pack was written and before the first index file of the run was saved
// (cut position chosen by pick among the candidates). It reports the number of packs left unindexed
// (0: the backup wrote no pack, store unchanged apart from the complete backup being rolled back).
func vCrashBackupC10(e *vEnv, dir string, pick func(n int) int) (int, error) {
	base := e.store.Clone()
	e.store.StartRecording(vbe.NoFaults())
	_, err := e.BackupOut(context.Background(), e.gopts, []string{dir}, BackupOptions{Force: true})
	log := e.store.StopRecording()
	if err != nil {
		return 0, err
	}
	firstIdx, firstPack := len(log), -1
	for i, op := range log {
		if op.Key.Type == backend.IndexFile && !op.Remove && i < firstIdx {
			firstIdx = i
		}
		if op.Key.Type == backend.PackFile && !op.Remove && firstPack < 0 {
			firstPack = i
		}
	}
	if firstPack < 0 || firstPack >= firstIdx {
		e.ReplaceStore(base)
		return 0, nil
	}
	// cut k in (firstPack, firstIdx]: log[:k] holds >= 1 pack save and no index save
	k := firstPack + 1 + pick(firstIdx-firstPack)
	s := e.store.StateAt(k)
	s.DropLocks()
	n := 0
	for _, op := range log[:k] {
		if op.Key.Type == backend.PackFile && !op.Remove {
			n++
		}
	}
	e.ReplaceStore(s)
	return n, nil
}

// vCraftPackC10 assembles a pack file from already encrypted blobs and stores it together
// with a new index file that lists it. parts: entries whose raw ciphertext is copied from
// the named pack of the store; fresh: plaintext blobs (type, content) that are encrypted here
// and stored uncompressed.
type vFreshBlobC10 struct {
	Type    restic.BlobType
	Content []byte
}

func vCraftPackC10(s *vbe.Store, key *crypto.Key, copies []vEntC10, fresh []vFreshBlobC10, seed uint64, withIndex bool) (string, error) {
	var buf bytes.Buffer
	p := pack.NewPacker(key, &buf)
	tp := func(s string) restic.BlobType {
		if s == "tree" {
			return restic.TreeBlob
		}
		return restic.DataBlob
	}
	for _, c := range copies {
		raw, ok := s.Get(backend.PackFile, c.Pack)
		if !ok || int(c.Off+c.Len) > len(raw) {
			return "", fmt.Errorf("cannot copy %v", c)
		}
		id, err := restic.ParseID(c.ID)
		if err != nil {
			return "", err
		}
		if _, err := p.Add(tp(c.Type), id, raw[c.Off:c.Off+c.Len], int(c.ULen)); err != nil {
			return "", err
		}
	}
	r := rand.New(rand.NewPCG(seed, 0xb10b))
	for _, f := range fresh {
		nonce := make([]byte, 16)
		for i := range nonce {
			nonce[i] = byte(r.Uint32())
		}
		nonce[0] |= 1
		ct := key.Seal(append([]byte(nil), nonce...), nonce, f.Content, nil)
		if _, err := p.Add(f.Type, restic.Hash(f.Content), ct, 0); err != nil {
			return "", err
		}
	}
	if err := p.Finalize(); err != nil {
		return "", err
	}
	sum := sha256.Sum256(buf.Bytes())
	name := hex.EncodeToString(sum[:])
	s.Put(backend.PackFile, name, append([]byte(nil), buf.Bytes()...))
	if withIndex {
		es, _, err := vParsePackC10(key, name, buf.Bytes())
		if err != nil {
			return "", err
		}
		pj := vIdxPackJSONC10{ID: name}
		for _, en := range es {
			pj.Blobs = append(pj.Blobs, vIdxBlobJSONC10{ID: en.ID, Type: en.Type, Offset: en.Off, Length: en.Len, ULen: en.ULen})
		}
		vPutIndexFileC10(s, key, &vIdxJSONC10{Packs: []vIdxPackJSONC10{pj}}, seed)
	}
	return name, nil
}

// vSaveSnapshotFileC10 stores a snapshot file for the given root tree.
func vSaveSnapshotFileC10(e *vEnv, root restic.ID, tag string) error {
	return vWithRepoRWC10(e, func(ctx context.Context, repo *repository.Repository) error {
		sn, err := data.NewSnapshot([]string{"/synth/" + tag}, []string{tag}, "vhost", time.Unix(1700000001, 0).UTC())
		if err != nil {
			return err
		}
		sn.Tree = &root
		_, err = data.SaveSnapshot(ctx, repo, sn)
		return err
	})
}
