package main

// Property C39: backup, forget, prune, rewrite and repair snapshots with --dry-run, and
// read-only commands run with --no-lock, leave every repository file byte-for-byte
// unchanged and create or delete no file.
//
// Per rapid case one generated repository (harness in-memory backend with an operation
// log, or a real local directory with cache) and a batch of invocations with generated
// arguments. Oracle on the in-memory backend: the log of mutating backend operations of
// the invocation is EMPTY and the store digest unchanged for every code path that opens
// without locking; for forget/prune --dry-run without --no-lock (documented to lock)
// only lock files may be touched and the final state must be identical. Oracle on the
// local repository: the file map of the repository directory is identical.
// Non-trivial: the same invocation without --dry-run changes the repository (clone).

import (
	"bytes"
	"context"
	"fmt"
	"os"
	"path/filepath"
	"sort"
	"strings"
	"testing"
	"time"

	"github.com/restic/restic/internal/backend"
	"github.com/restic/restic/internal/data"
	"github.com/restic/restic/internal/filter"
	"github.com/restic/restic/internal/global"
	"github.com/restic/restic/internal/repository"
	"github.com/restic/restic/internal/verifkit"
	"github.com/restic/restic/internal/verifkit/vbe"
	"pgregory.net/rapid"
)

var vNamesC39 = []string{"aa", "bb", "cc", "e.txt", "f.txt", "g.dat", "sub", "x y", "über"}

// vInvC39 is one invocation under observation.
type vInvC39 struct {
	kind string
	desc string
	// locks: the invocation is documented to lock the repository (lock files may come and go)
	locks bool
	// run executes the command; dry=false is the modifying variant (only for hasWet)
	run    func(env *vEnv, dry bool) (vOut, error)
	hasWet bool
	// mustSucceed: the arguments are valid by construction, an error is a harness or restic problem
	mustSucceed bool
}

type vCaseC39 struct {
	e      *vEnv
	src    string
	trees  []vTree // trees of the snapshots in creation order (index-aligned with ids while nothing is forgotten)
	sns    []*data.Snapshot
	last   vTree
	waste  string // class of garbage in the repository that prune would act on ("none" if there is none)
	nseq   int    // number of regular backups
	repoID string // config ID (argument of prune --unsafe-recover-no-free-space)
}

func vCloneEnvC39(e *vEnv) (*vEnv, error) {
	if e.store != nil {
		return e.OnStore(e.store.Clone()), nil
	}
	c, err := vNewEnv(false)
	if err != nil {
		return nil, err
	}
	c.gopts.Compression = e.gopts.Compression
	err = filepath.Walk(e.gopts.Repo, func(p string, fi os.FileInfo, err error) error {
		if err != nil {
			return err
		}
		rel, _ := filepath.Rel(e.gopts.Repo, p)
		dst := filepath.Join(c.gopts.Repo, rel)
		if fi.IsDir() {
			return os.MkdirAll(dst, 0o700)
		}
		b, err := os.ReadFile(p)
		if err != nil {
			return err
		}
		return os.WriteFile(dst, b, 0o600)
	})
	if err != nil {
		c.Close()
		return nil, err
	}
	return c, nil
}

func vCloseCloneC39(e, c *vEnv) {
	if e.store != nil {
		c.Release()
	} else {
		c.Close()
	}
}

// vDiffFilesC39 describes the difference of two file maps ("" if equal); lock files are
// ignored if ignoreLocks.
func vDiffFilesC39(a, b map[string][]byte, ignoreLocks bool) string {
	isLock := func(k string) bool { return strings.HasPrefix(k, "lock/") || strings.HasPrefix(k, "locks/") }
	var d []string
	for k, v := range a {
		if ignoreLocks && isLock(k) {
			continue
		}
		w, ok := b[k]
		if !ok {
			d = append(d, "removed "+k)
		} else if !bytes.Equal(v, w) {
			d = append(d, "changed "+k)
		}
	}
	for k := range b {
		if ignoreLocks && isLock(k) {
			continue
		}
		if _, ok := a[k]; !ok {
			d = append(d, "added "+k)
		}
	}
	sort.Strings(d)
	if len(d) > 6 {
		d = append(d[:6], fmt.Sprintf("... %d more", len(d)-6))
	}
	return strings.Join(d, "; ")
}

func vMutateC39(t *rapid.T, old vTree) vTree {
	tr := old.Clone()
	for i, n := 0, rapid.IntRange(1, 3).Draw(t, "edits"); i < n; i++ {
		ps := tr.Paths()
		mt := int64(1500000000+rapid.IntRange(0, 100000000).Draw(t, "mt")) * 1e9
		switch k := rapid.IntRange(0, 2).Draw(t, "edit"); {
		case k == 0 && len(ps) > 1:
			p := ps[rapid.IntRange(0, len(ps)-1).Draw(t, "rm")]
			for _, q := range ps {
				if q == p || strings.HasPrefix(q, p+"/") {
					delete(tr, q)
				}
			}
		default:
			name := rapid.SampledFrom(vNamesC39).Draw(t, "name")
			if nd, ok := tr[name]; ok && nd.Kind != 'f' {
				continue
			}
			seed := uint64(rapid.IntRange(1, 12).Draw(t, "pool"))
			tr[name] = &vNode{Kind: 'f', Mode: 0o644, Mtime: mt, Seed: seed, Len: 200 + int(seed%7)*311}
		}
	}
	return tr
}

func (c *vCaseC39) materialize(tr vTree) error {
	_ = os.RemoveAll(c.src)
	if err := os.Mkdir(c.src, 0o755); err != nil {
		return err
	}
	c.last = tr
	return tr.Materialize(c.src)
}

func vPruneOptsC39(t *rapid.T, v2 bool, comp repository.CompressionMode, repoID string) (PruneOptions, string) {
	o := PruneOptions{
		MaxUnused:           rapid.SampledFrom([]string{"0", "0", "5%", "unlimited", "1k"}).Draw(t, "maxunused"),
		MaxRepackSize:       rapid.SampledFrom([]string{"", "", "0", "2k", "1M"}).Draw(t, "maxrepack"),
		RepackCacheableOnly: rapid.IntRange(0, 4).Draw(t, "cacheable") == 0,
		RepackUncompressed:  rapid.IntRange(0, 3).Draw(t, "uncompressed") == 0 && v2 && comp != repository.CompressionOff,
		SmallPackSize:       rapid.SampledFrom([]string{"", "", "1M", "1k"}).Draw(t, "smaller"),
	}
	// the recovery mode for full repositories (deletes before it writes) is a prune mode like any other: --dry-run binds it too
	if repoID != "" && rapid.IntRange(0, 4).Draw(t, "unsaferecovery") == 0 {
		o.UnsafeNoSpaceRecovery = repoID
	}
	return o, fmt.Sprintf("max-unused=%s max-repack=%q cacheable=%v uncompressed=%v smaller=%q unsafe-recovery=%v", o.MaxUnused, o.MaxRepackSize, o.RepackCacheableOnly, o.RepackUncompressed, o.SmallPackSize, o.UnsafeNoSpaceRecovery != "")
}

func vCallC39(env *vEnv, g global.Options, fn func(ctx context.Context, gopts global.Options) error) (vOut, error) {
	return env.call(g, fn)
}

// observe runs one invocation on the case's repository and applies the oracle.
func (c *vCaseC39) observe(t *rapid.T, st *verifkit.Stats, inv vInvC39) bool {
	e := c.e
	before, err := e.Files()
	if err != nil {
		t.Fatal(err)
	}
	var log []vbe.Op
	dg := ""
	if e.store != nil {
		dg = e.store.Digest()
		e.store.StartRecording(vbe.NoFaults())
	}
	out, rerr := inv.run(e, true)
	if e.store != nil {
		log = e.store.StopRecording()
	}
	st.Evals(1)
	st.Class("inv=" + inv.kind)
	if inv.locks {
		st.Class("locking_dryrun@repo:" + c.waste)
	}
	if rerr != nil {
		st.Class("err=" + inv.kind)
	}
	after, err := e.Files()
	if err != nil {
		t.Fatal(err)
	}
	describe := func() string {
		return fmt.Sprintf("%s %s (returned %v)\nstdout: %.600s\nstderr: %.600s", inv.kind, inv.desc, rerr, out.Stdout, out.Stderr)
	}
	for i, op := range log {
		if inv.locks && op.Key.Type == backend.LockFile {
			continue
		}
		t.Fatalf("backend operation %d of a run that must not modify the repository: %s\ninvocation: %s\nall operations:\n%s", i, op, describe(), vOpsStringC39(log))
	}
	if d := vDiffFilesC39(before, after, false); d != "" {
		t.Fatalf("repository files differ after the run: %s\ninvocation: %s", d, describe())
	}
	if e.store != nil && e.store.Digest() != dg {
		t.Fatalf("store digest changed\ninvocation: %s", describe())
	}
	if inv.mustSucceed && rerr != nil {
		t.Fatalf("invocation failed although its arguments are valid: %s", describe())
	}
	if !inv.hasWet {
		return false
	}
	// non-trivial: the modifying variant changes the repository
	ce, err := vCloneEnvC39(e)
	if err != nil {
		t.Fatal(err)
	}
	defer vCloseCloneC39(e, ce)
	_, werr := inv.run(ce, false)
	wafter, err := ce.Files()
	if err != nil {
		t.Fatal(err)
	}
	changed := vDiffFilesC39(before, wafter, true) != ""
	st.Class(fmt.Sprintf("wet_changes[%s]=%v", inv.kind, changed))
	if changed {
		// distinct non-trivial invocations are counted one by one
		st.NonTrivial(fmt.Sprintf("%s %s vmem=%v on %s", inv.kind, inv.desc, e.store != nil, vDigestC39(before)))
	}
	if (werr == nil) != (rerr == nil) {
		st.Class("dry_wet_error_mismatch=" + inv.kind)
	}
	return changed
}

func vOpsStringC39(log []vbe.Op) string {
	var sb strings.Builder
	for i, op := range log {
		fmt.Fprintf(&sb, "  %2d %s\n", i, op)
	}
	return sb.String()
}

func (c *vCaseC39) pickSnap(t *rapid.T, label string) *data.Snapshot {
	return c.sns[rapid.IntRange(0, len(c.sns)-1).Draw(t, label)]
}

// snapArg is an id, a prefix, or "latest".
func (c *vCaseC39) snapArg(t *rapid.T, label string) (string, *data.Snapshot) {
	sn := c.pickSnap(t, label)
	switch rapid.IntRange(0, 3).Draw(t, label+"form") {
	case 0:
		return sn.ID().Str(), sn
	case 1:
		latest := c.sns[0]
		for _, s := range c.sns {
			if s.Time.After(latest.Time) {
				latest = s
			}
		}
		return "latest", latest
	}
	return sn.ID().String(), sn
}

// treeOf returns the model tree of a snapshot (by its position in creation order).
func (c *vCaseC39) treeOf(sn *data.Snapshot) vTree {
	for _, tag := range sn.Tags {
		var i int
		if _, err := fmt.Sscanf(tag, "n%d", &i); err == nil && i < len(c.trees) {
			return c.trees[i]
		}
	}
	return vTree{}
}

func (c *vCaseC39) somePath(t *rapid.T, sn *data.Snapshot, label string) (string, *vNode) {
	tr := c.treeOf(sn)
	ps := tr.Paths()
	if len(ps) == 0 {
		return "", nil
	}
	p := ps[rapid.IntRange(0, len(ps)-1).Draw(t, label)]
	return p, tr[p]
}

// ---------------------------------------------------------------------------
// raw access to repository files, for both kinds of environment

func vDirC39(tpe backend.FileType) string {
	switch tpe {
	case backend.PackFile:
		return "data"
	case backend.IndexFile:
		return "index"
	case backend.SnapshotFile:
		return "snapshots"
	case backend.KeyFile:
		return "keys"
	}
	return "locks"
}

// vPathC39 is the location of a file in a local repository (packs live in data/<first byte>/).
func vPathC39(e *vEnv, tpe backend.FileType, name string) string {
	if tpe == backend.PackFile {
		return filepath.Join(e.gopts.Repo, "data", name[:2], name)
	}
	return filepath.Join(e.gopts.Repo, vDirC39(tpe), name)
}

func (c *vCaseC39) names(e *vEnv, tpe backend.FileType) []string {
	if e.store != nil {
		return e.store.Keys(tpe)
	}
	var out []string
	_ = filepath.Walk(filepath.Join(e.gopts.Repo, vDirC39(tpe)), func(_ string, fi os.FileInfo, err error) error {
		if err == nil && fi.Mode().IsRegular() {
			out = append(out, fi.Name())
		}
		return nil
	})
	sort.Strings(out)
	return out
}

func (c *vCaseC39) get(e *vEnv, tpe backend.FileType, name string) []byte {
	if e.store != nil {
		b, _ := e.store.Get(tpe, name)
		return b
	}
	b, _ := os.ReadFile(vPathC39(e, tpe, name))
	return b
}

func (c *vCaseC39) put(e *vEnv, tpe backend.FileType, name string, b []byte) error {
	if e.store != nil {
		e.store.Put(tpe, name, b)
		return nil
	}
	p := vPathC39(e, tpe, name)
	if err := os.MkdirAll(filepath.Dir(p), 0o700); err != nil {
		return err
	}
	return os.WriteFile(p, b, 0o600)
}

func (c *vCaseC39) del(e *vEnv, tpe backend.FileType, name string) error {
	if e.store != nil {
		e.store.Del(tpe, name)
		return nil
	}
	return os.Remove(vPathC39(e, tpe, name))
}

func vMinusC39(after, before []string) []string {
	seen := vSetOfC39(before)
	var out []string
	for _, a := range after {
		if !seen[a] {
			out = append(out, a)
		}
	}
	return out
}

func vSetOfC39(l []string) map[string]bool {
	m := map[string]bool{}
	for _, x := range l {
		m[x] = true
	}
	return m
}

// wasteBackup backs up a separate directory with fresh content (no blob is shared with
// the regular snapshots), so the packs and the index file it writes belong to it alone.
func (c *vCaseC39) wasteBackup(t *rapid.T, env *vEnv) {
	dir := c.e.Scratch("waste-")
	tr := vTree{"w": &vNode{Kind: 'd', Mode: 0o755, Mtime: 1600000000e9}}
	for i, n := 0, rapid.IntRange(1, 3).Draw(t, "wastefiles"); i < n; i++ {
		tr[fmt.Sprintf("w/f%d", i)] = &vNode{Kind: 'f', Mode: 0o644, Mtime: 1600000000e9, Seed: 1000 + rapid.Uint64Range(0, 1<<40).Draw(t, "wasteseed"), Len: rapid.IntRange(1, 20000).Draw(t, "wastelen")}
	}
	if err := tr.Materialize(dir); err != nil {
		t.Fatal(err)
	}
	if err := env.Backup([]string{dir}, BackupOptions{Tags: data.TagLists{data.TagList{"waste"}}, TimeStamp: "2021-05-01 00:00:00"}); err != nil {
		t.Fatalf("waste backup: %v", err)
	}
}

func (c *vCaseC39) forgetWasteSnapshot(t *rapid.T, before []string) {
	fresh := vMinusC39(c.names(c.e, backend.SnapshotFile), before)
	if len(fresh) != 1 {
		t.Fatalf("waste backup created %d snapshots", len(fresh))
	}
	if _, err := c.e.Forget(ForgetOptions{}, PruneOptions{}, fresh[0]); err != nil {
		t.Fatalf("forget waste snapshot: %v", err)
	}
}

// makeWaste leaves garbage of the drawn class in the repository. All classes leave a
// repository whose snapshots are intact.
func (c *vCaseC39) makeWaste(t *rapid.T) {
	e := c.e
	c.waste = rapid.SampledFrom([]string{"none", "unindexed-pack", "unindexed-pack", "index-removed", "duplicate-blobs", "missing-indexed-pack"}).Draw(t, "waste")
	packs0 := c.names(e, backend.PackFile)
	idx0 := c.names(e, backend.IndexFile)
	sn0 := c.names(e, backend.SnapshotFile)
	switch c.waste {
	case "unindexed-pack":
		// a backup that died after uploading packs and before its index was saved
		if e.store != nil {
			probe := e.store.Clone()
			pe := e.OnStore(probe)
			probe.StartRecording(vbe.NoFaults())
			c.wasteBackup(t, pe)
			log := probe.StopRecording()
			pe.Release()
			first, idx := -1, -1
			for i, op := range log {
				if !op.Remove && op.Key.Type == backend.PackFile && first < 0 {
					first = i
				}
				if !op.Remove && op.Key.Type == backend.IndexFile && idx < 0 {
					idx = i
				}
			}
			if first < 0 || idx <= first {
				t.Fatalf("waste backup log has no pack save before the index save:\n%s", vOpsStringC39(log))
			}
			k := rapid.IntRange(first+1, idx).Draw(t, "wastecut")
			s := probe.StateAt(k)
			s.DropLocks()
			e.ReplaceStore(s)
		} else {
			ce, err := vCloneEnvC39(e)
			if err != nil {
				t.Fatal(err)
			}
			c.wasteBackup(t, ce)
			fresh := vMinusC39(c.names(ce, backend.PackFile), packs0)
			n := rapid.IntRange(1, len(fresh)).Draw(t, "wastepacks")
			for _, name := range fresh[:n] {
				if err := c.put(e, backend.PackFile, name, c.get(ce, backend.PackFile, name)); err != nil {
					t.Fatal(err)
				}
			}
			ce.Close()
		}
	case "index-removed":
		// the index file of a forgotten backup is gone: its packs are in no index
		c.wasteBackup(t, e)
		c.forgetWasteSnapshot(t, sn0)
		for _, name := range vMinusC39(c.names(e, backend.IndexFile), idx0) {
			if err := c.del(e, backend.IndexFile, name); err != nil {
				t.Fatal(err)
			}
		}
	case "duplicate-blobs":
		// the same tree is backed up again while the index is hidden: every blob is stored twice
		saved := map[string][]byte{}
		for _, name := range idx0 {
			saved[name] = c.get(e, backend.IndexFile, name)
			if err := c.del(e, backend.IndexFile, name); err != nil {
				t.Fatal(err)
			}
		}
		bo := BackupOptions{Force: true, Tags: data.TagLists{data.TagList{fmt.Sprintf("n%d", c.nseq-1)}}, TimeStamp: "2021-07-01 00:00:00"}
		if err := e.Backup([]string{c.src}, bo); err != nil {
			t.Fatalf("duplicate backup: %v", err)
		}
		for name, b := range saved {
			if err := c.put(e, backend.IndexFile, name, b); err != nil {
				t.Fatal(err)
			}
		}
	case "missing-indexed-pack":
		// a pack of a forgotten backup was deleted but is still listed in the index
		c.wasteBackup(t, e)
		c.forgetWasteSnapshot(t, sn0)
		fresh := vMinusC39(c.names(e, backend.PackFile), packs0)
		if err := c.del(e, backend.PackFile, fresh[rapid.IntRange(0, len(fresh)-1).Draw(t, "wastedel")]); err != nil {
			t.Fatal(err)
		}
	}
	if n := len(vMinusC39(c.names(e, backend.PackFile), packs0)); c.waste != "none" && n == 0 {
		t.Fatalf("waste class %s left no additional pack", c.waste)
	}
}

func (c *vCaseC39) dryInvocations(t *rapid.T, v2 bool) []vInvC39 {
	var invs []vInvC39
	comp := c.e.gopts.Compression

	// backup --dry-run of a changed source tree
	{
		tr := vMutateC39(t, c.last)
		if rapid.IntRange(0, 3).Draw(t, "bregen") == 0 {
			tr = vGenTree(t, vTreeGen{MaxEntries: 8, ContentPool: 12, Names: vNamesC39, Symlinks: true})
		}
		if err := c.materialize(tr); err != nil {
			t.Fatal(err)
		}
		bo := BackupOptions{
			Force:           rapid.IntRange(0, 2).Draw(t, "bforce") == 0,
			TimeStamp:       "2021-06-01 12:00:00",
			SkipIfUnchanged: rapid.IntRange(0, 4).Draw(t, "bskip") == 0,
			Tags:            data.TagLists{data.TagList{"dry"}},
		}
		verbose := rapid.IntRange(0, 2).Draw(t, "bverbose")
		invs = append(invs, vInvC39{kind: "backup", hasWet: true, mustSucceed: true,
			desc: fmt.Sprintf("--dry-run force=%v skip-if-unchanged=%v verbosity=%d tree=%s", bo.Force, bo.SkipIfUnchanged, verbose, tr),
			run: func(env *vEnv, dry bool) (vOut, error) {
				o := bo
				o.DryRun = dry
				g := env.gopts
				g.Verbosity = uint(verbose)
				g.Quiet = verbose == 0
				return env.BackupOut(context.Background(), g, []string{c.src}, o)
			}})
	}

	// forget --dry-run: ids or a policy, with and without --prune / --no-lock
	for i, n := 0, rapid.IntRange(1, 2).Draw(t, "nforget"); i < n; i++ {
		fo := ForgetOptions{Prune: rapid.IntRange(0, 2).Draw(t, "fprune") == 0}
		noLock := rapid.Bool().Draw(t, "fnolock")
		var args []string
		desc := ""
		switch rapid.IntRange(0, 5).Draw(t, "fkind") {
		case 0, 1:
			k := rapid.IntRange(1, min(2, len(c.sns))).Draw(t, "fn")
			for _, j := range rapid.Permutation(vRange(len(c.sns))).Draw(t, "fperm")[:k] {
				args = append(args, c.sns[j].ID().String())
			}
			desc = "ids " + strings.Join(args, ",")
		case 2:
			fo.Last = ForgetPolicyCount(rapid.IntRange(1, 2).Draw(t, "flast"))
			desc = fmt.Sprintf("keep-last %d", fo.Last)
		case 3:
			fo.KeepTags = data.TagLists{data.TagList{rapid.SampledFrom([]string{"n0", "n1", "odd", "nosuchtag"}).Draw(t, "ftag")}}
			desc = fmt.Sprintf("keep-tag %v", fo.KeepTags)
		case 4:
			fo.Daily = ForgetPolicyCount(rapid.IntRange(1, 2).Draw(t, "fdaily"))
			fo.Within = data.Duration{Hours: rapid.IntRange(0, 30).Draw(t, "fwithin")}
			desc = fmt.Sprintf("keep-daily %d keep-within %v", fo.Daily, fo.Within)
		default:
			fo.Hourly = ForgetPolicyCount(rapid.IntRange(1, 3).Draw(t, "fhourly"))
			fo.Tags = data.TagLists{data.TagList{"odd"}}
			desc = fmt.Sprintf("keep-hourly %d --tag odd", fo.Hourly)
		}
		if len(args) == 0 && rapid.Bool().Draw(t, "fgroup") {
			fo.GroupBy = data.SnapshotGroupByOptions{Host: true, Path: true}
		}
		popts, pdesc := vPruneOptsC39(t, v2, comp, c.repoID)
		json := rapid.IntRange(0, 3).Draw(t, "fjson") == 0
		kind := "forget"
		if noLock {
			kind = "forget-nolock"
		}
		invs = append(invs, vInvC39{kind: kind, hasWet: true, locks: !noLock,
			desc: fmt.Sprintf("--dry-run %s prune=%v (%s) no-lock=%v json=%v", desc, fo.Prune, pdesc, noLock, json),
			run: func(env *vEnv, dry bool) (vOut, error) {
				o := fo
				o.DryRun = dry
				g := env.gopts
				g.NoLock = noLock && dry
				g.JSON = json
				g.Quiet = false
				return vCallC39(env, g, func(ctx context.Context, gopts global.Options) error {
					return runForget(ctx, o, popts, gopts, gopts.Term, args)
				})
			}})
	}

	// prune --dry-run
	{
		popts, pdesc := vPruneOptsC39(t, v2, comp, c.repoID)
		noLock := rapid.Bool().Draw(t, "pnolock")
		kind := "prune"
		if noLock {
			kind = "prune-nolock"
		}
		verbose := rapid.IntRange(0, 2).Draw(t, "pverbose")
		invs = append(invs, vInvC39{kind: kind, hasWet: true, locks: !noLock, mustSucceed: true,
			desc: fmt.Sprintf("--dry-run %s no-lock=%v verbosity=%d", pdesc, noLock, verbose),
			run: func(env *vEnv, dry bool) (vOut, error) {
				o := popts
				o.DryRun = dry
				g := env.gopts
				g.NoLock = noLock && dry
				g.Verbosity = uint(verbose)
				g.Quiet = verbose == 0
				return vCallC39(env, g, func(ctx context.Context, gopts global.Options) error {
					return runPrune(ctx, o, gopts, gopts.Term)
				})
			}})
	}

	// rewrite --dry-run
	for i, n := 0, rapid.IntRange(1, 2).Draw(t, "nrewrite"); i < n; i++ {
		ro := RewriteOptions{Forget: rapid.Bool().Draw(t, "rwforget")}
		var args []string
		sn := c.pickSnap(t, "rwsnap")
		if rapid.Bool().Draw(t, "rwone") {
			args = []string{sn.ID().String()}
		}
		pat := rapid.SampledFrom([]string{"*.txt", "g.dat", "sub", "aa", "x y", "nosuchname"}).Draw(t, "rwpat")
		if p, _ := c.somePath(t, sn, "rwpath"); p != "" && rapid.IntRange(0, 2).Draw(t, "rwfrom") != 0 {
			pat = filepath.Base(p)
		}
		switch rapid.IntRange(0, 4).Draw(t, "rwkind") {
		case 0:
			ro.Metadata.Hostname = "otherhost"
		case 1:
			ro.Metadata.Time = "2019-03-04 05:06:07"
			ro.ExcludePatternOptions = filter.ExcludePatternOptions{Excludes: []string{pat}}
		case 2:
			ro.IncludePatternOptions = filter.IncludePatternOptions{Includes: []string{pat}}
		case 3:
			ro.SnapshotSummary = true
			ro.ExcludePatternOptions = filter.ExcludePatternOptions{Excludes: []string{pat}}
		default:
			ro.ExcludePatternOptions = filter.ExcludePatternOptions{Excludes: []string{pat}}
		}
		invs = append(invs, vInvC39{kind: "rewrite", hasWet: true, mustSucceed: true,
			desc: fmt.Sprintf("--dry-run forget=%v exclude=%v include=%v host=%q time=%q summary=%v %v", ro.Forget, ro.Excludes, ro.Includes, ro.Metadata.Hostname, ro.Metadata.Time, ro.SnapshotSummary, args),
			run: func(env *vEnv, dry bool) (vOut, error) {
				o := ro
				o.DryRun = dry
				g := env.gopts
				g.Quiet = false
				return vCallC39(env, g, func(ctx context.Context, gopts global.Options) error {
					return runRewrite(ctx, o, gopts, args, gopts.Term)
				})
			}})
	}

	// a repository with garbage always gets the LOCKING dry-run variants that plan a prune: these
	// run on the real backend (no dry-run wrapper), so nothing but lock files may be touched
	if c.waste != "none" {
		popts, pdesc := vPruneOptsC39(t, v2, comp, c.repoID)
		invs = append(invs, vInvC39{kind: "prune", hasWet: true, locks: true, mustSucceed: true,
			desc: fmt.Sprintf("--dry-run %s no-lock=false (waste %s)", pdesc, c.waste),
			run: func(env *vEnv, dry bool) (vOut, error) {
				o := popts
				o.DryRun = dry
				g := env.gopts
				g.Quiet = false
				g.Verbosity = 2
				return vCallC39(env, g, func(ctx context.Context, gopts global.Options) error {
					return runPrune(ctx, o, gopts, gopts.Term)
				})
			}})
		fpopts, fpdesc := vPruneOptsC39(t, v2, comp, c.repoID)
		victim := c.pickSnap(t, "wfsnap").ID().String()
		invs = append(invs, vInvC39{kind: "forget", hasWet: true, locks: true, mustSucceed: true,
			desc: fmt.Sprintf("--dry-run ids %s prune=true (%s) no-lock=false (waste %s)", victim, fpdesc, c.waste),
			run: func(env *vEnv, dry bool) (vOut, error) {
				g := env.gopts
				g.Quiet = false
				return vCallC39(env, g, func(ctx context.Context, gopts global.Options) error {
					return runForget(ctx, ForgetOptions{DryRun: dry, Prune: true}, fpopts, gopts, gopts.Term, []string{victim})
				})
			}})
	}

	// repair snapshots --dry-run on the healthy repository
	{
		forget := rapid.Bool().Draw(t, "rsforget")
		invs = append(invs, c.repairSnapshotsInv(forget, "repair-snapshots-healthy"))
	}
	return invs
}

func (c *vCaseC39) repairSnapshotsInv(forget bool, kind string) vInvC39 {
	return vInvC39{kind: kind, hasWet: true, mustSucceed: true,
		desc: fmt.Sprintf("--dry-run forget=%v", forget),
		run: func(env *vEnv, dry bool) (vOut, error) {
			g := env.gopts
			g.Quiet = false
			return vCallC39(env, g, func(ctx context.Context, gopts global.Options) error {
				return runRepairSnapshots(ctx, gopts, RepairOptions{DryRun: dry, Forget: forget}, nil, gopts.Term)
			})
		}}
}

func (c *vCaseC39) readInvocations(t *rapid.T) []vInvC39 {
	var invs []vInvC39
	read := func(kind, desc string, json bool, fn func(ctx context.Context, gopts global.Options) error) {
		invs = append(invs, vInvC39{kind: kind, desc: desc + fmt.Sprintf(" --no-lock json=%v", json), mustSucceed: true,
			run: func(env *vEnv, _ bool) (vOut, error) {
				g := env.gopts
				g.NoLock = true
				g.JSON = json
				g.Quiet = false
				return vCallC39(env, g, fn)
			}})
	}
	kinds := []string{"snapshots", "ls", "find", "diff", "stats", "cat", "dump", "restore", "check", "list", "key-list"}
	nk := rapid.IntRange(4, 9).Draw(t, "nreads")
	perm := rapid.Permutation(vRange(len(kinds))).Draw(t, "reads")
	for _, ki := range perm[:nk] {
		switch kinds[ki] {
		case "snapshots":
			so := SnapshotOptions{Compact: rapid.Bool().Draw(t, "scompact"), Latest: rapid.IntRange(0, 2).Draw(t, "slatest")}
			if rapid.Bool().Draw(t, "sgroup") {
				so.GroupBy = data.SnapshotGroupByOptions{Host: true, Tag: rapid.Bool().Draw(t, "sgrouptag")}
			}
			read("snapshots", fmt.Sprintf("compact=%v latest=%d group=%v", so.Compact, so.Latest, so.GroupBy), rapid.Bool().Draw(t, "sjson"),
				func(ctx context.Context, gopts global.Options) error {
					return runSnapshots(ctx, so, gopts, nil, gopts.Term)
				})
		case "ls":
			arg, sn := c.snapArg(t, "lssnap")
			args := []string{arg}
			if p, nd := c.somePath(t, sn, "lspath"); nd != nil && nd.Kind == 'd' && rapid.Bool().Draw(t, "lsdir") {
				args = append(args, filepath.Join(c.src, p))
			}
			lo := LsOptions{ListLong: rapid.Bool().Draw(t, "lslong"), Recursive: rapid.Bool().Draw(t, "lsrec"), HumanReadable: rapid.Bool().Draw(t, "lshuman")}
			json := rapid.Bool().Draw(t, "lsjson")
			if !json && rapid.IntRange(0, 4).Draw(t, "lsncdu") == 0 {
				lo.Ncdu = true
			}
			read("ls", fmt.Sprintf("%v long=%v recursive=%v ncdu=%v", args, lo.ListLong, lo.Recursive, lo.Ncdu), json,
				func(ctx context.Context, gopts global.Options) error {
					return runLs(ctx, lo, gopts, args, gopts.Term)
				})
		case "find":
			fo := FindOptions{ListLong: rapid.Bool().Draw(t, "fdlong"), CaseInsensitive: rapid.Bool().Draw(t, "fdicase")}
			var args []string
			sn := c.pickSnap(t, "fdsnap")
			switch rapid.IntRange(0, 3).Draw(t, "fdkind") {
			case 0:
				fo.TreeID = true
				fo.ShowPackID = rapid.Bool().Draw(t, "fdshowpack")
				args = []string{sn.Tree.String()}
			case 1:
				fo.PackID = true
				files, _ := c.e.Files()
				var packs []string
				for k := range files {
					if strings.HasPrefix(k, "data/") {
						packs = append(packs, filepath.Base(k))
					}
				}
				sort.Strings(packs)
				if len(packs) == 0 {
					continue
				}
				args = []string{packs[rapid.IntRange(0, len(packs)-1).Draw(t, "fdpack")]}
			default:
				args = []string{rapid.SampledFrom([]string{"*.txt", "aa", "G.DAT", "sub", "x*", "nosuchname"}).Draw(t, "fdpat")}
				if rapid.Bool().Draw(t, "fdsnaponly") {
					fo.Snapshots = []string{sn.ID().String()}
				}
			}
			read("find", fmt.Sprintf("%v tree=%v pack=%v", args, fo.TreeID, fo.PackID), rapid.Bool().Draw(t, "fdjson"),
				func(ctx context.Context, gopts global.Options) error {
					return runFind(ctx, fo, gopts, args, gopts.Term)
				})
		case "diff":
			// diff takes ids (or prefixes), not "latest"
			a, b := c.pickSnap(t, "dfa").ID().String(), c.pickSnap(t, "dfb").ID().Str()
			do := DiffOptions{ShowMetadata: rapid.Bool().Draw(t, "dfmeta")}
			read("diff", fmt.Sprintf("%s %s metadata=%v", a, b, do.ShowMetadata), rapid.Bool().Draw(t, "dfjson"),
				func(ctx context.Context, gopts global.Options) error {
					return runDiff(ctx, do, gopts, []string{a, b}, gopts.Term)
				})
		case "stats":
			so := StatsOptions{countMode: rapid.SampledFrom([]string{countModeRestoreSize, countModeUniqueFilesByContents, countModeBlobsPerFile, countModeRawData}).Draw(t, "stmode")}
			var args []string
			if rapid.Bool().Draw(t, "stone") {
				a, _ := c.snapArg(t, "stsnap")
				args = []string{a}
			}
			read("stats", fmt.Sprintf("mode=%s %v", so.countMode, args), rapid.Bool().Draw(t, "stjson"),
				func(ctx context.Context, gopts global.Options) error {
					return runStats(ctx, so, gopts, args, gopts.Term)
				})
		case "cat":
			files, _ := c.e.Files()
			byType := func(prefixes ...string) []string {
				var out []string
				for k := range files {
					for _, p := range prefixes {
						if strings.HasPrefix(k, p) {
							out = append(out, filepath.Base(k))
						}
					}
				}
				sort.Strings(out)
				return out
			}
			sn := c.pickSnap(t, "catsnap")
			var args []string
			switch rapid.IntRange(0, 7).Draw(t, "catkind") {
			case 0:
				args = []string{"config"}
			case 1:
				args = []string{"masterkey"}
			case 2:
				args = []string{"snapshot", sn.ID().Str()}
			case 3:
				ids := byType("index/")
				args = []string{"index", ids[rapid.IntRange(0, len(ids)-1).Draw(t, "catidx")]}
			case 4:
				ids := byType("key/", "keys/")
				args = []string{"key", ids[rapid.IntRange(0, len(ids)-1).Draw(t, "catkey")]}
			case 5:
				ids := byType("data/")
				args = []string{"pack", ids[rapid.IntRange(0, len(ids)-1).Draw(t, "catpack")]}
			case 6:
				args = []string{"tree", sn.ID().String() + ":" + filepath.ToSlash(c.src)}
			default:
				args = []string{"blob", sn.Tree.String()}
			}
			read("cat", strings.Join(args, " "), false,
				func(ctx context.Context, gopts global.Options) error {
					return runCat(ctx, gopts, args, gopts.Term)
				})
		case "dump":
			arg, sn := c.snapArg(t, "dusnap")
			p := "/"
			// a file or a directory (dump refuses symlinks)
			if q, nd := c.somePath(t, sn, "dupath"); q != "" && nd.Kind != 'l' && rapid.IntRange(0, 3).Draw(t, "duroot") != 0 {
				p = filepath.ToSlash(filepath.Join(c.src, q))
			}
			do := DumpOptions{Archive: rapid.SampledFrom([]string{"tar", "zip"}).Draw(t, "duarch")}
			if rapid.Bool().Draw(t, "dutarget") {
				do.Target = filepath.Join(c.e.Scratch("dump-"), "out")
			}
			read("dump", fmt.Sprintf("%s %s archive=%s target=%v", arg, p, do.Archive, do.Target != ""), false,
				func(ctx context.Context, gopts global.Options) error {
					return runDump(ctx, do, gopts, []string{arg, p}, gopts.Term)
				})
		case "restore":
			arg, _ := c.snapArg(t, "resnap")
			ro := RestoreOptions{Target: c.e.Scratch("restore-"), Verify: rapid.Bool().Draw(t, "reverify"), Sparse: rapid.Bool().Draw(t, "resparse"),
				DryRun: rapid.IntRange(0, 3).Draw(t, "redry") == 0}
			if ro.DryRun {
				ro.Verify = false // mutually exclusive
			}
			switch rapid.IntRange(0, 2).Draw(t, "refilter") {
			case 0:
				ro.IncludePatternOptions = filter.IncludePatternOptions{Includes: []string{"*.txt"}}
			case 1:
				ro.ExcludePatternOptions = filter.ExcludePatternOptions{Excludes: []string{"sub"}}
			}
			read("restore", fmt.Sprintf("%s verify=%v sparse=%v dry-run=%v include=%v exclude=%v", arg, ro.Verify, ro.Sparse, ro.DryRun, ro.Includes, ro.Excludes), rapid.Bool().Draw(t, "rejson"),
				func(ctx context.Context, gopts global.Options) error {
					defer os.RemoveAll(ro.Target)
					return runRestore(ctx, ro, gopts, gopts.Term, []string{arg})
				})
		case "check":
			co := CheckOptions{ReadData: rapid.Bool().Draw(t, "ckread"), WithCache: rapid.Bool().Draw(t, "ckcache")}
			if !co.ReadData && rapid.Bool().Draw(t, "cksubset") {
				co.ReadDataSubset = rapid.SampledFrom([]string{"1/2", "50%", "10K"}).Draw(t, "cksub")
			}
			read("check", fmt.Sprintf("read-data=%v subset=%q with-cache=%v", co.ReadData, co.ReadDataSubset, co.WithCache), rapid.Bool().Draw(t, "ckjson"),
				func(ctx context.Context, gopts global.Options) error {
					_, err := runCheck(ctx, co, gopts, nil, gopts.Term)
					return err
				})
			if c.waste == "missing-indexed-pack" {
				// check rightly reports the missing pack as an error
				invs[len(invs)-1].mustSucceed = false
			}
		case "list":
			args := []string{rapid.SampledFrom([]string{"blobs", "packs", "index", "snapshots", "keys", "locks"}).Draw(t, "lstype")}
			if args[0] == "packs" && rapid.Bool().Draw(t, "lspacksnap") {
				args = append(args, c.pickSnap(t, "lspsnap").ID().String())
			}
			read("list", strings.Join(args, " "), false,
				func(ctx context.Context, gopts global.Options) error {
					return runList(ctx, gopts, args, gopts.Term, "blobs|packs|index|snapshots|keys|locks")
				})
		case "key-list":
			read("key-list", "", rapid.Bool().Draw(t, "kljson"),
				func(ctx context.Context, gopts global.Options) error {
					return runKeyList(ctx, gopts, nil, gopts.Term)
				})
		}
	}
	return invs
}

func TestVerifC39DryRunNoLock(t *testing.T) {
	vSetup(t)
	st := verifkit.Begin(t, "C39")
	rapid.Check(t, func(t *rapid.T) {
		vmem := rapid.IntRange(0, 2).Draw(t, "backend") != 0
		e, err := vNewEnv(vmem)
		if err != nil {
			t.Fatal(err)
		}
		defer e.Close()
		version := rapid.SampledFrom([]string{"1", "2", "2"}).Draw(t, "version")
		e.gopts.Compression = rapid.SampledFrom([]repository.CompressionMode{repository.CompressionAuto, repository.CompressionAuto, repository.CompressionOff}).Draw(t, "compression")
		if err := e.Init(version); err != nil {
			t.Fatal(err)
		}
		c := &vCaseC39{e: e, src: e.Scratch("src-")}
		if err := e.WithRepo(func(ctx context.Context, repo *repository.Repository) error {
			c.repoID = repo.Config().ID
			return nil
		}); err != nil {
			t.Fatal(err)
		}

		// the repository: 2-4 backups over a content pool, optionally one snapshot forgotten
		// (unused blobs for prune), optionally one snapshot tagged twice
		nb := rapid.IntRange(2, 4).Draw(t, "backups")
		tr := vGenTree(t, vTreeGen{MaxEntries: 9, ContentPool: 12, Names: vNamesC39, Symlinks: true})
		for i := 0; i < nb; i++ {
			if i > 0 {
				tr = vMutateC39(t, tr)
			}
			if err := c.materialize(tr); err != nil {
				t.Fatal(err)
			}
			c.trees = append(c.trees, tr.Clone())
			tags := data.TagLists{data.TagList{fmt.Sprintf("n%d", i)}}
			if i%2 == 1 {
				tags = append(tags, data.TagList{"odd"})
			}
			bo := BackupOptions{Tags: tags, TimeStamp: vTimeString(time.Date(2021, 5, 30, 20, 0, 0, 0, time.Local).Add(time.Duration(i*rapid.IntRange(1, 20).Draw(t, "gap")) * time.Hour))}
			if err := e.Backup([]string{c.src}, bo); err != nil {
				t.Fatalf("backup: %v", err)
			}
		}
		unused := rapid.Bool().Draw(t, "forgetone")
		if unused {
			sns, err := e.Snapshots()
			if err != nil {
				t.Fatal(err)
			}
			victim := sns[rapid.IntRange(0, len(sns)-1).Draw(t, "victim")]
			if _, err := e.Forget(ForgetOptions{}, PruneOptions{}, victim.ID().String()); err != nil {
				t.Fatal(err)
			}
		}
		c.nseq = nb
		c.makeWaste(t)
		c.sns, err = e.Snapshots()
		if err != nil || len(c.sns) == 0 {
			t.Fatalf("snapshots: %v (%d)", err, len(c.sns))
		}

		invs := c.dryInvocations(t, version == "2")
		invs = append(invs, c.readInvocations(t)...)
		var nt []string
		for _, inv := range invs {
			if c.observe(t, st, inv) {
				nt = append(nt, inv.kind+" "+inv.desc)
			}
		}

		// repair snapshots --dry-run on a repository that needs repair: one pack is lost and
		// the index repaired (the documented procedure), so the modifying variant rewrites snapshots
		files, _ := e.Files()
		var packs []string
		for k := range files {
			if strings.HasPrefix(k, "data/") {
				packs = append(packs, k)
			}
		}
		sort.Slice(packs, func(i, j int) bool {
			if len(files[packs[i]]) != len(files[packs[j]]) {
				return len(files[packs[i]]) < len(files[packs[j]])
			}
			return packs[i] < packs[j]
		})
		lost := packs[rapid.IntRange(0, len(packs)-1).Draw(t, "lostpack")]
		if e.store != nil {
			e.store.Del(backend.PackFile, filepath.Base(lost))
		} else if err := os.Remove(filepath.Join(e.gopts.Repo, lost)); err != nil {
			t.Fatal(err)
		}
		if _, err := e.call(e.gopts, func(ctx context.Context, gopts global.Options) error {
			return runRebuildIndex(ctx, RepairIndexOptions{}, gopts, gopts.Term)
		}); err != nil {
			t.Fatalf("repair index after losing a pack: %v", err)
		}
		if c.observe(t, st, c.repairSnapshotsInv(rapid.Bool().Draw(t, "rsforget2"), "repair-snapshots-damaged")) {
			nt = append(nt, "repair-snapshots-damaged")
		}

		key := ""
		if len(nt) > 0 {
			key = fmt.Sprintf("vmem=%v v%s %v %s", vmem, version, c.trees, strings.Join(nt, "|"))
		}
		st.Case(key, fmt.Sprintf("vmem=%v", vmem), "version="+version, "repo:"+c.waste, fmt.Sprintf("repo:%s/vmem=%v", c.waste, vmem), fmt.Sprintf("unused_data=%v", unused), fmt.Sprintf("nontrivial=%v", key != ""))
		if st.WantSample() {
			var ds []string
			for _, inv := range invs {
				ds = append(ds, inv.kind+": "+inv.desc)
			}
			st.Sample(map[string]any{"vmem": vmem, "version": version, "waste": c.waste, "snapshots": len(c.sns), "invocations": ds, "wet_variant_changes_repository": nt})
		}
	})
}

func vDigestC39(files map[string][]byte) string {
	ks := make([]string, 0, len(files))
	for k := range files {
		ks = append(ks, k)
	}
	sort.Strings(ks)
	return vSum([]byte(strings.Join(ks, ",")))
}
