package main

import (
	"context"
	"encoding/json"
	"fmt"
	"os"
	"path/filepath"
	"sort"
	"strings"
	"testing"

	"github.com/restic/restic/internal/data"
	"github.com/restic/restic/internal/global"
	"github.com/restic/restic/internal/repository"
	"github.com/restic/restic/internal/restic"
	"github.com/restic/restic/internal/verifkit"
	"pgregory.net/rapid"
)

// C42 through the commands the statement names ("as prune, check, copy and stats do"): the
// library parts decide FindUsedBlobs / StreamTrees on generated DAGs; this part decides that
// the commands built on them use exactly the reachable set on real repositories whose
// snapshots share subtrees (2-4 backups of an incrementally edited source):
//
//   - stats --mode raw-data over a drawn subset of snapshots counts exactly the blobs of the
//     reference reachable set (count exact; size between the sums of the smallest and largest
//     stored copy of each blob);
//   - copy of a drawn subset into a destination that already holds some of the snapshots' tree
//     blobs WITHOUT what they refer to (orphans, indexed): afterwards every blob of the
//     reference reachable set of each copied snapshot is in the destination index and check
//     passes - a traversal that takes "tree known" for "everything below it known" fails here;
//   - forget of a drawn subset + prune --max-unused 0: afterwards the set of indexed blobs is
//     exactly the reference reachable set of the remaining snapshots (nothing needed is gone,
//     nothing unreachable is kept) and check --read-data passes.
//
// The reference reachable set is computed by the harness from the raw tree blobs with its own
// JSON decoding (nodes[].type/content/subtree), not with data.FindUsedBlobs.

type vRefNodeC42 struct {
	Type    string   `json:"type"`
	Content []string `json:"content"`
	Subtree *string  `json:"subtree"`
}

type vRefTreeC42 struct {
	Nodes []vRefNodeC42 `json:"nodes"`
}

type vReachC42 struct {
	set    map[restic.BlobHandle]bool
	trees  map[restic.ID][]byte
	shared int // trees reached from more than one parent or root
}

// vReachableC42 walks the trees below roots in repo with the harness' own decoder.
func vReachableC42(ctx context.Context, repo *repository.Repository, roots []restic.ID) (*vReachC42, error) {
	r := &vReachC42{set: map[restic.BlobHandle]bool{}, trees: map[restic.ID][]byte{}}
	indeg := map[restic.ID]int{}
	var walk func(id restic.ID) error
	walk = func(id restic.ID) error {
		indeg[id]++
		h := restic.BlobHandle{Type: restic.TreeBlob, ID: id}
		if r.set[h] {
			return nil
		}
		r.set[h] = true
		buf, err := repo.LoadBlob(ctx, h, nil)
		if err != nil {
			return fmt.Errorf("reference walk: tree %v: %w", id.Str(), err)
		}
		r.trees[id] = buf
		var tr vRefTreeC42
		if err := json.Unmarshal(buf, &tr); err != nil {
			return fmt.Errorf("reference walk: tree %v: %w", id.Str(), err)
		}
		for _, n := range tr.Nodes {
			switch n.Type {
			case "file":
				for _, c := range n.Content {
					cid, err := restic.ParseID(c)
					if err != nil {
						return err
					}
					r.set[restic.BlobHandle{Type: restic.DataBlob, ID: cid}] = true
				}
			case "dir":
				if n.Subtree != nil {
					sid, err := restic.ParseID(*n.Subtree)
					if err != nil {
						return err
					}
					if err := walk(sid); err != nil {
						return err
					}
				}
			}
		}
		return nil
	}
	for _, root := range roots {
		if err := walk(root); err != nil {
			return nil, err
		}
	}
	for _, n := range indeg {
		if n > 1 {
			r.shared++
		}
	}
	return r, nil
}

func vIndexedC42(ctx context.Context, repo *repository.Repository) (map[restic.BlobHandle]bool, error) {
	out := map[restic.BlobHandle]bool{}
	err := repo.ListBlobs(ctx, func(pb restic.PackBlob) {
		out[pb.Handle()] = true
	})
	return out, err
}

func vSetDiffC42(want, got map[restic.BlobHandle]bool) (missing, extra []string) {
	for h := range want {
		if !got[h] {
			missing = append(missing, h.String())
		}
	}
	for h := range got {
		if !want[h] {
			extra = append(extra, h.String())
		}
	}
	sort.Strings(missing)
	sort.Strings(extra)
	return
}

// vEditC42 changes the source in place (so that unchanged directories keep their tree blobs).
func vEditC42(t *rapid.T, root string, step int) (string, error) {
	var files, dirs []string
	err := filepath.Walk(root, func(p string, fi os.FileInfo, err error) error {
		if err != nil {
			return err
		}
		if fi.IsDir() {
			dirs = append(dirs, p)
		} else if fi.Mode().IsRegular() {
			files = append(files, p)
		}
		return nil
	})
	if err != nil {
		return "", err
	}
	var log []string
	for i, n := 0, rapid.IntRange(1, 3).Draw(t, "edits"); i < n; i++ {
		switch op := rapid.IntRange(0, 3).Draw(t, "edit"); {
		case op == 0 && len(files) > 0:
			f := files[rapid.IntRange(0, len(files)-1).Draw(t, "file")]
			nd := &vNode{Seed: rapid.Uint64().Draw(t, "seed"), Len: rapid.IntRange(1, 4000).Draw(t, "len")}
			if err := os.WriteFile(f, vContent(nd), 0o644); err != nil {
				return "", err
			}
			log = append(log, "rewrite "+strings.TrimPrefix(f, root))
		case op == 1 && len(files) > 1:
			k := rapid.IntRange(0, len(files)-1).Draw(t, "rm")
			if err := os.Remove(files[k]); err != nil {
				return "", err
			}
			log = append(log, "remove "+strings.TrimPrefix(files[k], root))
			files = append(files[:k], files[k+1:]...)
		case op == 2:
			d := dirs[rapid.IntRange(0, len(dirs)-1).Draw(t, "dir")]
			nd := filepath.Join(d, fmt.Sprintf("new%d_%d", step, i))
			if err := os.Mkdir(nd, 0o755); err != nil {
				return "", err
			}
			// pooled content: the new file may consist of blobs that are already stored
			c := &vNode{Seed: uint64(rapid.IntRange(1, 10).Draw(t, "pool")), Len: 200 + 311*rapid.IntRange(0, 6).Draw(t, "plen")}
			c.Len = 200 + int(c.Seed%7)*311
			if err := os.WriteFile(filepath.Join(nd, "f"), vContent(c), 0o644); err != nil {
				return "", err
			}
			dirs = append(dirs, nd)
			log = append(log, "mkdir+file "+strings.TrimPrefix(nd, root))
		default:
			d := dirs[rapid.IntRange(0, len(dirs)-1).Draw(t, "dir2")]
			f := filepath.Join(d, fmt.Sprintf("add%d_%d.bin", step, i))
			nd := &vNode{Seed: rapid.Uint64().Draw(t, "seed2"), Len: rapid.IntRange(0, 3000).Draw(t, "len2")}
			if err := os.WriteFile(f, vContent(nd), 0o644); err != nil {
				return "", err
			}
			files = append(files, f)
			log = append(log, "add "+strings.TrimPrefix(f, root))
		}
	}
	return strings.Join(log, ", "), nil
}

func TestVerifC42CLITraversal(t *testing.T) {
	vSetup(t)
	st := verifkit.Begin(t, "C42")
	rapid.Check(t, func(t *rapid.T) {
		e, err := vNewEnv(true)
		if err != nil {
			t.Fatal(err)
		}
		defer e.Close()
		version := rapid.SampledFrom([]string{"1", "2", "2"}).Draw(t, "version")
		e.gopts.Compression = rapid.SampledFrom([]repository.CompressionMode{repository.CompressionAuto, repository.CompressionAuto, repository.CompressionOff}).Draw(t, "compression")
		if err := e.Init(version); err != nil {
			t.Fatal(err)
		}
		srcDir := e.Scratch("src-")
		tr := vGenTree(t, vTreeGen{MaxEntries: 16, ContentPool: 10, Symlinks: true})
		if err := tr.Materialize(srcDir); err != nil {
			t.Fatal(err)
		}
		var hist []string
		nb := rapid.IntRange(2, 4).Draw(t, "backups")
		for i := 0; i < nb; i++ {
			if i > 0 {
				l, err := vEditC42(t, srcDir, i)
				if err != nil {
					t.Fatal(err)
				}
				hist = append(hist, l)
			}
			if err := e.Backup([]string{srcDir}, BackupOptions{}); err != nil {
				t.Fatalf("backup: %v", err)
			}
		}
		sns, err := e.Snapshots()
		if err != nil || len(sns) != nb {
			t.Fatalf("snapshots: %v (%d of %d)", err, len(sns), nb)
		}
		sort.Slice(sns, func(i, j int) bool { return sns[i].Time.Before(sns[j].Time) })
		fail := func(format string, args ...any) {
			t.Helper()
			t.Fatalf("%s\ntree %s\nedits %q", fmt.Sprintf(format, args...), tr, hist)
		}

		// reference reachable sets (per snapshot and for subsets), stored sizes
		reach := func(env *vEnv, roots []restic.ID) *vReachC42 {
			var r *vReachC42
			if err := env.WithRepo(func(ctx context.Context, repo *repository.Repository) error {
				if err := repo.LoadIndex(ctx, restic.NoopTerminalCounterFactory); err != nil {
					return err
				}
				var err error
				r, err = vReachableC42(ctx, repo, roots)
				return err
			}); err != nil {
				fail("%v", err)
			}
			return r
		}
		pick := func(label string, lo int) []*data.Snapshot {
			n := rapid.IntRange(lo, len(sns)).Draw(t, label)
			var out []*data.Snapshot
			for _, i := range rapid.Permutation(vRange(len(sns))).Draw(t, label+"perm")[:n] {
				out = append(out, sns[i])
			}
			return out
		}
		rootsOf := func(l []*data.Snapshot) (roots []restic.ID, ids []string) {
			for _, sn := range l {
				roots = append(roots, *sn.Tree)
				ids = append(ids, sn.ID().String())
			}
			return
		}
		all := reach(e, func() []restic.ID { r, _ := rootsOf(sns); return r }())
		evals := 0

		// ---- stats --mode raw-data
		{
			sel := pick("stats", 1)
			roots, ids := rootsOf(sel)
			want := reach(e, roots)
			var lo, hi uint64
			if err := e.WithRepo(func(ctx context.Context, repo *repository.Repository) error {
				if err := repo.LoadIndex(ctx, restic.NoopTerminalCounterFactory); err != nil {
					return err
				}
				for h := range want.set {
					pbs := repo.LookupBlob(h)
					if len(pbs) == 0 {
						return fmt.Errorf("reference blob %v is not indexed", h)
					}
					mn, mx := uint64(pbs[0].CiphertextLength()), uint64(pbs[0].CiphertextLength())
					for _, pb := range pbs {
						l := uint64(pb.CiphertextLength())
						mn, mx = min(mn, l), max(mx, l)
					}
					lo += mn
					hi += mx
				}
				return nil
			}); err != nil {
				fail("%v", err)
			}
			g := e.gopts
			g.JSON = true
			out, err := e.call(g, func(ctx context.Context, gopts global.Options) error {
				return runStats(ctx, StatsOptions{countMode: countModeRawData}, gopts, ids, gopts.Term)
			})
			if err != nil {
				fail("stats --mode raw-data %v: %v\n%s", ids, err, out.Stderr)
			}
			var res struct {
				TotalSize      uint64 `json:"total_size"`
				TotalBlobCount uint64 `json:"total_blob_count"`
				Snapshots      int    `json:"snapshots_count"`
			}
			if err := json.Unmarshal([]byte(strings.TrimSpace(out.Stdout)), &res); err != nil {
				fail("stats output %q: %v", out.Stdout, err)
			}
			if res.TotalBlobCount != uint64(len(want.set)) || res.Snapshots != len(sel) {
				fail("stats --mode raw-data over %d snapshots reports %d blobs in %d snapshots; the reference reachable set has %d blobs", len(sel), res.TotalBlobCount, res.Snapshots, len(want.set))
			}
			if res.TotalSize < lo || res.TotalSize > hi {
				fail("stats --mode raw-data reports %d bytes; the blobs of the reference reachable set occupy %d..%d", res.TotalSize, lo, hi)
			}
			evals++
		}

		// ---- copy into a destination with orphaned trees
		orphans := 0
		{
			d, err := vNewEnv(true)
			if err != nil {
				t.Fatal(err)
			}
			defer d.Close()
			d.gopts.Compression = e.gopts.Compression
			if _, err := d.call(d.gopts, func(ctx context.Context, gopts global.Options) error {
				return runInit(ctx, InitOptions{RepositoryVersion: rapid.SampledFrom([]string{"1", "2"}).Draw(t, "dstv"),
					SecondaryRepoOptions: global.SecondaryRepoOptions{Repo: e.gopts.Repo, Password: e.gopts.Password}, CopyChunkerParameters: true}, gopts, nil, gopts.Term)
			}); err != nil {
				fail("init destination: %v", err)
			}
			sel := pick("copy", 1)
			roots, ids := rootsOf(sel)
			want := reach(e, roots)
			var treeIDs []restic.ID
			for id := range want.trees {
				treeIDs = append(treeIDs, id)
			}
			sort.Slice(treeIDs, func(i, j int) bool { return treeIDs[i].String() < treeIDs[j].String() })
			if rapid.IntRange(0, 3).Draw(t, "withorphans") != 0 {
				n := rapid.IntRange(1, len(treeIDs)).Draw(t, "norphans")
				chosen := rapid.Permutation(vRange(len(treeIDs))).Draw(t, "orphanperm")[:n]
				if err := d.WithRepoRW(func(ctx context.Context, repo *repository.Repository) error {
					if err := repo.LoadIndex(ctx, restic.NoopTerminalCounterFactory); err != nil {
						return err
					}
					return repo.WithBlobUploader(ctx, func(ctx context.Context, up restic.BlobSaverWithAsync) error {
						for _, i := range chosen {
							if _, _, _, err := up.SaveBlob(ctx, restic.TreeBlob, want.trees[treeIDs[i]], treeIDs[i], false); err != nil {
								return err
							}
						}
						return nil
					})
				}); err != nil {
					fail("storing orphan trees: %v", err)
				}
				orphans = n
			}
			co := CopyOptions{SecondaryRepoOptions: global.SecondaryRepoOptions{Repo: e.gopts.Repo, Password: e.gopts.Password}}
			if out, err := d.call(d.gopts, func(ctx context.Context, gopts global.Options) error {
				return runCopy(ctx, co, gopts, ids, gopts.Term)
			}); err != nil {
				fail("copy %v: %v\n%s", ids, err, out.Stderr)
			}
			var have map[restic.BlobHandle]bool
			if err := d.WithRepo(func(ctx context.Context, repo *repository.Repository) error {
				if err := repo.LoadIndex(ctx, restic.NoopTerminalCounterFactory); err != nil {
					return err
				}
				var err error
				have, err = vIndexedC42(ctx, repo)
				return err
			}); err != nil {
				fail("%v", err)
			}
			if missing, _ := vSetDiffC42(want.set, have); len(missing) > 0 {
				fail("after copy of %d snapshots (destination held %d of their trees as orphans) %d reachable blobs are missing in the destination: %v", len(sel), orphans, len(missing), missing[:min(len(missing), 5)])
			}
			if out, err := d.Check(true); err != nil {
				fail("check of the destination after copy (%d orphan trees before): %v\n%s%s", orphans, err, out.Stdout, out.Stderr)
			}
			dsns, err := d.Snapshots()
			if err != nil || len(dsns) != len(sel) {
				fail("destination has %d snapshots after copying %d (%v)", len(dsns), len(sel), err)
			}
			evals += 2
		}

		// ---- forget + prune --max-unused 0: exactly the reachable blobs of the remaining snapshots stay
		{
			gone := pick("forget", 1)
			if len(gone) == len(sns) {
				gone = gone[:len(gone)-1]
			}
			goneSet := map[string]bool{}
			_, gids := rootsOf(gone)
			for _, id := range gids {
				goneSet[id] = true
			}
			var rest []*data.Snapshot
			for _, sn := range sns {
				if !goneSet[sn.ID().String()] {
					rest = append(rest, sn)
				}
			}
			if len(gone) > 0 {
				roots, _ := rootsOf(rest)
				want := reach(e, roots)
				if out, err := e.Forget(ForgetOptions{Prune: true}, PruneOptions{MaxUnused: "0"}, gids...); err != nil {
					fail("forget --prune: %v\n%s", err, out.Stderr)
				}
				var have map[restic.BlobHandle]bool
				if err := e.WithRepo(func(ctx context.Context, repo *repository.Repository) error {
					if err := repo.LoadIndex(ctx, restic.NoopTerminalCounterFactory); err != nil {
						return err
					}
					var err error
					have, err = vIndexedC42(ctx, repo)
					return err
				}); err != nil {
					fail("%v", err)
				}
				missing, extra := vSetDiffC42(want.set, have)
				if len(missing) > 0 {
					fail("prune after forgetting %d of %d snapshots removed %d blobs that the remaining snapshots reach: %v", len(gone), len(sns), len(missing), missing[:min(len(missing), 5)])
				}
				if len(extra) > 0 {
					fail("prune --max-unused 0 after forgetting %d of %d snapshots kept %d blobs that no remaining snapshot reaches: %v", len(gone), len(sns), len(extra), extra[:min(len(extra), 5)])
				}
				if out, err := e.Check(true); err != nil {
					fail("check --read-data after prune: %v\n%s%s", err, out.Stdout, out.Stderr)
				}
				evals += 2
				if len(all.set) > len(want.set) {
					st.Class("cli:prune-removed-blobs")
				}
			}
		}

		key := ""
		if all.shared > 0 {
			key = fmt.Sprintf("cli|%s|%q|%d", tr, hist, orphans)
		}
		st.Case(key, "cli:traversal", fmt.Sprintf("cli:orphans=%v", orphans > 0), fmt.Sprintf("cli:shared-trees=%v", all.shared > 0), "cli:version="+version)
		st.Evals(evals)
		if st.WantSample() {
			st.Sample(map[string]any{"part": "cli", "backups": nb, "edits": hist, "reachable_blobs": len(all.set), "shared_trees": all.shared, "orphan_trees_in_destination": orphans})
		}
	})
}
