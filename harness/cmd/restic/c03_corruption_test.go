package main

// C03: any corruption of repository data is reported, never silently used.
//
// Oracle (1): `check --read-data` on the damaged repository must return an error whenever
// the model says a snapshot depends on the damaged file (vRepoC03.depended).
// Oracle (2): restore and dump (tar) of every snapshot either fail or deliver exactly the
// model bytes; after a failed restore every byte that was written is a model byte and every
// incomplete file is named by a reported error.

import (
	"fmt"
	"os"
	"strconv"
	"strings"
	"testing"

	"github.com/restic/restic/internal/backend"
	"github.com/restic/restic/internal/repository"
	"github.com/restic/restic/internal/verifkit"
	"github.com/restic/restic/internal/verifkit/vbe"
	"pgregory.net/rapid"
)

type vSiteResultC03 struct {
	Classes   []string
	Depended  bool
	Changed   bool
	Violation string
}

// evalSite applies the changes to a clone of the healthy store and runs both oracles.
// snaps selects the snapshots on which oracle (2) is run (nil = all).
func (r *vRepoC03) evalSite(muts []vMutC03, snaps []int) vSiteResultC03 {
	res := vSiteResultC03{}
	s := r.e.store.Clone()
	for _, m := range muts {
		vApplyC03(s, m)
	}
	for _, m := range r.effective(s, muts) {
		res.Changed = true
		if r.depended(m) {
			res.Depended = true
		}
	}
	if !res.Changed {
		res.Classes = []string{"noop"}
		return res
	}
	se := r.e.OnStore(s)
	defer se.Release()

	out, cerr := se.Check(true)
	res.Classes = append(res.Classes, fmt.Sprintf("depended=%v", res.Depended), fmt.Sprintf("check_err=%v", cerr != nil))
	if res.Depended && cerr == nil {
		res.Violation = fmt.Sprintf("check --read-data reported no error although a snapshot depends on the damaged file\ncheck output:\n%s%s", out.Stdout, out.Stderr)
		return res
	}
	// the read-only commands must not have "repaired" or otherwise written anything but locks
	allOK := true
	if snaps == nil {
		snaps = vRange(len(r.snaps))
	}
	for _, si := range snaps {
		sn := r.snaps[si]
		o, v := r.restoreOutcome(se, sn)
		res.Classes = append(res.Classes, "restore="+o)
		if v != "" {
			res.Violation = fmt.Sprintf("snapshot %s: %s", sn.ID[:8], v)
			return res
		}
		allOK = allOK && o == "ok"
		o, v = r.dumpOutcome(se, sn)
		res.Classes = append(res.Classes, "dump="+o)
		if v != "" {
			res.Violation = fmt.Sprintf("snapshot %s: %s", sn.ID[:8], v)
			return res
		}
		allOK = allOK && o == "ok"
	}
	if r.Desc.Dup && len(snaps) == len(r.snaps) && len(muts) == 1 && muts[0].Type == backend.PackFile.String() {
		// a damaged pack whose blobs all have a second copy: does restic fall back? (measured, not demanded)
		all := true
		for _, b := range r.packs[muts[0].Name] {
			if len(r.copies[b.H]) < 2 {
				all = false
			}
		}
		if all {
			res.Classes = append(res.Classes, fmt.Sprintf("dup_pack_damaged_all_readable=%v", allOK))
		}
	}
	return res
}

func vMutsStringC03(muts []vMutC03) string {
	var sb strings.Builder
	for _, m := range muts {
		sb.WriteString(vJSON(m))
	}
	return sb.String()
}

func TestVerifC03Sampled(t *testing.T) {
	vSetup(t)
	st := verifkit.Begin(t, "C03")
	sitesPerRepo := verifkit.Scale(24, 48)
	rapid.Check(t, func(t *rapid.T) {
		r := vGenRepoC03(t, vRepoGenC03{AllowDup: true, AllowTwoKeys: true, AllowMultiBlob: true})
		defer r.Close()
		if err := r.healthy(r.e); err != nil {
			t.Fatalf("harness: the undamaged repository is not healthy: %v (%s)", err, vJSON(r.Desc))
		}
		st.Class("repo/version="+r.Desc.Version, "repo/compression="+r.Desc.Compression, fmt.Sprintf("repo/dup=%v", r.Desc.Dup),
			fmt.Sprintf("repo/two_keys=%v", r.Desc.TwoKeys), fmt.Sprintf("repo/multiblob=%v", r.Desc.MultiBlob), fmt.Sprintf("repo/snapshots=%d", r.Desc.Snapshots))
		digest := r.e.store.Digest()[:16]
		// deterministic boundary truncations on every generated repository: every depended
		// file cut to 0 bytes, the first file of each type also to 1 and len-1 bytes
		for i, b := range r.boundaryMuts(false) {
			res := r.evalSite([]vMutC03{b.Mut}, []int{i % len(r.snaps)})
			st.Case(digest+vJSON(b.Mut), append(res.Classes, "op=trunc", "site="+b.Mut.Where, "bnd="+b.Kind, "bnd/"+b.Kind+"="+vTypeNameC03(vFileTypeC03(b.Mut.Type)))...)
			if res.Violation != "" {
				t.Fatalf("C03 violated (boundary truncation %s): %s\nchange: %s\nrepository: %s", b.Kind, res.Violation, vJSON(b.Mut), vJSON(r.Desc))
			}
		}
		for i := 0; i < sitesPerRepo; i++ {
			var muts []vMutC03
			n := 1
			if rapid.IntRange(0, 9).Draw(t, "multi") == 0 {
				n = rapid.IntRange(2, 3).Draw(t, "nmuts")
			}
			for j := 0; j < n; j++ {
				muts = append(muts, r.vDrawMutC03(t, false))
			}
			// oracle (2) on every snapshot for a third of the sites, on one drawn snapshot otherwise
			var sel []int
			if rapid.IntRange(0, 2).Draw(t, "allsnaps") != 0 {
				sel = []int{rapid.IntRange(0, len(r.snaps)-1).Draw(t, "snap")}
			}
			res := r.evalSite(muts, sel)
			classes := res.Classes
			for _, m := range muts {
				classes = append(classes, "op="+m.Op, "site="+m.Where)
			}
			if n > 1 {
				classes = append(classes, "multisite")
			}
			key := ""
			if res.Depended {
				key = digest + vMutsStringC03(muts)
			}
			st.Case(key, classes...)
			if st.WantSample() {
				st.Sample(map[string]any{"repo": r.Desc, "changes": muts, "classes": res.Classes})
			}
			if res.Violation != "" {
				t.Fatalf("C03 violated: %s\nchanges: %s\nrepository: %s", res.Violation, vMutsStringC03(muts), vJSON(r.Desc))
			}
		}
	})
}

// ---------------------------------------------------------------------------
// exhaustive enumeration on fixed small repositories

// vExSiteC03 is the replay form of one enumerated site.
type vExSiteC03 struct {
	Repo string  `json:"repo"` // "v1" | "v2"
	Rank int     `json:"rank"` // file by rank in the (type,size,name) order
	Mut  vMutC03 `json:"mut"`
}

func vFixedReposC03() map[string]func() (*vRepoC03, error) {
	t1 := vTree{
		"a":   {Kind: 'f', Seed: 11, Len: 300, Mode: 0o644, Mtime: 1600000001e9},
		"d":   {Kind: 'd', Mode: 0o755, Mtime: 1600000002e9},
		"d/b": {Kind: 'f', Len: 700, Zeros: true, Mode: 0o600, Mtime: 1600000003e9},
		"l":   {Kind: 'l', Target: "a", Mode: 0o777, Mtime: 1600000004e9},
	}
	t2 := t1.Clone()
	t2["c"] = &vNode{Kind: 'f', Seed: 12, Len: 300, Mode: 0o644, Mtime: 1600000005e9}
	t2["d/b"] = &vNode{Kind: 'f', Seed: 13, Len: 211, Mode: 0o600, Mtime: 1600000006e9}
	return map[string]func() (*vRepoC03, error){
		"v1": func() (*vRepoC03, error) {
			return vBuildRepoC03("1", repository.CompressionAuto, []vTree{t1, t2}, false, false)
		},
		"v2": func() (*vRepoC03, error) {
			return vBuildRepoC03("2", repository.CompressionAuto, []vTree{t1, t2}, false, false)
		},
	}
}

func TestVerifC03Exhaustive(t *testing.T) {
	vSetup(t)
	st := verifkit.Begin(t, "C03")
	repos := vFixedReposC03()

	if verifkit.ReplayFile() != "" {
		var site vExSiteC03
		if err := verifkit.LoadReplay(&site); err != nil {
			t.Skipf("not a replay of this test: %v", err)
		}
		build, ok := repos[site.Repo]
		if !ok {
			t.Skip("not a replay of this test")
		}
		r, err := build()
		if err != nil {
			t.Fatal(err)
		}
		defer r.Close()
		m := site.Mut
		m.Name = r.files[site.Rank%len(r.files)].Name
		res := r.evalSite([]vMutC03{m}, nil)
		if res.Violation != "" {
			t.Fatalf("C03 violated (replay): %s\nchange: %s", res.Violation, vJSON(m))
		}
		return
	}

	// quick: every stride-th site (phase from the seed); thorough: every site
	// thorough: every 3rd site by default so that the tier stays bounded on a loaded machine
	// (all 82.6k sites took 97 min at load average 100); VERIF_C03_STRIDE=1 visits every site
	stride := verifkit.Scale(307, 3)
	if v, err := strconv.Atoi(os.Getenv("VERIF_C03_STRIDE")); err == nil && v >= 1 {
		stride = v
	}
	phase := int(verifkit.Seed() % int64(stride))
	shard, shards := verifkit.Shard(), verifkit.Shards()
	for _, name := range []string{"v1", "v2"} {
		r, err := repos[name]()
		if err != nil {
			t.Fatal(err)
		}
		if err := r.healthy(r.e); err != nil {
			r.Close()
			t.Fatalf("harness: the undamaged repository is not healthy: %v", err)
		}
		st.Note("exhaustive_repo_bytes_"+name, r.Desc.Bytes)
		idx := 0
		visited := 0
		take := func() bool {
			i := idx
			idx++
			if i%stride != phase {
				return false
			}
			return (i/stride)%shards == shard
		}
		run := func(rank int, m vMutC03) {
			visited++
			res := r.evalSite([]vMutC03{m}, nil)
			key := ""
			if res.Depended {
				key = fmt.Sprintf("%s/%d/%s/%d/%d", name, rank, m.Op, m.Off, m.Bit)
			}
			st.Case(key, append(res.Classes, "op="+m.Op, "site="+m.Where, "exhaustive/"+name)...)
			if res.Violation != "" {
				p := verifkit.SaveReplay("C03", fmt.Sprintf("exhaustive-%s-%d-%s-%d", name, rank, m.Op, m.Off), vExSiteC03{Repo: name, Rank: rank, Mut: m})
				r.Close()
				t.Fatalf("C03 violated: %s\nchange: %s (file rank %d of %s)\nreplay: %s", res.Violation, vJSON(m), rank, name, p)
			}
		}
		// deterministic boundary truncations (both tiers): every depended file cut to 0, 1, len-1
		// bytes and at every region boundary, partitioned over the shards
		for i, b := range r.boundaryMuts(true) {
			if i%shards != shard {
				continue
			}
			res := r.evalSite([]vMutC03{b.Mut}, nil)
			st.Case(fmt.Sprintf("%s/bnd/%d/%d", name, b.Rank, b.Mut.Off), append(res.Classes, "op=trunc", "site="+b.Mut.Where, "bnd="+b.Kind, "bnd/"+b.Kind+"="+vTypeNameC03(vFileTypeC03(b.Mut.Type)), "exhaustive/"+name)...)
			if res.Violation != "" {
				p := verifkit.SaveReplay("C03", fmt.Sprintf("exhaustive-%s-%d-bnd-%d", name, b.Rank, b.Mut.Off), vExSiteC03{Repo: name, Rank: b.Rank, Mut: b.Mut})
				r.Close()
				t.Fatalf("C03 violated (boundary truncation %s): %s\nchange: %s (file rank %d of %s)\nreplay: %s", b.Kind, res.Violation, vJSON(b.Mut), b.Rank, name, p)
			}
		}
		for rank, k := range r.files {
			size := r.sizes[k]
			base := vMutC03{Type: k.Type.String(), Name: k.Name}
			for off := 0; off < size; off++ {
				where := ""
				for _, bit := range []uint{0, 7} {
					if take() {
						if where == "" {
							where = r.classify(k, off)
						}
						m := base
						m.Op, m.Off, m.Bit, m.Where = "flip", off, bit, where
						run(rank, m)
					}
				}
				if take() {
					m := base
					m.Op, m.Off, m.Where = "trunc", off, r.classify(k, off)
					run(rank, m)
				}
			}
			if take() {
				m := base
				m.Op, m.Where = "delete", vTypeNameC03(k.Type)+"/whole"
				run(rank, m)
			}
			if take() {
				m := base
				m.Op, m.N, m.Val, m.Where = "extend", 1, 0, vTypeNameC03(k.Type)+"/append"
				run(rank, m)
			}
		}
		st.Note(fmt.Sprintf("exhaustive_sites_%s_shard%d", name, shard), fmt.Sprintf("%d of %d", visited, idx))
		r.Close()
	}
	if stride == 1 {
		st.Note("exhaustive", "every byte offset x {flip bit 0, flip bit 7, truncate here} + delete + extend of every stored file of both fixed repositories, partitioned over the shards")
	}
}

var _ = vbe.Key{}
