package main

// Property C33: after `repair index`, the index lists every blob of every readable pack
// file at its true position and nothing for packs that are missing or unreadable, whatever
// the previous index state was; no pack file is deleted by the repair.
//
// Repositories are built with real backups, synthetic snapshots (one upload session each: many
// packs and index files) and optionally a backup that crashed before its index was saved
// (extra unindexed packs). Damage is then applied directly to the stored files:
//   index level: delete / corrupt / truncate / duplicate (same content, new nonce) an index
//     file, list a pack with only some of its blobs, split the blobs of a pack over two index
//     files, and - only together with --read-all-packs - entries that are wrong but
//     size-consistent (wrong id, swapped ids, wrong type, wrong offset, wrong uncompressed length);
//   pack level: delete, truncate, corrupt the blob area (header intact) and - only together with
//     --read-all-packs - corrupt the header without changing the size.
// The oracle uses the private decoders of c10_repoview_test.go (compiled in through
// "extra_files"): no code of the index or pack packages reads the result.

import (
	"bytes"
	"context"
	"fmt"
	"os"
	"sort"
	"strings"
	"testing"

	"github.com/restic/restic/internal/backend"
	"github.com/restic/restic/internal/global"
	"github.com/restic/restic/internal/repository"
	"github.com/restic/restic/internal/repository/pack"
	"github.com/restic/restic/internal/restic"
	"github.com/restic/restic/internal/verifkit"
	"github.com/restic/restic/internal/verifkit/vbe"
	"pgregory.net/rapid"
)

type vHistC33 struct {
	Version       string   `json:"version"`
	Comp          string   `json:"compression"`
	Build         []string `json:"build"`
	Damage        []string `json:"damage"`
	ReadAll       bool     `json:"read_all_packs"`
	ForcedReadAll string   `json:"forced_read_all,omitempty"`
}

func TestVerifC33RepairIndex(t *testing.T) {
	vSetup(t)
	st := verifkit.Begin(t, "C33")
	rapid.Check(t, func(t *rapid.T) { vCaseC33(t, st) })
}

func vCaseC33(t *rapid.T, st *verifkit.Stats) {
	h := vHistC33{Version: rapid.SampledFrom([]string{"1", "2", "2"}).Draw(t, "version")}
	e, err := vNewEnv(true)
	if err != nil {
		t.Fatal(err)
	}
	defer e.Close()
	modes := []repository.CompressionMode{repository.CompressionAuto, repository.CompressionOff, repository.CompressionFastest}
	mi := rapid.SampledFrom([]int{0, 0, 0, 1, 1, 2}).Draw(t, "compression")
	e.gopts.Compression = modes[mi]
	h.Comp = []string{"auto", "off", "fastest"}[mi]
	if err := e.Init(h.Version); err != nil {
		t.Fatal(err)
	}
	key, err := vKeyC10(e)
	if err != nil {
		t.Fatal(err)
	}
	src := e.Scratch("src-")
	materialize := func(tr vTree) {
		_ = os.RemoveAll(src)
		if err := os.Mkdir(src, 0o755); err != nil {
			t.Fatal(err)
		}
		if err := tr.Materialize(src); err != nil {
			t.Fatal(err)
		}
	}
	build := func(f string, a ...any) { h.Build = append(h.Build, fmt.Sprintf(f, a...)) }
	dmg := func(f string, a ...any) { h.Damage = append(h.Damage, fmt.Sprintf(f, a...)) }

	// ---- build ----
	nb := rapid.IntRange(1, 2).Draw(t, "backups")
	for i := 0; i < nb; i++ {
		tr := vGenTree(t, vTreeGen{MaxEntries: 8, ContentPool: 12})
		materialize(tr)
		if err := e.Backup([]string{src}, BackupOptions{Force: rapid.Bool().Draw(t, "force")}); err != nil {
			t.Fatalf("backup: %v", err)
		}
		build("backup(%d entries)", len(tr))
	}
	if k := rapid.IntRange(0, 4).Draw(t, "synth"); k > 0 {
		var snaps []vSynthSnapC10
		for i := 0; i < k; i++ {
			sp := vSynthSnapC10{Tag: fmt.Sprintf("s%d", i), Root: rapid.SliceOfN(rapid.Uint64Range(1, 40), 1, 4).Draw(t, "synthRoot")}
			if rapid.IntRange(0, 2).Draw(t, "synthSub") == 0 {
				sp.Sub = rapid.SliceOfN(rapid.Uint64Range(1, 40), 1, 2).Draw(t, "synthSubSeeds")
			}
			snaps = append(snaps, sp)
		}
		if err := vSaveSynthC10(e, snaps); err != nil {
			t.Fatalf("synthetic snapshots: %v", err)
		}
		build("synth(%d snapshots)", k)
	}
	packLevel, idxLevel := 0, 0
	classes := []string{}
	if rapid.IntRange(0, 2).Draw(t, "crash") == 0 {
		tr := vGenTree(t, vTreeGen{MaxEntries: 6, ContentPool: 30})
		materialize(tr)
		n, err := vCrashBackupC10(e, src, func(n int) int { return rapid.IntRange(0, n-1).Draw(t, "crashCut") })
		if err != nil {
			t.Fatalf("backup (to be cut): %v", err)
		}
		if n > 0 {
			packLevel++
			classes = append(classes, "dmg:extrapack")
			dmg("extrapack(%d unindexed packs from a crashed backup)", n)
		}
	}

	// ---- damage ----
	h.ReadAll = rapid.Bool().Draw(t, "readAll")
	s := e.store
	flip := func(tp backend.FileType, name string, pos int, x byte) {
		raw, _ := s.Get(tp, name)
		nb := append([]byte(nil), raw...)
		nb[pos] ^= x
		s.Put(tp, name, nb)
	}
	pickName := func(label string, names []string) string {
		return names[rapid.IntRange(0, len(names)-1).Draw(t, label)]
	}
	decodable := func() (map[string]*vIdxJSONC10, []string) {
		_, per, _ := vIndexEntriesC10(s, key)
		return per, vSortedKeysC10(per)
	}
	// replaceIndex stores new versions of an index file and removes the old one
	replaceIndex := func(old string, files ...*vIdxJSONC10) {
		s.Del(backend.IndexFile, old)
		for _, ij := range files {
			if len(ij.Packs) > 0 {
				vPutIndexFileC10(s, key, ij, rapid.Uint64().Draw(t, "idxNonce"))
			}
		}
	}
	cloneIdx := func(ij *vIdxJSONC10) *vIdxJSONC10 {
		n := &vIdxJSONC10{}
		for _, p := range ij.Packs {
			n.Packs = append(n.Packs, vIdxPackJSONC10{ID: p.ID, Blobs: append([]vIdxBlobJSONC10(nil), p.Blobs...)})
		}
		return n
	}

	idxDamages := []string{"delidx", "corruptidx", "truncidx", "dupidx", "partialidx", "partialidx", "splitidx", "splitidx"}
	packDamages := []string{"delpack", "delpack", "truncpack", "truncpack", "bodycorrupt"}
	if h.ReadAll {
		idxDamages = append(idxDamages, "wrongidx", "wrongidx", "wrongidx")
		packDamages = append(packDamages, "hdrcorrupt", "hdrcorrupt")
	}
	apply := func(kind string) bool {
		switch kind {
		case "delidx", "corruptidx", "truncidx":
			names := s.Keys(backend.IndexFile)
			if len(names) == 0 {
				return false
			}
			name := pickName("idxFile", names)
			raw, _ := s.Get(backend.IndexFile, name)
			switch kind {
			case "delidx":
				s.Del(backend.IndexFile, name)
				dmg("delidx(%s)", name[:8])
			case "corruptidx":
				if len(raw) == 0 {
					return false
				}
				pos := rapid.IntRange(0, len(raw)-1).Draw(t, "flipPos")
				flip(backend.IndexFile, name, pos, byte(rapid.IntRange(1, 255).Draw(t, "flipXor")))
				dmg("corruptidx(%s @%d of %d)", name[:8], pos, len(raw))
			case "truncidx":
				if len(raw) == 0 {
					return false
				}
				n := rapid.OneOf(rapid.IntRange(0, min(40, len(raw)-1)), rapid.IntRange(0, len(raw)-1)).Draw(t, "truncTo")
				s.Put(backend.IndexFile, name, append([]byte(nil), raw[:n]...))
				dmg("truncidx(%s to %d of %d)", name[:8], n, len(raw))
			}
			return true
		case "dupidx":
			per, names := decodable()
			if len(names) == 0 {
				return false
			}
			name := pickName("idxFile", names)
			nn := vPutIndexFileC10(s, key, per[name], rapid.Uint64().Draw(t, "idxNonce"))
			dmg("dupidx(%s as %s)", name[:8], nn[:8])
			return true
		case "partialidx", "splitidx", "wrongidx":
			per, names := decodable()
			if len(names) == 0 {
				return false
			}
			name := pickName("idxFile", names)
			ij := cloneIdx(per[name])
			if len(ij.Packs) == 0 {
				return false
			}
			pi := rapid.IntRange(0, len(ij.Packs)-1).Draw(t, "idxPack")
			p := &ij.Packs[pi]
			nbl := len(p.Blobs)
			if nbl == 0 {
				return false
			}
			switch kind {
			case "partialidx":
				// drop a non-empty subset of the blobs of one pack
				var keep []vIdxBlobJSONC10
				dropped := 0
				forced := rapid.IntRange(0, nbl-1).Draw(t, "dropOne")
				for i, b := range p.Blobs {
					if i == forced || rapid.IntRange(0, 2).Draw(t, "drop") == 0 {
						dropped++
						continue
					}
					keep = append(keep, b)
				}
				pid := p.ID
				if len(keep) == 0 {
					ij.Packs = append(ij.Packs[:pi], ij.Packs[pi+1:]...)
				} else {
					p.Blobs = keep
				}
				replaceIndex(name, ij)
				dmg("partialidx(%s: pack %s loses %d of %d blobs)", name[:8], pid[:8], dropped, nbl)
			case "splitidx":
				if nbl < 2 {
					return false
				}
				cut := rapid.IntRange(1, nbl-1).Draw(t, "splitAt")
				perm := rapid.Permutation(vRange(nbl)).Draw(t, "splitPerm")
				var a, b []vIdxBlobJSONC10
				for i, j := range perm {
					if i < cut {
						a = append(a, p.Blobs[j])
					} else {
						b = append(b, p.Blobs[j])
					}
				}
				second := &vIdxJSONC10{Packs: []vIdxPackJSONC10{{ID: p.ID, Blobs: b}}}
				p.Blobs = a
				replaceIndex(name, ij, second)
				dmg("splitidx(%s: pack %s split %d+%d)", name[:8], p.ID[:8], len(a), len(b))
			case "wrongidx":
				bi := rapid.IntRange(0, nbl-1).Draw(t, "wrongBlob")
				b := &p.Blobs[bi]
				how := rapid.SampledFrom([]string{"newid", "swapid", "type", "offset", "ulen"}).Draw(t, "wrongHow")
				switch how {
				case "newid":
					b.ID = restic.Hash([]byte(fmt.Sprint("wrong", rapid.Uint64().Draw(t, "wrongID")))).String()
				case "swapid":
					if nbl < 2 {
						return false
					}
					o := &p.Blobs[(bi+1+rapid.IntRange(0, nbl-2).Draw(t, "swapWith"))%nbl]
					if o.ID == b.ID && o.Type == b.Type {
						return false
					}
					b.ID, o.ID = o.ID, b.ID
				case "type":
					if b.Type == "data" {
						b.Type = "tree"
					} else {
						b.Type = "data"
					}
				case "offset":
					b.Offset += uint(rapid.IntRange(1, 5000).Draw(t, "offDelta"))
				case "ulen":
					if b.ULen == 0 {
						return false
					}
					b.ULen += uint(rapid.IntRange(1, 100).Draw(t, "ulenDelta"))
				}
				replaceIndex(name, ij)
				dmg("wrongidx(%s: pack %s blob %d %s)", name[:8], p.ID[:8], bi, how)
			}
			return true
		case "delpack", "truncpack", "bodycorrupt", "hdrcorrupt":
			names := s.Keys(backend.PackFile)
			if len(names) == 0 {
				return false
			}
			name := pickName("packFile", names)
			raw, _ := s.Get(backend.PackFile, name)
			_, hl, perr := vParsePackC10(key, name, raw)
			switch kind {
			case "delpack":
				s.Del(backend.PackFile, name)
				dmg("delpack(%s)", name[:8])
			case "truncpack":
				if len(raw) == 0 {
					return false
				}
				gens := []*rapid.Generator[int]{rapid.IntRange(0, len(raw)-1), rapid.IntRange(0, min(3, len(raw)-1)), rapid.Just(len(raw) - 1)}
				if perr == nil && hl < len(raw) {
					gens = append(gens, rapid.IntRange(len(raw)-hl, len(raw)-1), rapid.IntRange(0, len(raw)-hl))
				}
				n := rapid.OneOf(gens...).Draw(t, "truncTo")
				s.Put(backend.PackFile, name, append([]byte(nil), raw[:n]...))
				dmg("truncpack(%s to %d of %d)", name[:8], n, len(raw))
			case "bodycorrupt":
				if perr != nil || len(raw)-hl <= 0 {
					return false
				}
				pos := rapid.IntRange(0, len(raw)-hl-1).Draw(t, "flipPos")
				flip(backend.PackFile, name, pos, byte(rapid.IntRange(1, 255).Draw(t, "flipXor")))
				dmg("bodycorrupt(%s @%d)", name[:8], pos)
			case "hdrcorrupt":
				if perr != nil {
					return false
				}
				pos := len(raw) - hl + rapid.IntRange(0, hl-1).Draw(t, "flipPos")
				flip(backend.PackFile, name, pos, byte(rapid.IntRange(1, 255).Draw(t, "flipXor")))
				dmg("hdrcorrupt(%s @%d of %d)", name[:8], pos, len(raw))
			}
			return true
		}
		return false
	}
	nIdx := rapid.IntRange(0, 3).Draw(t, "nIdxDamage")
	nPack := rapid.IntRange(0, 2).Draw(t, "nPackDamage")
	// interleave: order of damages is drawn
	var plan []string
	for i := 0; i < nIdx; i++ {
		plan = append(plan, "I")
	}
	for i := 0; i < nPack; i++ {
		plan = append(plan, "P")
	}
	if len(plan) > 1 {
		plan = rapid.Permutation(plan).Draw(t, "damageOrder")
	}
	for _, lv := range plan {
		if lv == "I" {
			k := rapid.SampledFrom(idxDamages).Draw(t, "idxDamage")
			if apply(k) {
				idxLevel++
				classes = append(classes, "dmg:"+k)
			}
		} else {
			k := rapid.SampledFrom(packDamages).Draw(t, "packDamage")
			if apply(k) {
				packLevel++
				classes = append(classes, "dmg:"+k)
			}
		}
	}

	// ---- expectation from the damaged state ----
	packsBefore := map[string][]byte{}
	othersBefore := map[string][]byte{}
	for k, v := range s.Files() {
		switch k.Type {
		case backend.PackFile:
			packsBefore[k.Name] = v
		case backend.IndexFile, backend.LockFile:
		default:
			othersBefore[k.String()] = v
		}
	}
	trueEnt, _, unreadable := vPackEntriesC10(s, key)
	var want []vEntC10
	for _, p := range vSortedKeysC10(trueEnt) {
		want = append(want, trueEnt[p]...)
	}
	vSortEntsC10(want)

	// Without --read-all-packs restic trusts index entries whose sizes add up to the size of
	// the pack file. States in which such a trusted listing is wrong can only be written by
	// restic itself (index files are authenticated); they are in the domain only together with
	// --read-all-packs, the documented way to distrust the index. Damage sequences can produce
	// them by accident (e.g. a duplicated listing that then loses a blob of the same length as
	// another one): detect that and switch the option on.
	readAll := h.ReadAll
	if !readAll {
		idxAll, _, _ := vIndexEntriesC10(s, key)
		byPackMulti := map[string][]vEntC10{}
		for _, en := range idxAll {
			byPackMulti[en.Pack] = append(byPackMulti[en.Pack], en)
		}
		for _, p := range vSortedKeysC10(byPackMulti) {
			raw, present := packsBefore[p]
			if !present {
				continue
			}
			multi := byPackMulti[p]
			set := vDedupEntsC33(multi)
			for _, cand := range [][]vEntC10{multi, set} {
				size := vHdrFixedC10
				for _, en := range cand {
					size += int(en.Len) + vHdrEntrySizeC10(en)
				}
				if size != len(raw) {
					continue
				}
				truth, readable := trueEnt[p]
				if !readable || vEntSetDiffC33(set, truth) != "" {
					readAll = true
					h.ForcedReadAll = fmt.Sprintf("index of pack %s is size-consistent but wrong", p[:8])
				}
			}
		}
	}

	// ---- the repair under observation ----
	g := e.gopts
	g.Quiet = false
	out, rerr := e.call(g, func(ctx context.Context, gopts global.Options) error {
		return runRebuildIndex(ctx, RepairIndexOptions{ReadAllPacks: readAll}, gopts, gopts.Term)
	})

	nt := packLevel >= 1 && idxLevel >= 1
	classes = append(classes, fmt.Sprintf("readall=%v", readAll), fmt.Sprintf("packlevel=%d", min(packLevel, 3)), fmt.Sprintf("idxlevel=%d", min(idxLevel, 3)),
		fmt.Sprintf("unreadable_packs=%v", len(unreadable) > 0), fmt.Sprintf("forced_readall=%v", h.ForcedReadAll != ""), "v"+h.Version)
	fail := func(f string, a ...any) {
		t.Fatalf("C33 violated: %s\nhistory %s\nrepair index output:\n%s%s", fmt.Sprintf(f, a...), vJSON(h), out.Stdout, out.Stderr)
	}
	defer func() {
		caseKey := ""
		if nt {
			caseKey = vJSON(h)
		}
		st.Case(caseKey, classes...)
		if st.WantSample() {
			st.Sample(map[string]any{"history": h, "packs": len(packsBefore), "unreadable_packs": len(unreadable), "expected_entries": len(want)})
		}
	}()
	if rerr != nil {
		fail("repair index failed: %v", rerr)
	}

	// no pack (and no snapshot, key, config) touched
	for k, v := range s.Files() {
		switch k.Type {
		case backend.PackFile:
			old, ok := packsBefore[k.Name]
			if !ok {
				fail("repair index created pack %s", k.Name[:8])
			}
			if !bytes.Equal(old, v) {
				fail("repair index changed pack %s", k.Name[:8])
			}
			delete(packsBefore, k.Name)
		case backend.IndexFile, backend.LockFile:
		default:
			if old, ok := othersBefore[k.String()]; !ok || !bytes.Equal(old, v) {
				fail("repair index changed %s", k)
			}
			delete(othersBefore, k.String())
		}
	}
	if len(packsBefore) > 0 {
		fail("repair index deleted packs %v", vSortedKeysC10(packsBefore))
	}
	if len(othersBefore) > 0 {
		fail("repair index deleted %v", vSortedKeysC10(othersBefore))
	}

	// every index file decodes, and together they list exactly the true entries
	got, _, bad := vIndexEntriesC10(s, key)
	if len(bad) > 0 {
		fail("undecodable index files remain: %v", bad)
	}
	gotSet := vDedupEntsC33(got)
	if d := vEntSetDiffC33(gotSet, want); d != "" {
		fail("index differs from the pack headers (first = index, second = headers of readable packs): %s", d)
	}
	classes = append(classes, fmt.Sprintf("listed_twice=%v", len(gotSet) != len(got)))
	if len(gotSet) != len(got) {
		st.Note("listed_twice_example", vJSON(h))
	}

	// restic's own loader sees the same index
	var loaded []vEntC10
	err = e.WithRepo(func(ctx context.Context, repo *repository.Repository) error {
		if err := repo.LoadIndex(ctx, restic.NoopTerminalCounterFactory); err != nil {
			return err
		}
		return repo.ListBlobs(ctx, func(pb restic.PackBlob) {
			b, ok := pb.(*pack.PackedBlob)
			if !ok {
				panic(fmt.Sprintf("unexpected PackBlob implementation %T", pb))
			}
			loaded = append(loaded, vEntC10{Pack: b.Pack.String(), Type: b.Blob.Type.String(), ID: b.Blob.ID.String(),
				Off: b.Blob.Offset, Len: b.Blob.Length, ULen: b.Blob.UncompressedLength})
		})
	})
	if err != nil {
		fail("index cannot be loaded after repair: %v", err)
	}
	vSortEntsC10(loaded)
	if d := vEntSetDiffC33(vDedupEntsC33(loaded), want); d != "" {
		fail("loaded index differs from the pack headers (first = loaded index, second = headers): %s", d)
	}
}

func vDedupEntsC33(es []vEntC10) []vEntC10 {
	seen := map[vEntC10]bool{}
	var out []vEntC10
	for _, en := range es {
		if !seen[en] {
			seen[en] = true
			out = append(out, en)
		}
	}
	vSortEntsC10(out)
	return out
}

// vEntSetDiffC33 compares two duplicate-free entry lists.
func vEntSetDiffC33(a, b []vEntC10) string {
	ma := map[vEntC10]bool{}
	for _, x := range a {
		ma[x] = true
	}
	var d []string
	for _, x := range b {
		if !ma[x] {
			d = append(d, "only in second: "+x.String())
		}
		delete(ma, x)
	}
	var rest []vEntC10
	for x := range ma {
		rest = append(rest, x)
	}
	vSortEntsC10(rest)
	for _, x := range rest {
		d = append(d, "only in first: "+x.String())
	}
	sort.Strings(d)
	if len(d) > 8 {
		d = append(d[:8], fmt.Sprintf("... %d more", len(d)-8))
	}
	return strings.Join(d, "; ")
}

var _ = vbe.NoFaults
var _ = context.Background
