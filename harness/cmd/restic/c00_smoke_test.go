package main

import (
	"testing"

	"github.com/restic/restic/internal/verifkit"
	"pgregory.net/rapid"
)

func TestVerifC00Smoke(t *testing.T) {
	vSetup(t)
	st := verifkit.Begin(t, "C00")
	rapid.Check(t, func(t *rapid.T) {
		vmem := rapid.Bool().Draw(t, "vmem")
		e, err := vNewEnv(vmem)
		if err != nil {
			t.Fatal(err)
		}
		defer e.Close()
		if err := e.Init(rapid.SampledFrom([]string{"1", "2"}).Draw(t, "ver")); err != nil {
			t.Fatal(err)
		}
		tr := vGenTree(t, vTreeGen{Symlinks: true})
		src := e.Scratch("src-")
		if err := tr.Materialize(src); err != nil {
			t.Fatal(err)
		}
		if err := e.Backup([]string{src}, BackupOptions{}); err != nil {
			t.Fatal(err)
		}
		ids, err := e.SnapshotIDs()
		if err != nil || len(ids) != 1 {
			t.Fatalf("snapshots %v err %v", ids, err)
		}
		d, err := e.RestoreEq(ids[0], src, tr)
		if err != nil || d != "" {
			t.Fatalf("restore diff %q err %v", d, err)
		}
		if out, err := e.Check(true); err != nil {
			t.Fatalf("check: %v\n%s\n%s", err, out.Stdout, out.Stderr)
		}
		st.Case(tr.String(), "ok")
	})
}
