package main

// Property C49 (cmd/restic part): forget policy counts, check --read-data-subset values
// and prune size/percentage options are either rejected or parsed to exactly the value
// they denote; nothing panics.
//
// References (math/big), from doc/060_forget.rst ("--keep-* n ... 'unlimited'"),
// doc/045_working_with_repos.rst (--read-data-subset=n/t with 1<=n<=t, x% "above 0.0% and
// at most 100.0%", nS with S in K/M/G/T) and the prune help ("--max-unused: allowed
// percentage/size of unused data, or 'unlimited'").

import (
	"errors"
	"fmt"
	"math"
	"math/big"
	"strings"
	"testing"

	"github.com/restic/restic/internal/restic"
	"github.com/restic/restic/internal/verifkit"
	"pgregory.net/rapid"
)

// regression probes: "not a number" percentages used to pass both range comparisons
// (repaired by "fix: reject NaN percentages for check --read-data-subset and prune --max-unused")
var nanPercentC49 = []string{"NaN%", "nan%", "NAN%", "nAn%"}

func regressionNaNC49(t *testing.T) {
	for _, s := range nanPercentC49 {
		if err := checkFlags(CheckOptions{ReadDataSubset: s}); err == nil {
			verifkit.SaveReplay("C49", "nan-percent", map[string]string{"read-data-subset": s})
			t.Fatalf("regression: checkFlags accepts --read-data-subset=%s", s)
		}
		o := PruneOptions{MaxUnused: s}
		if err := verifyPruneOptions(&o); err == nil {
			verifkit.SaveReplay("C49", "nan-percent", map[string]string{"max-unused": s})
			t.Fatalf("regression: verifyPruneOptions accepts --max-unused %s (allows %d unused bytes per MiB used)", s, o.maxUnusedBytes(1<<20))
		}
	}
}

// ---- shared generators ----

func genDigitsC49(t *rapid.T) string {
	switch rapid.IntRange(0, 9).Draw(t, "numKind") {
	case 0, 1, 2, 3:
		return fmt.Sprint(rapid.IntRange(0, 300).Draw(t, "small"))
	case 4, 5, 6:
		k := rapid.SampledFrom([]uint{8, 16, 31, 32, 53, 63, 64, 65, 128}).Draw(t, "pow")
		n := new(big.Int).Lsh(big.NewInt(1), k)
		n.Add(n, big.NewInt(int64(rapid.IntRange(-2, 2).Draw(t, "delta"))))
		return n.String()
	case 7:
		return strings.Repeat("0", rapid.IntRange(1, 25).Draw(t, "lead0")) + fmt.Sprint(rapid.IntRange(0, 300).Draw(t, "after0"))
	case 8:
		return strings.Repeat("9", rapid.IntRange(1, 42).Draw(t, "nines"))
	default:
		return rapid.StringMatching(`[0-9]{1,40}`).Draw(t, "digits")
	}
}

var junkNumC49 = []string{"", " ", "-", "+", "٣", "１", "²", "1 0", "0x10", "1_0", "1e2", "1.0", "abc", "--1", "+-1", "−1", "1\x00"}

func allDigitsC49(s string) bool {
	if s == "" {
		return false
	}
	for i := 0; i < len(s); i++ {
		if s[i] < '0' || s[i] > '9' {
			return false
		}
	}
	return true
}

// ---- forget policy counts ----

func TestVerifC49ForgetCount(t *testing.T) {
	st := verifkit.Begin(t, "C49")
	maxI := big.NewInt(math.MaxInt64)
	rapid.Check(t, func(t *rapid.T) {
		var s string
		switch rapid.IntRange(0, 9).Draw(t, "kind") {
		case 0:
			s = rapid.SampledFrom([]string{"unlimited", "Unlimited", "unlimited ", " unlimited", "UNLIMITED", "unlimite", "-1", "-0", "+0", "-2", "inf", "all"}).Draw(t, "word")
		case 1:
			s = rapid.SampledFrom(junkNumC49).Draw(t, "junk")
		default:
			s = rapid.SampledFrom([]string{"", "", "", "-", "+", " "}).Draw(t, "sign") + genDigitsC49(t) +
				rapid.SampledFrom([]string{"", "", "", "", " ", "k"}).Draw(t, "tail")
		}
		var c ForgetPolicyCount = 12345
		err := c.Set(s)

		// reference
		body := s
		neg := false
		if body != "" && (body[0] == '+' || body[0] == '-') {
			neg = body[0] == '-'
			body = body[1:]
		}
		class, key := "", ""
		switch {
		case s == "unlimited":
			class, key = "count:unlimited", "count|"+s
			if err != nil || c != -1 {
				t.Fatalf("Set(%q) = %d, %v; want -1", s, c, err)
			}
		case !allDigitsC49(body):
			class = "count:reject-syntax"
			if err == nil {
				t.Fatalf("Set(%q) accepted a malformed count as %d", s, c)
			}
		default:
			n, _ := new(big.Int).SetString(body, 10)
			if neg {
				n.Neg(n)
			}
			switch {
			case n.Sign() < 0:
				class, key = "count:reject-negative", "count|"+s
				if err == nil {
					t.Fatalf("Set(%q) accepted a negative count as %d", s, c)
				}
				if n.Cmp(big.NewInt(-math.MaxInt64)) >= 0 && !errors.Is(err, ErrNegativePolicyCount) {
					t.Fatalf("Set(%q): error %v, want ErrNegativePolicyCount", s, err)
				}
			case n.Cmp(maxI) > 0:
				class, key = "count:reject-range", "count|"+s
				if err == nil {
					t.Fatalf("Set(%q) accepted a count beyond the int range as %d", s, c)
				}
			default:
				class, key = "count:accept", "count|"+s
				if err != nil || big.NewInt(int64(c)).Cmp(n) != 0 {
					t.Fatalf("Set(%q) = %d, %v; denoted value %v", s, c, err, n)
				}
			}
		}
		if err != nil && c != 12345 {
			t.Fatalf("Set(%q) failed with %v but changed the value to %d", s, err, c)
		}
		if err == nil {
			// prints back in a form that parses to the same value
			var back ForgetPolicyCount
			if berr := back.Set(c.String()); berr != nil || back != c {
				t.Fatalf("Set(%q) = %d; String() = %q parses to %d, %v", s, c, c.String(), back, berr)
			}
			// a value accepted here is accepted by the option verification too
			if verr := verifyForgetOptions(&ForgetOptions{Last: c, Yearly: c}); verr != nil {
				t.Fatalf("Set(%q) = %d is rejected by verifyForgetOptions: %v", s, c, verr)
			}
		}
		st.Case(key, class)
		if st.WantSample() {
			st.Sample(map[string]any{"input": s, "count": int(c), "err": fmt.Sprint(err)})
		}
	})
}

// ---- check --read-data-subset ----

// refDecimalC49 parses [sign] DIGITS [ "." DIGITS ] [ e [sign] DIGITS ] exactly.
func refDecimalC49(s string) (bool, *big.Rat) {
	i := 0
	if i < len(s) && (s[i] == '+' || s[i] == '-') {
		i++
	}
	d0 := i
	for i < len(s) && s[i] >= '0' && s[i] <= '9' {
		i++
	}
	nd := i - d0
	if i < len(s) && s[i] == '.' {
		i++
		f0 := i
		for i < len(s) && s[i] >= '0' && s[i] <= '9' {
			i++
		}
		nd += i - f0
	}
	if nd == 0 {
		return false, nil
	}
	if i < len(s) && (s[i] == 'e' || s[i] == 'E') {
		i++
		if i < len(s) && (s[i] == '+' || s[i] == '-') {
			i++
		}
		e0 := i
		for i < len(s) && s[i] >= '0' && s[i] <= '9' {
			i++
		}
		if i == e0 || i-e0 > 4 {
			return false, nil // (huge exponents are not generated)
		}
	}
	if i != len(s) {
		return false, nil
	}
	r, ok := new(big.Rat).SetString(s)
	return ok, r
}

type subsetRefC49 struct {
	form     string // "bucket", "percent", "size", "junk"
	accept   bool   // must be accepted
	reject   bool   // must be rejected
	n, total uint64
	pct      *big.Rat
	size     *big.Int
}

func refSubsetC49(s string) subsetRefC49 {
	if parts := strings.Split(s, "/"); len(parts) >= 2 || allDigitsC49(s) {
		r := subsetRefC49{form: "bucket", reject: true}
		if len(parts) != 2 || !allDigitsC49(parts[0]) || !allDigitsC49(parts[1]) {
			return r
		}
		n, _ := new(big.Int).SetString(parts[0], 10)
		tot, _ := new(big.Int).SetString(parts[1], 10)
		if n.Sign() > 0 && n.Cmp(tot) <= 0 && tot.Cmp(big.NewInt(256)) <= 0 {
			return subsetRefC49{form: "bucket", accept: true, n: n.Uint64(), total: tot.Uint64()}
		}
		return r
	}
	if strings.HasSuffix(s, "%") {
		ok, v := refDecimalC49(strings.TrimSuffix(s, "%"))
		if !ok {
			return subsetRefC49{form: "percent"} // other float syntaxes: only the range rule is checked
		}
		// the percentage is a floating point number: the range rule applies to the
		// nearest float64 of the denoted value
		r := subsetRefC49{form: "percent", pct: v}
		if f, _ := v.Float64(); f > 0 && f <= 100 {
			r.accept = true
		} else {
			r.reject = true
		}
		return r
	}
	// size: [sign] DIGITS [unit]
	body := s
	shift := uint(0)
	if body != "" {
		switch body[len(body)-1] {
		case 'b', 'B':
			body = body[:len(body)-1]
		case 'k', 'K':
			shift, body = 10, body[:len(body)-1]
		case 'm', 'M':
			shift, body = 20, body[:len(body)-1]
		case 'g', 'G':
			shift, body = 30, body[:len(body)-1]
		case 't', 'T':
			shift, body = 40, body[:len(body)-1]
		}
	}
	neg := false
	if body != "" && (body[0] == '+' || body[0] == '-') {
		neg = body[0] == '-'
		body = body[1:]
	}
	if !allDigitsC49(body) {
		return subsetRefC49{form: "junk", reject: true}
	}
	n, _ := new(big.Int).SetString(body, 10)
	n.Lsh(n, shift)
	if neg {
		n.Neg(n)
	}
	r := subsetRefC49{form: "size", size: n}
	if n.Sign() <= 0 || n.Cmp(big.NewInt(math.MaxInt64)) > 0 {
		r.reject = true
	} else {
		r.accept = true
	}
	return r
}

func genSubsetC49(t *rapid.T) string {
	switch rapid.IntRange(0, 11).Draw(t, "form") {
	case 0, 1, 2:
		// n/t around the limits
		tot := rapid.OneOf(rapid.IntRange(0, 260), rapid.SampledFrom([]int{1, 2, 255, 256, 257, 65536})).Draw(t, "t")
		n := rapid.OneOf(rapid.IntRange(0, 260), rapid.SampledFrom([]int{0, 1, tot - 1, tot, tot + 1})).Draw(t, "n")
		if n < 0 {
			n = 0
		}
		return fmt.Sprintf("%d/%d", n, tot)
	case 3:
		return rapid.SampledFrom([]string{"", "", "+", "-", " "}).Draw(t, "s1") + genDigitsC49(t) + "/" +
			rapid.SampledFrom([]string{"", "", "+", "-"}).Draw(t, "s2") + genDigitsC49(t) + rapid.SampledFrom([]string{"", "", "/3", "/", "%", " "}).Draw(t, "tail")
	case 4, 5, 6:
		// percentages
		switch rapid.IntRange(0, 5).Draw(t, "pkind") {
		case 0:
			return fmt.Sprintf("%d%%", rapid.IntRange(-2, 103).Draw(t, "ipct"))
		case 1:
			return fmt.Sprintf("%d.%s%%", rapid.IntRange(0, 101).Draw(t, "ip"), rapid.StringMatching(`[0-9]{0,12}`).Draw(t, "frac"))
		case 2:
			return rapid.SampledFrom([]string{"NaN%", "nan%", "+NaN%", "Inf%", "+Inf%", "-Inf%", "inf%", "infinity%", "1e2%", "1e3%", "1e-3%", "1e-400%", "1e400%", "0x1p4%", "0x1p-2%", "1_0%", "0x_1p1%",
				"100.0000000000000001%", "100.00000000000001%", "0%", "-0%", "0.0%", "+5%", "-5%", ".5%", "5.%", "%", "%%", "5%%", " 5%", "5 %", "٣%", "５%", "1/2%", "5％"}).Draw(t, "special")
		case 3:
			return rapid.SampledFrom([]string{"", "+", "-"}).Draw(t, "sg") + genDigitsC49(t) + "%"
		case 4:
			return fmt.Sprintf("0.%s%d%%", strings.Repeat("0", rapid.IntRange(0, 30).Draw(t, "zeros")), rapid.IntRange(0, 9).Draw(t, "last"))
		default:
			return fmt.Sprintf("%de%d%%", rapid.IntRange(0, 120).Draw(t, "mant"), rapid.IntRange(-5, 3).Draw(t, "exp"))
		}
	case 7, 8, 9:
		return rapid.SampledFrom([]string{"", "", "", "+", "-"}).Draw(t, "sg") + genDigitsC49(t) +
			rapid.SampledFrom([]string{"", "b", "B", "k", "K", "m", "M", "g", "G", "t", "T", "P", "KB", " M"}).Draw(t, "unit")
	default:
		return rapid.SampledFrom(junkNumC49).Draw(t, "junk")
	}
}

func TestVerifC49CheckFlags(t *testing.T) {
	st := verifkit.Begin(t, "C49")
	regressionNaNC49(t)
	rapid.Check(t, func(t *rapid.T) {
		s := genSubsetC49(t)
		readData := rapid.SampledFrom([]int{0, 1, 1, 1, 1, 1, 1, 1, 1, 1, 1, 1, 1, 1, 1, 1, 1, 1, 1, 1}).Draw(t, "readData") == 0
		err := checkFlags(CheckOptions{ReadData: readData, ReadDataSubset: s})
		ref := refSubsetC49(s)
		class, key := "subset:"+ref.form, ""

		if s == "" {
			if err != nil {
				t.Fatalf("checkFlags with an empty subset: %v", err)
			}
			st.Case("", "subset:empty")
			return
		}
		if readData {
			if err == nil {
				t.Fatalf("checkFlags accepted --read-data together with --read-data-subset=%q", s)
			}
			st.Case("", "subset:with-read-data")
			return
		}

		switch {
		case ref.reject:
			class += "-reject"
			if ref.form != "junk" {
				key = "subset|" + s
			}
			if err == nil {
				t.Fatalf("checkFlags accepted --read-data-subset=%q (%s form outside the documented range)", s, ref.form)
			}
		case ref.accept:
			class += "-accept"
			key = "subset|" + s
			if err != nil {
				t.Fatalf("checkFlags rejected the valid --read-data-subset=%q: %v", s, err)
			}
		default:
			class += "-unspecified"
		}

		if err == nil {
			// an accepted value must denote a subset in the documented range, and the
			// parsers used afterwards must return exactly that value
			switch {
			case strings.HasSuffix(s, "%"):
				p, perr := parsePercentage(s)
				if perr != nil {
					t.Fatalf("checkFlags accepted %q but parsePercentage fails: %v", s, perr)
				}
				if !(p > 0 && p <= 100) {
					t.Fatalf("checkFlags accepted --read-data-subset=%q, which is the percentage %v (not above 0 and at most 100)", s, p)
				}
				if ref.pct != nil {
					if want, _ := ref.pct.Float64(); want != p {
						t.Fatalf("parsePercentage(%q) = %v, denoted value %v", s, p, want)
					}
				}
			case ref.form == "bucket":
				sl, serr := stringToIntSlice(s)
				if serr != nil || len(sl) != 2 || uint64(sl[0]) != ref.n || uint64(sl[1]) != ref.total {
					t.Fatalf("stringToIntSlice(%q) = %v, %v; want [%d %d]", s, sl, serr, ref.n, ref.total)
				}
			default:
				if ref.size == nil || ref.size.Sign() <= 0 {
					t.Fatalf("checkFlags accepted --read-data-subset=%q which denotes no positive size", s)
				}
			}
			// the filter that runCheck builds from an accepted value exists and works
			f, ferr := buildPacksFilter(CheckOptions{ReadDataSubset: s}, restic.NewNoopPrinter(), false)
			if ferr != nil || f == nil {
				t.Fatalf("buildPacksFilter(%q) after checkFlags accepted it: %v", s, ferr)
			}
		}

		// the slice parser on its own
		if sl, serr := stringToIntSlice(s); serr == nil {
			parts := strings.Split(s, "/")
			if len(sl) != len(parts) {
				t.Fatalf("stringToIntSlice(%q) = %v", s, sl)
			}
			for i, p := range parts {
				n, ok := new(big.Int).SetString(p, 10)
				if !allDigitsC49(p) || !ok || !n.IsUint64() || n.Uint64() != uint64(sl[i]) {
					t.Fatalf("stringToIntSlice(%q)[%d] = %d, but %q does not denote it", s, i, sl[i], p)
				}
			}
		}
		st.Case(key, class)
		if st.WantSample() {
			st.Sample(map[string]any{"subset": s, "err": fmt.Sprint(err)})
		}
	})
}

// ---- prune --max-unused / --max-repack-size / --repack-smaller-than ----

func TestVerifC49PruneOptions(t *testing.T) {
	st := verifkit.Begin(t, "C49")
	rapid.Check(t, func(t *rapid.T) {
		var mu string
		switch rapid.IntRange(0, 9).Draw(t, "form") {
		case 0:
			mu = rapid.SampledFrom([]string{"unlimited", " unlimited ", "Unlimited", "", " ", "5%", "0%", "100%", "99.999%", "-1%", "NaN%", "nan%", "Inf%", "-0%", "1e1%", "1e2%", "%"}).Draw(t, "fixed")
		case 1, 2, 3, 4:
			mu = genSubsetC49(t)
			if !strings.HasSuffix(mu, "%") {
				mu = fmt.Sprintf("%d.%s%%", rapid.IntRange(0, 101).Draw(t, "ip"), rapid.StringMatching(`[0-9]{0,6}`).Draw(t, "frac"))
			}
		default:
			mu = rapid.SampledFrom([]string{"", "", "", "+", "-", " "}).Draw(t, "sg") + genDigitsC49(t) +
				rapid.SampledFrom([]string{"", "b", "K", "m", "G", "t", "P", " "}).Draw(t, "unit")
		}
		opts := PruneOptions{MaxUnused: mu}
		err := verifyPruneOptions(&opts)

		trimmed := strings.TrimSpace(mu)
		class, key := "", ""
		switch {
		case trimmed == "":
			class = "prune:reject-empty"
			if err == nil {
				t.Fatalf("verifyPruneOptions accepted an empty --max-unused %q", mu)
			}
		case trimmed == "unlimited":
			class, key = "prune:unlimited", "prune|"+mu
			if err != nil || opts.maxUnusedBytes(12345) != math.MaxUint64 {
				t.Fatalf("--max-unused %q: %v", mu, err)
			}
		case strings.HasSuffix(trimmed, "%"):
			ok, v := refDecimalC49(strings.TrimSuffix(trimmed, "%"))
			switch {
			case ok && (v.Sign() < 0 || func() bool { f, _ := v.Float64(); return f >= 100 }()):
				class, key = "prune:pct-reject-range", "prune|"+mu
				if err == nil {
					t.Fatalf("verifyPruneOptions accepted --max-unused %q (must be >= 0 and below 100)", mu)
				}
			case ok:
				class, key = "prune:pct-accept", "prune|"+mu
				if err != nil {
					t.Fatalf("verifyPruneOptions rejected the valid --max-unused %q: %v", mu, err)
				}
				// unused <= p/(100-p) * used, within float64 precision
				used := uint64(rapid.OneOf(rapid.Uint64Range(0, 1<<20), rapid.Uint64Range(0, 1<<50)).Draw(t, "used"))
				got := opts.maxUnusedBytes(used)
				want := new(big.Rat).Mul(new(big.Rat).Quo(v, new(big.Rat).Sub(big.NewRat(100, 1), v)), new(big.Rat).SetUint64(used))
				gotR := new(big.Rat).SetUint64(got)
				diff := new(big.Rat).Sub(gotR, want)
				tol := new(big.Rat).Add(big.NewRat(1, 1), new(big.Rat).Mul(want, big.NewRat(1, 1_000_000_000)))
				if want.Cmp(new(big.Rat).SetUint64(1<<62)) < 0 && diff.Abs(diff).Cmp(tol) > 0 {
					t.Fatalf("--max-unused %q with %d used bytes allows %d unused bytes, denoted %s", mu, used, got, want.FloatString(1))
				}
			default:
				class = "prune:pct-other-syntax"
				if err == nil {
					// whatever float syntax was accepted: the value must be in range
					probe := opts.maxUnusedBytes(1 << 20)
					if strings.Contains(strings.ToLower(trimmed), "nan") {
						t.Fatalf("verifyPruneOptions accepted --max-unused %q (not a number); it allows %d unused bytes per MiB used", mu, probe)
					}
				}
			}
		default:
			okSyntax, want := refBytesC49(trimmed)
			switch {
			case !okSyntax:
				class = "prune:size-reject-syntax"
				if err == nil {
					t.Fatalf("verifyPruneOptions accepted the malformed --max-unused %q", mu)
				}
			case want.Sign() < 0 || want.Cmp(big.NewInt(math.MaxInt64)) > 0:
				class, key = "prune:size-reject-range", "prune|"+mu
				if err == nil {
					t.Fatalf("verifyPruneOptions accepted --max-unused %q = %v bytes", mu, want)
				}
			default:
				class, key = "prune:size-accept", "prune|"+mu
				if err != nil || new(big.Int).SetUint64(opts.maxUnusedBytes(777)).Cmp(want) != 0 {
					t.Fatalf("--max-unused %q: %v; denoted %v bytes", mu, err, want)
				}
			}
		}

		// --max-repack-size and --repack-smaller-than take plain sizes
		sz := rapid.SampledFrom([]string{"", "", "+", "-"}).Draw(t, "szSign") + genDigitsC49(t) + rapid.SampledFrom([]string{"", "k", "M", "g", "T", "x"}).Draw(t, "szUnit")
		okSyntax, want := refBytesC49(sz)
		inRange := okSyntax && want.Sign() >= 0 && want.Cmp(big.NewInt(math.MaxInt64)) <= 0
		o2 := PruneOptions{MaxUnused: "5%", MaxRepackSize: sz}
		e2 := verifyPruneOptions(&o2)
		if inRange != (e2 == nil) || (e2 == nil && new(big.Int).SetUint64(o2.MaxRepackBytes).Cmp(want) != 0) {
			t.Fatalf("--max-repack-size %q: MaxRepackBytes=%d err=%v; reference ok=%v value=%v", sz, o2.MaxRepackBytes, e2, inRange, want)
		}
		o3 := PruneOptions{MaxUnused: "5%", SmallPackSize: sz}
		e3 := verifyPruneOptions(&o3)
		pos := inRange && want.Sign() > 0
		if pos != (e3 == nil) || (e3 == nil && new(big.Int).SetUint64(o3.SmallPackBytes).Cmp(want) != 0) {
			t.Fatalf("--repack-smaller-than %q: SmallPackBytes=%d err=%v; reference ok=%v value=%v", sz, o3.SmallPackBytes, e3, pos, want)
		}
		st.Case(key, class)
		if st.WantSample() {
			st.Sample(map[string]any{"max-unused": mu, "err": fmt.Sprint(err)})
		}
	})
}

func refBytesC49(s string) (bool, *big.Int) {
	r := refSubsetSizeC49(s)
	return r != nil, r
}

// refSubsetSizeC49: [sign] DIGITS [unit] -> bytes, nil if malformed.
func refSubsetSizeC49(s string) *big.Int {
	shift := uint(0)
	if s != "" {
		switch s[len(s)-1] {
		case 'b', 'B':
			s = s[:len(s)-1]
		case 'k', 'K':
			shift, s = 10, s[:len(s)-1]
		case 'm', 'M':
			shift, s = 20, s[:len(s)-1]
		case 'g', 'G':
			shift, s = 30, s[:len(s)-1]
		case 't', 'T':
			shift, s = 40, s[:len(s)-1]
		}
	}
	neg := false
	if s != "" && (s[0] == '+' || s[0] == '-') {
		neg = s[0] == '-'
		s = s[1:]
	}
	if !allDigitsC49(s) {
		return nil
	}
	n, _ := new(big.Int).SetString(s, 10)
	n.Lsh(n, shift)
	if neg {
		n.Neg(n)
	}
	return n
}
