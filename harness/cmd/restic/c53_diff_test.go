package main

// C53: diff reports exactly the paths that differ between two snapshots.
//
// A generated tree is backed up, edited IN PLACE by a generated edit script (so that
// untouched subtrees keep bit-identical nodes and tree IDs) and backed up again.
// `runDiff` (JSON mode) is compared with a private diff of the two STORED trees
// (walked with a private recursive loader).

import (
	"context"
	"encoding/json"
	"fmt"
	"os"
	"path"
	"path/filepath"
	"sort"
	"strings"
	"syscall"
	"testing"

	"github.com/restic/restic/internal/data"
	"github.com/restic/restic/internal/global"
	"github.com/restic/restic/internal/repository"
	"github.com/restic/restic/internal/restic"
	"github.com/restic/restic/internal/verifkit"
	"pgregory.net/rapid"
)

const vKnownC53 = "C53:dir-file-type-change-hides-descendants"

// names with prefix relations: a directory D next to a sibling whose name is D followed by
// a byte that sorts before '/' (space + - .) is where "order of names" and "order of
// paths" disagree
var vNamesC53 = []string{"a", "a.b", "b", "foo", "foo.tar", "foo-old", "foo bar", "foo+", "sub", "über"}

var vPrefixOfC53 = map[string]string{"a.b": "a", "foo.tar": "foo", "foo-old": "foo", "foo bar": "foo", "foo+": "foo"}

// ---------------------------------------------------------------------------
// stored trees

type vStoredC53 struct {
	Nodes     map[string]*data.Node // path relative to the diff root, "/a/b"
	Data      map[restic.ID]uint    // data blobs referenced -> size
	Trees     map[restic.ID]uint    // tree blobs referenced (incl. the root) -> size
	Root      restic.ID
	SubtreeOf map[string]restic.ID
}

func vWalkC53(ctx context.Context, repo *repository.Repository, id restic.ID, prefix string, out *vStoredC53) error {
	sz, ok := repo.LookupBlobSize(restic.BlobHandle{Type: restic.TreeBlob, ID: id})
	if !ok {
		return fmt.Errorf("tree %v not in the index", id)
	}
	out.Trees[id] = sz
	tree, err := data.LoadTree(ctx, repo, id)
	if err != nil {
		return err
	}
	for item := range tree {
		if item.Error != nil {
			return item.Error
		}
		n := item.Node
		p := path.Join(prefix, n.Name)
		if _, dup := out.Nodes[p]; dup {
			return fmt.Errorf("duplicate entry %q", p)
		}
		out.Nodes[p] = n
		switch n.Type {
		case data.NodeTypeFile:
			for _, c := range n.Content {
				sz, ok := repo.LookupBlobSize(restic.BlobHandle{Type: restic.DataBlob, ID: c})
				if !ok {
					return fmt.Errorf("blob %v not in the index", c)
				}
				out.Data[c] = sz
			}
		case data.NodeTypeDir:
			if n.Subtree == nil {
				return fmt.Errorf("dir %q without subtree", p)
			}
			out.SubtreeOf[p] = *n.Subtree
			if err := vWalkC53(ctx, repo, *n.Subtree, p, out); err != nil {
				return err
			}
		}
	}
	return nil
}

// vLoadStoredC53 walks the tree of snapshot id below subfolder ("" = whole snapshot).
func vLoadStoredC53(e *vEnv, id, subfolder string) (*vStoredC53, error) {
	s := &vStoredC53{Nodes: map[string]*data.Node{}, Data: map[restic.ID]uint{}, Trees: map[restic.ID]uint{}, SubtreeOf: map[string]restic.ID{}}
	err := e.WithRepo(func(ctx context.Context, repo *repository.Repository) error {
		rid, err := restic.ParseID(id)
		if err != nil {
			return err
		}
		sn, err := data.LoadSnapshot(ctx, repo, rid)
		if err != nil {
			return err
		}
		if err := repo.LoadIndex(ctx, restic.NoopTerminalCounterFactory); err != nil {
			return err
		}
		root := *sn.Tree
		// descend to the subfolder by hand
		_, comps := vSplitC53(subfolder)
		for _, c := range comps {
			tree, err := data.LoadTree(ctx, repo, root)
			if err != nil {
				return err
			}
			found := false
			for item := range tree {
				if item.Error != nil {
					return item.Error
				}
				if item.Node.Name == c && item.Node.Type == data.NodeTypeDir && !found {
					root = *item.Node.Subtree
					found = true
				}
			}
			if !found {
				return fmt.Errorf("subfolder component %q not found", c)
			}
		}
		s.Root = root
		return vWalkC53(ctx, repo, root, "/", s)
	})
	return s, err
}

func vSplitC53(s string) (anchored bool, comps []string) {
	anchored = strings.HasPrefix(s, "/")
	for _, c := range strings.Split(s, "/") {
		if c != "" {
			comps = append(comps, c)
		}
	}
	return
}

// ---------------------------------------------------------------------------
// reference diff

// vMetaJSONC53 renders every stored field of a node except content and subtree.
func vMetaJSONC53(n *data.Node) string {
	c := *n
	c.Content = nil
	c.Subtree = nil
	b, _ := json.Marshal(c)
	return string(b)
}

func vNodeJSONC53(n *data.Node) string {
	b, _ := json.Marshal(*n)
	return string(b)
}

func vSameContentC53(a, b *data.Node) bool {
	if len(a.Content) != len(b.Content) {
		return false
	}
	for i := range a.Content {
		if a.Content[i] != b.Content[i] {
			return false
		}
	}
	return true
}

// vExpectC53 is what the statement demands for one path.
type vExpectC53 struct {
	Main      string // "+", "-", or a combination of "T" and "M" ("" = no structural/content change)
	UAllowed  bool   // with --metadata: the two nodes differ somewhere
	URequired bool   // with --metadata: same type, same content, other metadata differs
	Dir       bool   // printed with a trailing slash
}

func vRefDiffC53(a, b *vStoredC53) map[string]vExpectC53 {
	out := map[string]vExpectC53{}
	for p, n1 := range a.Nodes {
		n2, ok := b.Nodes[p]
		if !ok {
			out[p] = vExpectC53{Main: "-", Dir: n1.Type == data.NodeTypeDir}
			continue
		}
		x := vExpectC53{Dir: n2.Type == data.NodeTypeDir}
		if n1.Type != n2.Type {
			x.Main += "T"
		}
		contentDiffers := n1.Type == data.NodeTypeFile && n2.Type == data.NodeTypeFile && !vSameContentC53(n1, n2)
		if contentDiffers {
			x.Main += "M"
			if vMetaJSONC53(n1) == vMetaJSONC53(n2) {
				x.Main += "?" // documented: content changed, all metadata the same
			}
		} else {
			x.UAllowed = vNodeJSONC53(n1) != vNodeJSONC53(n2)
			x.URequired = n1.Type == n2.Type && vMetaJSONC53(n1) != vMetaJSONC53(n2)
		}
		out[p] = x
	}
	for p, n2 := range b.Nodes {
		if _, ok := a.Nodes[p]; !ok {
			out[p] = vExpectC53{Main: "+", Dir: n2.Type == data.NodeTypeDir}
		}
	}
	return out
}

// ---------------------------------------------------------------------------
// running diff

type vDiffOutC53 struct {
	Lines map[string]string // path without trailing slash -> modifier
	Slash map[string]bool
	Stats struct {
		ChangedFiles int      `json:"changed_files"`
		Added        DiffStat `json:"added"`
		Removed      DiffStat `json:"removed"`
		Source       string   `json:"source_snapshot"`
		Target       string   `json:"target_snapshot"`
	}
	Raw string
}

func vRunDiffC53(e *vEnv, from, to string, metadata bool) (*vDiffOutC53, error) {
	g := e.gopts
	g.JSON = true
	g.Quiet = false
	out, err := e.call(g, func(ctx context.Context, gopts global.Options) error {
		return runDiff(ctx, DiffOptions{ShowMetadata: metadata}, gopts, []string{from, to}, gopts.Term)
	})
	if err != nil {
		return nil, fmt.Errorf("diff: %v\n%s%s", err, out.Stdout, out.Stderr)
	}
	if strings.TrimSpace(out.Stderr) != "" {
		return nil, fmt.Errorf("diff wrote to stderr: %s", out.Stderr)
	}
	r := &vDiffOutC53{Lines: map[string]string{}, Slash: map[string]bool{}, Raw: out.Stdout}
	nstats := 0
	for _, line := range strings.Split(strings.TrimSpace(out.Stdout), "\n") {
		if line == "" {
			continue
		}
		var m struct {
			MessageType string `json:"message_type"`
			Path        string `json:"path"`
			Modifier    string `json:"modifier"`
		}
		if err := json.Unmarshal([]byte(line), &m); err != nil {
			return nil, fmt.Errorf("unparseable output line %q", line)
		}
		switch m.MessageType {
		case "change":
			if nstats > 0 {
				return nil, fmt.Errorf("change line after the statistics: %q", line)
			}
			p := m.Path
			slash := strings.HasSuffix(p, "/") && p != "/"
			p = strings.TrimSuffix(p, "/")
			if old, dup := r.Lines[p]; dup {
				return nil, fmt.Errorf("path %q reported twice (%q and %q)", p, old, m.Modifier)
			}
			r.Lines[p] = m.Modifier
			r.Slash[p] = slash
		case "statistics":
			nstats++
			if err := json.Unmarshal([]byte(line), &r.Stats); err != nil {
				return nil, err
			}
		default:
			return nil, fmt.Errorf("unknown message %q", line)
		}
	}
	if nstats != 1 {
		return nil, fmt.Errorf("%d statistics messages", nstats)
	}
	return r, nil
}

// vCompareC53 compares the output with the reference. It returns a description of the
// deviation ("" = none) and whether the deviation has exactly the shape of the finding
// C53:dir-file-type-change-hides-descendants (repaired in /repo by 7bdcd56e8, listed as
// "fixed", so st.Known is false for it and the shape fails like any other deviation):
// every missing line is a strict descendant of a path reported "T" whose type changed
// between directory and non-directory, and nothing else is wrong.
func vCompareC53(a, b *vStoredC53, got *vDiffOutC53, metadata bool) (dev string, knownShape bool, nDirTypeChange int) {
	want := vRefDiffC53(a, b)
	var devs []string
	missingBelowT := 0
	other := 0
	isDirTypeChange := func(p string) bool {
		n1, ok1 := a.Nodes[p]
		n2, ok2 := b.Nodes[p]
		return ok1 && ok2 && n1.Type != n2.Type && (n1.Type == data.NodeTypeDir || n2.Type == data.NodeTypeDir)
	}
	for p := range want {
		if isDirTypeChange(p) {
			nDirTypeChange++
		}
	}
	paths := make([]string, 0, len(want))
	for p := range want {
		paths = append(paths, p)
	}
	sort.Strings(paths)
	for _, p := range paths {
		w := want[p]
		g, reported := got.Lines[p]
		gm := strings.ReplaceAll(g, "U", "")
		gu := strings.Contains(g, "U")
		if gm != w.Main {
			if !reported && (w.Main == "+" || w.Main == "-") {
				// missing added/removed line: below a dir<->non-dir type change that was reported as T?
				hidden := false
				for q := path.Dir(p); q != "/" && q != "."; q = path.Dir(q) {
					if isDirTypeChange(q) && strings.Contains(got.Lines[q], "T") {
						hidden = true
					}
				}
				if hidden {
					missingBelowT++
					devs = append(devs, fmt.Sprintf("%q: want %q, not listed (below a path whose type changed between dir and non-dir)", p, w.Main))
					continue
				}
			}
			other++
			devs = append(devs, fmt.Sprintf("%q: want %q, got %q", p, w.Main, g))
			continue
		}
		switch {
		case gu && !metadata:
			other++
			devs = append(devs, fmt.Sprintf("%q: 'U' without --metadata (%q)", p, g))
		case gu && !w.UAllowed:
			other++
			devs = append(devs, fmt.Sprintf("%q: 'U' but the nodes are identical (%q)", p, g))
		case !gu && metadata && w.URequired:
			other++
			devs = append(devs, fmt.Sprintf("%q: metadata differs but no 'U' (got %q):\n      %s\n      %s", p, g, vMetaJSONC53(a.Nodes[p]), vMetaJSONC53(b.Nodes[p])))
		}
		if reported && got.Slash[p] != w.Dir {
			other++
			devs = append(devs, fmt.Sprintf("%q: trailing slash=%v, directory=%v", p, got.Slash[p], w.Dir))
		}
	}
	for p, g := range got.Lines {
		if _, ok := want[p]; !ok {
			other++
			devs = append(devs, fmt.Sprintf("%q: reported %q but the path is in neither snapshot", p, g))
		}
	}

	// statistics: consistent with the reported lines
	var add, rem DiffStat
	changed := 0
	count := func(s *DiffStat, n *data.Node) {
		switch n.Type {
		case data.NodeTypeFile:
			s.Files++
		case data.NodeTypeDir:
			s.Dirs++
		default:
			s.Others++
		}
	}
	for p, g := range got.Lines {
		switch {
		case g == "+" && b.Nodes[p] != nil:
			count(&add, b.Nodes[p])
		case g == "-" && a.Nodes[p] != nil:
			count(&rem, a.Nodes[p])
		case strings.Contains(g, "M"):
			changed++
		}
	}
	gs := got.Stats
	if gs.ChangedFiles != changed || gs.Added.Files != add.Files || gs.Added.Dirs != add.Dirs || gs.Added.Others != add.Others ||
		gs.Removed.Files != rem.Files || gs.Removed.Dirs != rem.Dirs || gs.Removed.Others != rem.Others {
		other++
		devs = append(devs, fmt.Sprintf("statistics: changed=%d added=%+v removed=%+v, the listed lines give changed=%d added=%+v removed=%+v", gs.ChangedFiles, gs.Added, gs.Removed, changed, add, rem))
	}
	// blob statistics: blobs referenced by exactly one of the two trees
	{
		setDiff := func(x, y map[restic.ID]uint) (n int, bytes uint64) {
			for id, sz := range x {
				if _, ok := y[id]; !ok {
					n++
					bytes += uint64(sz)
				}
			}
			return
		}
		ad, adb := setDiff(b.Data, a.Data)
		at, atb := setDiff(b.Trees, a.Trees)
		rd, rdb := setDiff(a.Data, b.Data)
		rt, rtb := setDiff(a.Trees, b.Trees)
		if gs.Added.DataBlobs != ad || gs.Added.TreeBlobs != at || gs.Added.Bytes != adb+atb ||
			gs.Removed.DataBlobs != rd || gs.Removed.TreeBlobs != rt || gs.Removed.Bytes != rdb+rtb {
			other++
			devs = append(devs, fmt.Sprintf("blob statistics: added=%+v removed=%+v, the trees give added data/tree/bytes=%d/%d/%d removed=%d/%d/%d",
				gs.Added, gs.Removed, ad, at, adb+atb, rd, rt, rdb+rtb))
		}
	}
	if len(devs) == 0 {
		return "", false, nDirTypeChange
	}
	return strings.Join(devs, "\n  "), other == 0 && missingBelowT > 0, nDirTypeChange
}

// ---------------------------------------------------------------------------
// edit scripts (applied to the model and to the file system)

type vEditorC53 struct {
	t    *rapid.T
	root string
	tr   vTree
	log  []string
	kind map[string]int
	// paths whose node must differ between the snapshots, by the edit that touched them last
	depthOfChange int
}

func (ed *vEditorC53) full(p string) string { return filepath.Join(ed.root, filepath.FromSlash(p)) }

func (ed *vEditorC53) pick(label string, pred func(p string, n *vNode) bool) (string, bool) {
	var c []string
	for _, p := range ed.tr.Paths() {
		if pred(p, ed.tr[p]) {
			c = append(c, p)
		}
	}
	if len(c) == 0 {
		return "", false
	}
	return rapid.SampledFrom(c).Draw(ed.t, label), true
}

func (ed *vEditorC53) newPath(label string) (string, bool) {
	dirs := []string{""}
	for _, p := range ed.tr.Paths() {
		if ed.tr[p].Kind == 'd' && strings.Count(p, "/") < 4 {
			dirs = append(dirs, p)
		}
	}
	if rapid.IntRange(0, 2).Draw(ed.t, label+"directed") == 0 {
		// a new entry named like the prefix of an existing sibling ("foo" next to "foo.tar")
		var c []string
		for _, p := range ed.tr.Paths() {
			if pre, ok := vPrefixOfC53[path.Base(p)]; ok {
				q := path.Join(path.Dir(p), pre)
				if _, exists := ed.tr[q]; !exists && strings.Count(q, "/") < 4 {
					c = append(c, q)
				}
			}
		}
		if len(c) > 0 {
			return rapid.SampledFrom(c).Draw(ed.t, label+"prefixsibling"), true
		}
	}
	for try := 0; try < 4; try++ {
		d := rapid.SampledFrom(dirs).Draw(ed.t, label+"dir")
		n := rapid.SampledFrom(append([]string{"new", "n2"}, vNamesC53...)).Draw(ed.t, label+"name")
		p := n
		if d != "" {
			p = d + "/" + n
		}
		if _, ok := ed.tr[p]; !ok {
			return p, true
		}
	}
	return "", false
}

func (ed *vEditorC53) mtime(label string) int64 {
	return int64(1400000000+rapid.IntRange(0, 90000000).Draw(ed.t, label))*1e9 + 500
}

func (ed *vEditorC53) fail(err error) {
	if err != nil {
		ed.t.Fatalf("harness: edit failed: %v (log %v)", err, ed.log)
	}
}

func (ed *vEditorC53) setTimes(p string, n *vNode) {
	if n.Kind == 'l' {
		ed.fail(vLutimes(ed.full(p), n.Mtime))
		return
	}
	ts := []syscall.Timespec{syscall.NsecToTimespec(n.Mtime), syscall.NsecToTimespec(n.Mtime)}
	ed.fail(syscall.UtimesNano(ed.full(p), ts))
}

func (ed *vEditorC53) mkFile(p, label string) {
	n := &vNode{Kind: 'f', Mode: 0o644, Mtime: ed.mtime(label + "mt"), Seed: rapid.Uint64().Draw(ed.t, label+"seed"), Len: rapid.IntRange(0, 300).Draw(ed.t, label+"len")}
	ed.fail(os.WriteFile(ed.full(p), vContent(n), 0o644))
	ed.tr[p] = n
	ed.setTimes(p, n)
}

func (ed *vEditorC53) mkLink(p, label string) {
	n := &vNode{Kind: 'l', Mode: 0o777, Mtime: ed.mtime(label + "mt"), Target: rapid.SampledFrom([]string{"a", "../b", "nowhere"}).Draw(ed.t, label+"target")}
	ed.fail(os.Symlink(n.Target, ed.full(p)))
	ed.tr[p] = n
	ed.setTimes(p, n)
}

func (ed *vEditorC53) mkDir(p, label string, depth int) {
	n := &vNode{Kind: 'd', Mode: 0o755, Mtime: ed.mtime(label + "mt")}
	ed.fail(os.Mkdir(ed.full(p), 0o755))
	ed.tr[p] = n
	k := rapid.IntRange(0, 3).Draw(ed.t, label+"kids")
	for i := 0; i < k; i++ {
		c := p + "/" + rapid.SampledFrom(vNamesC53).Draw(ed.t, label+"kid")
		if _, ok := ed.tr[c]; ok {
			continue
		}
		switch v := rapid.IntRange(0, 5).Draw(ed.t, label+"kidkind"); {
		case v == 0 && depth < 2:
			ed.mkDir(c, label+"s", depth+1)
		case v == 1:
			ed.mkLink(c, label+"l")
		default:
			ed.mkFile(c, label+"f")
		}
	}
	ed.setTimes(p, n)
}

func (ed *vEditorC53) remove(p string) {
	ed.fail(os.RemoveAll(ed.full(p)))
	for q := range ed.tr {
		if q == p || strings.HasPrefix(q, p+"/") {
			delete(ed.tr, q)
		}
	}
}

var vEditKindsC53 = []string{"add-file", "add-dir", "add-symlink", "remove", "content-same-size", "content-same-size", "content-resize",
	"chmod", "touch", "file-to-dir", "dir-to-file", "file-to-symlink", "symlink-to-file", "dir-to-symlink", "symlink-to-dir"}

// step applies one drawn edit; returns false if it was not applicable.
func (ed *vEditorC53) step(i int) bool {
	l := fmt.Sprintf("e%d", i)
	kind := rapid.SampledFrom(vEditKindsC53).Draw(ed.t, l+"kind")
	isKind := func(k byte) func(string, *vNode) bool {
		return func(_ string, n *vNode) bool { return n.Kind == k }
	}
	var p string
	var ok bool
	switch kind {
	case "add-file":
		if p, ok = ed.newPath(l); ok {
			ed.mkFile(p, l)
		}
	case "add-dir":
		if p, ok = ed.newPath(l); ok {
			ed.mkDir(p, l, strings.Count(p, "/"))
		}
	case "add-symlink":
		if p, ok = ed.newPath(l); ok {
			ed.mkLink(p, l)
		}
	case "remove":
		if p, ok = ed.pick(l+"victim", func(string, *vNode) bool { return true }); ok {
			ed.remove(p)
		}
	case "content-same-size":
		if p, ok = ed.pick(l+"file", func(_ string, n *vNode) bool { return n.Kind == 'f' && n.Len > 0 }); ok {
			n := ed.tr[p]
			n.Seed = n.Seed*6364136223846793005 + 1442695040888963407
			n.Zeros = false
			ed.fail(os.WriteFile(ed.full(p), vContent(n), 0o600))
			if rapid.Bool().Draw(ed.t, l+"keepmtime") {
				ed.setTimes(p, n)
			} else {
				n.Mtime = ed.mtime(l + "mt")
				ed.setTimes(p, n)
			}
		}
	case "content-resize":
		if p, ok = ed.pick(l+"file", isKind('f')); ok {
			n := ed.tr[p]
			old := n.Len
			n.Len = rapid.IntRange(0, 400).Draw(ed.t, l+"len")
			if n.Len == old {
				n.Len = old + 1
			}
			ed.fail(os.WriteFile(ed.full(p), vContent(n), 0o600))
			ed.setTimes(p, n)
		}
	case "chmod":
		if p, ok = ed.pick(l+"target", func(_ string, n *vNode) bool { return n.Kind != 'l' }); ok {
			n := ed.tr[p]
			n.Mode ^= 0o011
			ed.fail(os.Chmod(ed.full(p), os.FileMode(n.Mode)))
		}
	case "touch":
		if p, ok = ed.pick(l+"target", func(string, *vNode) bool { return true }); ok {
			n := ed.tr[p]
			n.Mtime += int64(rapid.IntRange(1, 1000).Draw(ed.t, l+"dt")) * 1e9
			ed.setTimes(p, n)
		}
	case "file-to-dir":
		if p, ok = ed.pick(l+"target", isKind('f')); ok {
			ed.remove(p)
			ed.mkDir(p, l, strings.Count(p, "/"))
		}
	case "dir-to-file":
		if p, ok = ed.pick(l+"target", isKind('d')); ok {
			ed.remove(p)
			ed.mkFile(p, l)
		}
	case "file-to-symlink":
		if p, ok = ed.pick(l+"target", isKind('f')); ok {
			ed.remove(p)
			ed.mkLink(p, l)
		}
	case "symlink-to-file":
		if p, ok = ed.pick(l+"target", isKind('l')); ok {
			ed.remove(p)
			ed.mkFile(p, l)
		}
	case "dir-to-symlink":
		if p, ok = ed.pick(l+"target", isKind('d')); ok {
			ed.remove(p)
			ed.mkLink(p, l)
		}
	case "symlink-to-dir":
		if p, ok = ed.pick(l+"target", isKind('l')); ok {
			ed.remove(p)
			ed.mkDir(p, l, strings.Count(p, "/"))
		}
	}
	if !ok {
		return false
	}
	ed.log = append(ed.log, kind+" "+p)
	ed.kind[kind]++
	if d := strings.Count(p, "/"); d > ed.depthOfChange {
		ed.depthOfChange = d
	}
	return true
}

// ---------------------------------------------------------------------------

func vBackupNewC53(e *vEnv, src string, opts BackupOptions) (string, error) {
	before, err := e.SnapshotIDs()
	if err != nil {
		return "", err
	}
	if err := e.Backup([]string{src}, opts); err != nil {
		return "", err
	}
	after, err := e.SnapshotIDs()
	if err != nil {
		return "", err
	}
	id := vNewID(before, after)
	if id == "" {
		return "", fmt.Errorf("no new snapshot")
	}
	return id, nil
}

func vSortedLinesC53(m map[string]string) []string {
	var out []string
	for p, g := range m {
		out = append(out, fmt.Sprintf("%-3s %s", g, p))
	}
	sort.Slice(out, func(i, j int) bool { return out[i][4:] < out[j][4:] })
	return out
}

func TestVerifC53Diff(t *testing.T) {
	vSetup(t)
	st := verifkit.Begin(t, "C53")

	rapid.Check(t, func(t *rapid.T) {
		e, err := vNewEnv(true)
		if err != nil {
			t.Fatal(err)
		}
		defer e.Close()
		if err := e.Init("2"); err != nil {
			t.Fatal(err)
		}
		src := e.Scratch("src-")
		tr1 := vGenTree(t, vTreeGen{MaxEntries: 16, MaxFileLen: 400, Names: vNamesC53, Symlinks: true})
		if err := tr1.Materialize(src); err != nil {
			t.Fatal(err)
		}
		idA, err := vBackupNewC53(e, src, BackupOptions{})
		if err != nil {
			t.Fatalf("backup A: %v", err)
		}

		ed := &vEditorC53{t: t, root: src, tr: tr1.Clone(), kind: map[string]int{}}
		nEdits := rapid.IntRange(0, 6).Draw(t, "edits")
		for i := 0; i < nEdits; i++ {
			ed.step(i)
		}
		tr2 := ed.tr
		// harness self-check: the file system is what the model says
		onDisk, err := vReadTree(src)
		if err != nil {
			t.Fatal(err)
		}
		if d := vTreeDiff(tr2, onDisk, false); d != "" {
			t.Fatalf("harness: file system deviates from the model after %v: %s", ed.log, d)
		}
		idB, err := vBackupNewC53(e, src, BackupOptions{Force: rapid.Bool().Draw(t, "force")})
		if err != nil {
			t.Fatalf("backup B: %v", err)
		}

		srcAbs := filepath.ToSlash(src)
		for round := 0; round < 2; round++ {
			metadata := rapid.Bool().Draw(t, "metadata")
			reverse := rapid.IntRange(0, 3).Draw(t, "reverse") == 0
			form := rapid.SampledFrom([]string{"root", "subfolder", "subfolder", "prefix"}).Draw(t, "form")
			from, to := idA, idB
			if reverse {
				from, to = idB, idA
			}
			sub := ""
			argFrom, argTo := from, to
			switch form {
			case "subfolder":
				sub = srcAbs
				argFrom, argTo = from+":"+sub, to+":"+sub
			case "prefix":
				argFrom, argTo = from[:12], to[:12]
			}
			a, err := vLoadStoredC53(e, from, sub)
			if err != nil {
				t.Fatalf("walk: %v", err)
			}
			b, err := vLoadStoredC53(e, to, sub)
			if err != nil {
				t.Fatalf("walk: %v", err)
			}
			if round == 0 {
				// harness self-check: the stored trees are the models
				ma, mb := tr1, tr2
				if reverse {
					ma, mb = tr2, tr1
				}
				pre := srcAbs
				if sub != "" {
					pre = ""
				}
				for _, x := range []struct {
					m vTree
					s *vStoredC53
				}{{ma, a}, {mb, b}} {
					cnt := 0
					for p := range x.s.Nodes {
						if strings.HasPrefix(p, pre+"/") {
							cnt++
						}
					}
					if cnt != len(x.m) {
						t.Fatalf("harness: stored tree has %d entries below the source, model %d", cnt, len(x.m))
					}
					for p, n := range x.m {
						sn := x.s.Nodes[pre+"/"+p]
						if sn == nil {
							t.Fatalf("harness: %q not stored", p)
						}
						want := map[byte]data.NodeType{'f': data.NodeTypeFile, 'd': data.NodeTypeDir, 'l': data.NodeTypeSymlink}[n.Kind]
						if sn.Type != want || (n.Kind == 'f' && sn.Size != uint64(n.Len)) {
							t.Fatalf("harness: %q stored as %s size %d, model %c size %d", p, sn.Type, sn.Size, n.Kind, n.Len)
						}
					}
				}
				// and the model-level expectation of content changes agrees with the stored content IDs
				for p, n1 := range ma {
					n2 := mb[p]
					if n2 == nil || n1.Kind != 'f' || n2.Kind != 'f' {
						continue
					}
					modelDiff := string(vContent(n1)) != string(vContent(n2))
					if storedDiff := !vSameContentC53(a.Nodes[pre+"/"+p], b.Nodes[pre+"/"+p]); storedDiff != modelDiff {
						t.Fatalf("harness: %q content differs in model=%v, in stored trees=%v", p, modelDiff, storedDiff)
					}
				}
			}

			got, err := vRunDiffC53(e, argFrom, argTo, metadata)
			if err != nil {
				t.Fatal(err)
			}
			if got.Stats.Source != argFrom || got.Stats.Target != argTo {
				t.Fatalf("statistics name snapshots %q -> %q, asked for %q -> %q", got.Stats.Source, got.Stats.Target, argFrom, argTo)
			}
			dev, knownShape, nDirType := vCompareC53(a, b, got, metadata)

			// classes and non-triviality
			want := vRefDiffC53(a, b)
			identicalSibling := false
			for p, id := range a.SubtreeOf {
				if id2, ok := b.SubtreeOf[p]; ok && id2 == id {
					par := path.Dir(p)
					hasKid := false
					for q := range a.Nodes {
						if strings.HasPrefix(q, p+"/") {
							hasKid = true
							break
						}
					}
					if hasKid && (par == "/" || a.SubtreeOf[par] != b.SubtreeOf[par]) {
						identicalSibling = true
					}
				}
			}
			// a directory present in only one snapshot whose name is a proper prefix of a
			// sibling's name in the OTHER snapshot, continued by a byte below '/'
			prefixSibling := false
			for _, pair := range [][2]*vStoredC53{{a, b}, {b, a}} {
				for p, n := range pair[0].Nodes {
					if n.Type != data.NodeTypeDir || pair[1].Nodes[p] != nil {
						continue
					}
					for q := range pair[1].Nodes {
						if path.Dir(q) == path.Dir(p) && len(q) > len(p) && strings.HasPrefix(q, p) && q[len(p)] < '/' {
							prefixSibling = true
						}
					}
				}
			}
			mods := map[string]bool{}
			deep := false
			for p, w := range want {
				m := w.Main
				if m == "" && w.URequired {
					m = "meta-only"
				}
				if m == "" {
					continue
				}
				mods[m] = true
				rel := p
				if sub == "" {
					rel = strings.TrimPrefix(p, srcAbs)
				}
				if strings.HasPrefix(p, srcAbs) || sub != "" {
					if strings.Count(rel, "/") >= 2 {
						deep = true
					}
				}
			}
			classes := []string{"form=" + form, fmt.Sprintf("metadata=%v", metadata), fmt.Sprintf("reverse=%v", reverse),
				fmt.Sprintf("identical-sibling-subtree=%v", identicalSibling), fmt.Sprintf("deep-change=%v", deep),
				fmt.Sprintf("dir-nondir-type-change=%v", nDirType > 0), fmt.Sprintf("edits=%d", len(ed.log)),
				fmt.Sprintf("dir-next-to-prefixed-sibling=%v", prefixSibling)}
			for m := range mods {
				classes = append(classes, "want="+m)
			}
			if round == 0 {
				for k := range ed.kind {
					classes = append(classes, "edit="+k)
				}
			}
			if len(got.Lines) == 0 {
				classes = append(classes, "output=empty")
			}
			key := ""
			if deep && identicalSibling {
				key = fmt.Sprintf("%s|%v|%v|%v|%s|%v", tr1.String(), ed.log, metadata, reverse, form, vSortedLinesC53(got.Lines))
			}
			st.Case(key, classes...)
			if key != "" && st.WantSample() {
				st.Sample(map[string]any{"tree": tr1.String(), "edits": ed.log, "metadata": metadata, "reverse": reverse, "form": form, "diff": vSortedLinesC53(got.Lines)})
			}

			if dev == "" {
				continue
			}
			msg := fmt.Sprintf("diff %s -> %s (metadata=%v, form=%s) after edits %v deviates from the reference diff of the stored trees:\n  %s\nreported:\n  %s\ntree before: %s",
				argFrom, argTo, metadata, form, ed.log, dev, strings.Join(vSortedLinesC53(got.Lines), "\n  "), tr1.String())
			if knownShape {
				if st.Known(vKnownC53) {
					st.Class("known-finding-shape")
					continue
				}
				t.Fatalf("[%s] %s", vKnownC53, msg)
			}
			t.Fatalf("%s", msg)
		}
	})
}

// TestVerifC53TypeChangeProbe is the fixed regression probe of the shape recorded as
// C53:dir-file-type-change-hides-descendants: a directory with descendants is replaced
// by a file (and, reversed, a file by a directory).
func TestVerifC53TypeChangeProbe(t *testing.T) {
	vSetup(t)
	st := verifkit.Begin(t, "C53")
	if verifkit.Shard() != 0 {
		return
	}
	e, err := vNewEnv(true)
	if err != nil {
		t.Fatal(err)
	}
	defer e.Close()
	if err := e.Init("2"); err != nil {
		t.Fatal(err)
	}
	src := e.Scratch("src-")
	mk := func(p, content string) {
		full := filepath.Join(src, p)
		if err := os.MkdirAll(filepath.Dir(full), 0o755); err != nil {
			t.Fatal(err)
		}
		if err := os.WriteFile(full, []byte(content), 0o644); err != nil {
			t.Fatal(err)
		}
	}
	mk("keep/same", "same")
	mk("d/x", "x")
	mk("d/sub/y", "y")
	idA, err := vBackupNewC53(e, src, BackupOptions{})
	if err != nil {
		t.Fatal(err)
	}
	if err := os.RemoveAll(filepath.Join(src, "d")); err != nil {
		t.Fatal(err)
	}
	mk("d", "now a file")
	idB, err := vBackupNewC53(e, src, BackupOptions{})
	if err != nil {
		t.Fatal(err)
	}
	sub := filepath.ToSlash(src)
	for _, dir := range [][2]string{{idA, idB}, {idB, idA}} {
		a, err := vLoadStoredC53(e, dir[0], sub)
		if err != nil {
			t.Fatal(err)
		}
		b, err := vLoadStoredC53(e, dir[1], sub)
		if err != nil {
			t.Fatal(err)
		}
		got, err := vRunDiffC53(e, dir[0]+":"+sub, dir[1]+":"+sub, false)
		if err != nil {
			t.Fatal(err)
		}
		dev, knownShape, _ := vCompareC53(a, b, got, false)
		st.Case("probe"+dir[0], "probe")
		// literal expectation, independent of the reference diff
		sign := "-"
		if dir[0] == idB {
			sign = "+"
		}
		literal := map[string]string{"/d": "T", "/d/x": sign, "/d/sub": sign, "/d/sub/y": sign}
		if dev == "" {
			if len(got.Lines) != len(literal) {
				t.Fatalf("probe: reported %v, want %v", vSortedLinesC53(got.Lines), literal)
			}
			for p, m := range literal {
				if got.Lines[p] != m {
					t.Fatalf("probe: %q reported as %q, want %q (all lines: %v)", p, got.Lines[p], m, vSortedLinesC53(got.Lines))
				}
			}
			gs := got.Stats
			files, dirs := gs.Removed.Files, gs.Removed.Dirs
			if sign == "+" {
				files, dirs = gs.Added.Files, gs.Added.Dirs
			}
			if files != 2 || dirs != 1 || gs.ChangedFiles != 0 {
				t.Fatalf("probe: statistics %+v, want 2 files and 1 dir %s", gs, sign)
			}
		}
		switch {
		case dev == "":
			st.Class("probe=descendants-listed")
		case knownShape && st.Known(vKnownC53):
			st.Class("probe=known-finding-reproduced")
			t.Logf("known finding reproduced:\n  %s\nreported:\n  %s", dev, strings.Join(vSortedLinesC53(got.Lines), "\n  "))
		case knownShape:
			t.Fatalf("[%s] a directory with descendants d/x, d/sub/, d/sub/y was replaced by a file (or vice versa); diff reports only:\n  %s\ndeviation from the statement:\n  %s",
				vKnownC53, strings.Join(vSortedLinesC53(got.Lines), "\n  "), dev)
		default:
			t.Fatalf("probe: %s\nreported:\n  %s", dev, strings.Join(vSortedLinesC53(got.Lines), "\n  "))
		}
	}
}
