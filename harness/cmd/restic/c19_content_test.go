package main

// Property C19: restore leaves each selected file with exactly the snapshot content,
// whatever the target already contains, for every --overwrite mode, with and without
// --sparse / --delete.
//
// Oracle (doc/050_restore.rst, "Restoring in-place" and "--sparse"):
//   always      every selected file ends up with the snapshot bytes and size;
//   if-changed  the same, except that a file with the snapshot's size AND mtime is
//               assumed to be up to date (documented; counted as class "trusted");
//   if-newer    an existing item is overwritten iff the snapshot's mtime is newer;
//   never       an existing item is never overwritten;
//   items that are not overwritten are left exactly as they were (type, bytes, mode,
//   mtime, children); a hard-linked sibling outside the target and the file a symlink
//   in the way points to keep their bytes; sparse restores have identical content.
// The only legitimate failure is a non-empty directory in the way of a file that is
// to be overwritten without --delete (documented under --delete).

import (
	"bytes"
	"context"
	"fmt"
	"math/rand/v2"
	"os"
	"path"
	"path/filepath"
	"sort"
	"strings"
	"syscall"
	"testing"

	"github.com/restic/restic/internal/data"
	"github.com/restic/restic/internal/filter"
	"github.com/restic/restic/internal/repository"
	"github.com/restic/restic/internal/restic"
	"github.com/restic/restic/internal/restorer"
	"github.com/restic/restic/internal/verifkit"
	"pgregory.net/rapid"
)

const (
	vKiBC19   = 1024
	vChunkC19 = 512 * vKiBC19 // minimum chunk size = size of the all-zero chunk
)

// vSegC19 is one segment of a file content recipe.
type vSegC19 struct {
	K    byte   `json:"k"` // 'r' pseudo-random bytes, 'z' zeros, 'b' 512 KiB block: random head, zero tail
	Seed uint64 `json:"seed,omitempty"`
	Len  int    `json:"len"`
}

type vFileC19 struct {
	Name   string    `json:"name"` // slash path below the backup source
	Recipe string    `json:"recipe"`
	Segs   []vSegC19 `json:"segs"`
	Mode   uint32    `json:"mode"`
	Mtime  int64     `json:"mtime"` // unix seconds

	want  []byte   // the content
	blobs [][2]int // offset, length of each blob in the snapshot
	zero  int      // number of all-zero 512 KiB blobs
	rep   bool     // some blob occurs twice
}

func vFillRandC19(b []byte, seed uint64) {
	r := rand.New(rand.NewPCG(seed, 0xc19))
	i := 0
	for ; i+8 <= len(b); i += 8 {
		v := r.Uint64() | 0x0101010101010101 // no zero bytes: old data is visible where zeros belong
		b[i], b[i+1], b[i+2], b[i+3], b[i+4], b[i+5], b[i+6], b[i+7] = byte(v), byte(v>>8), byte(v>>16), byte(v>>24), byte(v>>32), byte(v>>40), byte(v>>48), byte(v>>56)
	}
	for ; i < len(b); i++ {
		b[i] = byte(r.Uint32()) | 1
	}
}

func (f *vFileC19) expand() {
	n := 0
	for _, s := range f.Segs {
		if s.K == 'b' {
			n += vChunkC19
		} else {
			n += s.Len
		}
	}
	f.want = make([]byte, n)
	off := 0
	for _, s := range f.Segs {
		switch s.K {
		case 'r':
			vFillRandC19(f.want[off:off+s.Len], s.Seed)
			off += s.Len
		case 'z':
			off += s.Len
		case 'b':
			vFillRandC19(f.want[off:off+s.Len], s.Seed)
			off += vChunkC19
		}
	}
}

// (rapid prefers the front of a list: the interesting recipes come first)
var vRecipesC19 = []string{"hole", "blocks", "zchunks", "zshort", "short", "hole", "blocks", "zchunks", "zshort", "short",
	"zsmall", "bigrand", "zshort", "short", "zsmall", "empty"}

func vGenFileC19(t *rapid.T, name string) *vFileC19 {
	f := &vFileC19{Name: name}
	f.Recipe = rapid.SampledFrom(vRecipesC19).Draw(t, "recipe")
	seed := func() uint64 { return rapid.Uint64().Draw(t, "seed") }
	rnd := func(lo, hi int) vSegC19 {
		return vSegC19{K: 'r', Seed: seed(), Len: rapid.IntRange(lo, hi).Draw(t, "rlen")}
	}
	zer := func(lo, hi int) vSegC19 { return vSegC19{K: 'z', Len: rapid.IntRange(lo, hi).Draw(t, "zlen")} }
	switch f.Recipe {
	case "empty":
	case "short":
		f.Segs = []vSegC19{rnd(1, 4000)}
	case "zshort":
		f.Segs = []vSegC19{zer(1, 3000), rnd(1, 3000)}
		if rapid.Bool().Draw(t, "ztail") {
			f.Segs = append(f.Segs, zer(1, 2000))
		}
	case "zsmall":
		f.Segs = []vSegC19{zer(1, 100000)}
	case "zchunks":
		k := rapid.IntRange(1, 3).Draw(t, "zk")
		f.Segs = []vSegC19{{K: 'z', Len: k*vChunkC19 + rapid.SampledFrom([]int{0, 0, 1, 4096, 70000}).Draw(t, "zextra")}}
		if rapid.IntRange(0, 2).Draw(t, "zhead") == 0 {
			f.Segs = append([]vSegC19{rnd(1, 2000)}, f.Segs...)
		}
	case "hole":
		f.Segs = []vSegC19{rnd(1, 150*vKiBC19), zer(1024*vKiBC19, 1536*vKiBC19), rnd(1, 100*vKiBC19)}
	case "blocks":
		n := rapid.IntRange(2, 4).Draw(t, "nblocks")
		for i := 0; i < n; i++ {
			if rapid.IntRange(0, 4).Draw(t, "zblock") == 0 {
				f.Segs = append(f.Segs, vSegC19{K: 'z', Len: vChunkC19})
				continue
			}
			id := rapid.IntRange(1, 3).Draw(t, "blockid")
			f.Segs = append(f.Segs, vSegC19{K: 'b', Seed: uint64(id), Len: 1000 + id*70*vKiBC19})
		}
		if rapid.Bool().Draw(t, "btail") {
			f.Segs = append(f.Segs, rnd(1, 50*vKiBC19))
		}
	case "bigrand":
		f.Segs = []vSegC19{rnd(1100*vKiBC19, 2200*vKiBC19)}
	}
	f.Mode = uint32(rapid.SampledFrom([]int{0o644, 0o600, 0o444}).Draw(t, "smode"))
	f.Mtime = 1600000000 + int64(rapid.IntRange(0, 1000).Draw(t, "smtime"))*86400
	f.expand()
	return f
}

// vStateC19 is the state of the target at the path of one snapshot file before restore.
type vStateC19 struct {
	Kind     string `json:"kind"` // missing, reg, dir-empty, dir-nonempty, symlink, symlink-dangling
	Rel      string `json:"rel,omitempty"`
	MtimeRel int    `json:"mtime_rel"` // -1 older, 0 equal, 1 newer than the snapshot's
	// SubSecNs > 0 (only with MtimeRel == 1): the item is newer by that many nanoseconds only, i.e. its
	// mtime lies in the SAME second as the snapshot's (added after an independent seeded change that
	// compared mtimes at one-second resolution in the if-changed shortcut was missed)
	SubSecNs int64 `json:"subsec_ns,omitempty"`
	Mode     uint32 `json:"mode,omitempty"`
	Hardlink bool   `json:"hardlink,omitempty"`
	Cut      int    `json:"cut,omitempty"`
	Corrupt  []int  `json:"corrupt,omitempty"` // blob indices whose bytes differ
	Seed     uint64 `json:"seed,omitempty"`

	old []byte
}

var vRelsC19 = []string{"partial", "diff", "longer-tail", "shorter", "identical", "longer-partial", "partial", "shorter-other", "longer-other"}

func vGenStateC19(t *rapid.T, f *vFileC19) *vStateC19 {
	s := &vStateC19{MtimeRel: rapid.SampledFrom([]int{0, -1, 1, -1, 1}).Draw(t, "mtimerel"), Seed: rapid.Uint64().Draw(t, "oseed")}
	if s.MtimeRel == 1 && rapid.IntRange(0, 1).Draw(t, "subsec") == 0 {
		s.SubSecNs = rapid.SampledFrom([]int64{1, 1000, 150_000_000, 700_000_000, 999_999_999}).Draw(t, "subsecns")
	}
	k := rapid.IntRange(0, 19).Draw(t, "skind")
	switch {
	case k >= 18:
		s.Kind = "missing"
		return s
	case k == 17:
		s.Kind = "dir-empty"
		return s
	case k == 16:
		s.Kind = "dir-nonempty"
		return s
	case k == 15:
		s.Kind = rapid.SampledFrom([]string{"symlink", "symlink", "symlink-dangling"}).Draw(t, "lkind")
		return s
	}
	s.Kind = "reg"
	s.Rel = rapid.SampledFrom(vRelsC19).Draw(t, "rel")
	s.Mode = uint32(rapid.SampledFrom([]int{0o644, 0o644, 0o444, 0o000}).Draw(t, "omode"))
	s.Hardlink = rapid.IntRange(0, 3).Draw(t, "hardlink") == 0
	n := len(f.want)
	if n == 0 && s.Rel != "identical" {
		s.Rel = "longer-other"
	}
	nb := len(f.blobs)
	corruptSome := func(strict bool) {
		if nb == 0 {
			return
		}
		for len(s.Corrupt) == 0 {
			for i := 0; i < nb; i++ {
				if rapid.IntRange(0, 2).Draw(t, "corrupt") == 0 {
					s.Corrupt = append(s.Corrupt, i)
				}
			}
			if len(s.Corrupt) == 0 {
				s.Corrupt = []int{rapid.IntRange(0, nb-1).Draw(t, "corrupt1")}
			}
		}
		if strict && nb >= 2 && len(s.Corrupt) == nb {
			keep := rapid.IntRange(0, nb-1).Draw(t, "keepblob")
			s.Corrupt = append(s.Corrupt[:keep], s.Corrupt[keep+1:]...)
		}
	}
	switch s.Rel {
	case "shorter", "shorter-other":
		s.Cut = rapid.IntRange(0, n-1).Draw(t, "cut")
		if nb >= 2 && rapid.Bool().Draw(t, "cutatblob") {
			s.Cut = f.blobs[rapid.IntRange(1, nb-1).Draw(t, "cutblob")][0]
		}
	case "longer-tail", "longer-other":
		s.Cut = rapid.IntRange(1, 5000).Draw(t, "extra")
	case "longer-partial":
		s.Cut = rapid.IntRange(1, 5000).Draw(t, "extra")
		corruptSome(true)
	case "partial":
		corruptSome(true)
	case "diff":
		for i := 0; i < nb; i++ {
			s.Corrupt = append(s.Corrupt, i)
		}
	}
	return s
}

// build computes the old bytes of a regular pre-existing file.
func (s *vStateC19) build(f *vFileC19) {
	if s.Kind != "reg" {
		return
	}
	n := len(f.want)
	corrupt := func(b []byte) {
		for j, bi := range s.Corrupt {
			off, l := f.blobs[bi][0], f.blobs[bi][1]
			seed := s.Seed + uint64(j)
			if seed%3 == 0 && l > 1 {
				// change a single byte somewhere in the blob
				at := off + int(seed>>8)%l
				b[at] ^= 0x5a
				continue
			}
			// other (non-zero) data over a part or the whole of the blob
			from := off
			if seed%3 == 1 {
				from = off + int(seed>>8)%l
			}
			vFillRandC19(b[from:off+l], seed)
			if bytes.Equal(b[from:off+l], f.want[from:off+l]) {
				b[from] ^= 0x5a
			}
		}
	}
	switch s.Rel {
	case "shorter":
		s.old = append([]byte{}, f.want[:s.Cut]...)
	case "shorter-other":
		s.old = make([]byte, s.Cut)
		vFillRandC19(s.old, s.Seed)
	case "longer-tail", "longer-partial":
		s.old = make([]byte, n+s.Cut)
		copy(s.old, f.want)
		vFillRandC19(s.old[n:], s.Seed^1)
		corrupt(s.old)
	case "longer-other":
		s.old = make([]byte, n+s.Cut)
		vFillRandC19(s.old, s.Seed)
	case "diff", "partial":
		s.old = append([]byte{}, f.want...)
		corrupt(s.old)
	case "identical":
		s.old = append([]byte{}, f.want...)
	}
}

func (s *vStateC19) label() string {
	if s.Kind == "reg" {
		return "reg/" + s.Rel
	}
	return s.Kind
}

// vSnapInfoC19 loads the blob layout of every file of the (only) snapshot.
func vSnapInfoC19(e *vEnv, src string, files []*vFileC19) (snapID string, err error) {
	zeroID := restic.Hash(make([]byte, vChunkC19))
	err = e.WithRepo(func(ctx context.Context, repo *repository.Repository) error {
		var sn *data.Snapshot
		err := data.ForAllSnapshots(ctx, repo, repo, nil, func(_ restic.ID, s *data.Snapshot, err error) error {
			sn = s
			return err
		})
		if err != nil || sn == nil {
			return fmt.Errorf("no snapshot: %v", err)
		}
		snapID = sn.ID().String()
		if err := repo.LoadIndex(ctx, restic.NoopTerminalCounterFactory); err != nil {
			return err
		}
		for _, f := range files {
			dir, err := data.FindTreeDirectory(ctx, repo, sn.Tree, path.Join(filepath.ToSlash(src), path.Dir(f.Name)))
			if err != nil {
				return err
			}
			it, err := data.LoadTree(ctx, repo, *dir)
			if err != nil {
				return err
			}
			found := false
			for item := range it {
				if item.Error != nil {
					return item.Error
				}
				if item.Node.Name != path.Base(f.Name) {
					continue
				}
				found = true
				off := 0
				seen := map[restic.ID]bool{}
				f.blobs, f.zero, f.rep = nil, 0, false
				for _, id := range item.Node.Content {
					l, ok := repo.LookupBlobSize(restic.BlobHandle{Type: restic.DataBlob, ID: id})
					if !ok {
						return fmt.Errorf("blob %v not in index", id)
					}
					f.blobs = append(f.blobs, [2]int{off, int(l)})
					off += int(l)
					if id == zeroID {
						f.zero++
					}
					if seen[id] {
						f.rep = true
					}
					seen[id] = true
				}
				if off != len(f.want) || uint64(off) != item.Node.Size {
					return fmt.Errorf("%s: snapshot size %d, blobs %d, model %d", f.Name, item.Node.Size, off, len(f.want))
				}
			}
			if !found {
				return fmt.Errorf("%s not in snapshot", f.Name)
			}
		}
		return nil
	})
	return snapID, err
}

// vEntryC19 is what is recorded about a path before restore (to compare "untouched").
type vEntryC19 struct {
	exists   bool
	mode     os.FileMode
	mtime    int64
	data     []byte
	link     string
	children string
}

func vStatEntryC19(p string) (vEntryC19, error) {
	fi, err := os.Lstat(p)
	if os.IsNotExist(err) {
		return vEntryC19{}, nil
	}
	if err != nil {
		return vEntryC19{}, err
	}
	en := vEntryC19{exists: true, mode: fi.Mode(), mtime: fi.ModTime().UnixNano()}
	switch {
	case fi.Mode().IsRegular():
		en.data, err = os.ReadFile(p)
	case fi.Mode()&os.ModeSymlink != 0:
		en.link, err = os.Readlink(p)
	case fi.IsDir():
		var names []string
		err = filepath.Walk(p, func(q string, fi os.FileInfo, err error) error {
			if err != nil {
				return err
			}
			names = append(names, fmt.Sprintf("%s:%v:%d", strings.TrimPrefix(q, p), fi.Mode(), fi.Size()))
			return nil
		})
		sort.Strings(names)
		en.children = strings.Join(names, ",")
	}
	return en, err
}

func (a vEntryC19) diff(b vEntryC19) string {
	switch {
	case a.exists != b.exists:
		return fmt.Sprintf("exists %v -> %v", a.exists, b.exists)
	case a.mode != b.mode:
		return fmt.Sprintf("mode %v -> %v", a.mode, b.mode)
	case a.mtime != b.mtime:
		return fmt.Sprintf("mtime %d -> %d", a.mtime, b.mtime)
	case !bytes.Equal(a.data, b.data):
		return fmt.Sprintf("content changed (%d -> %d bytes, first difference at %d)", len(a.data), len(b.data), vFirstDiffC19(a.data, b.data))
	case a.link != b.link:
		return fmt.Sprintf("link target %q -> %q", a.link, b.link)
	case a.children != b.children:
		return fmt.Sprintf("directory content %q -> %q", a.children, b.children)
	}
	return ""
}

func vFirstDiffC19(a, b []byte) int {
	n := min(len(a), len(b))
	for i := 0; i < n; i++ {
		if a[i] != b[i] {
			return i
		}
	}
	return n
}

func vSetMtimeC19(p string, sec int64, symlink bool) error {
	return vSetMtimeNsC19(p, sec*1e9, symlink)
}

func vSetMtimeNsC19(p string, ns int64, symlink bool) error {
	if symlink {
		return vLutimes(p, ns)
	}
	ts := []syscall.Timespec{syscall.NsecToTimespec(ns), syscall.NsecToTimespec(ns)}
	return syscall.UtimesNano(p, ts)
}

// vOptsC19 are the restore options of one round.
type vOptsC19 struct {
	Overwrite string `json:"overwrite"`
	Sparse    bool   `json:"sparse"`
	Delete    bool   `json:"delete"`
	Exclude   string `json:"exclude,omitempty"` // name of one file that is not selected
	Stale     bool   `json:"stale"`             // an extra file that is not in the snapshot
}

var vOverwritesC19 = []string{"always", "if-changed", "if-newer", "never"}

func (o vOptsC19) restoreOptions() RestoreOptions {
	ro := RestoreOptions{Sparse: o.Sparse, Delete: o.Delete}
	if err := ro.Overwrite.Set(o.Overwrite); err != nil {
		panic(err)
	}
	if o.Exclude != "" {
		ro.ExcludePatternOptions = filter.ExcludePatternOptions{Excludes: []string{"/" + o.Exclude}}
	}
	return ro
}

var _ = restorer.OverwriteAlways

// vRoundC19 prepares a target, restores into it and checks every file.
// It returns a description of the first violation ("" if none) and histogram labels.
func vRoundC19(e *vEnv, snapID, src string, files []*vFileC19, states []*vStateC19, o vOptsC19) (viol string, classes []string, err error) {
	root := e.Scratch("round-")
	defer func() {
		// directories may have lost their permissions
		_ = filepath.Walk(root, func(p string, fi os.FileInfo, err error) error {
			if err == nil && fi.IsDir() {
				_ = os.Chmod(p, 0o700)
			}
			return nil
		})
		_ = os.RemoveAll(root)
	}()
	target := filepath.Join(root, "target")
	outside := filepath.Join(root, "outside")
	for _, d := range []string{target, outside} {
		if err := os.Mkdir(d, 0o755); err != nil {
			return "", nil, err
		}
	}
	victim := map[int]string{}
	sibling := map[int]string{}
	for i, f := range files {
		s := states[i]
		s.build(f)
		p := filepath.Join(target, filepath.FromSlash(f.Name))
		if s.Kind == "missing" {
			continue
		}
		if err := os.MkdirAll(filepath.Dir(p), 0o755); err != nil {
			return "", nil, err
		}
		mt := f.Mtime + int64(s.MtimeRel)*3600
		switch s.Kind {
		case "reg":
			if err := os.WriteFile(p, s.old, 0o600); err != nil {
				return "", nil, err
			}
			if s.Hardlink {
				sibling[i] = filepath.Join(outside, fmt.Sprintf("sibling%d", i))
				if err := os.Link(p, sibling[i]); err != nil {
					return "", nil, err
				}
			}
			if err := os.Chmod(p, os.FileMode(s.Mode)); err != nil {
				return "", nil, err
			}
		case "dir-empty", "dir-nonempty":
			if err := os.Mkdir(p, 0o755); err != nil {
				return "", nil, err
			}
			if s.Kind == "dir-nonempty" {
				if err := os.WriteFile(filepath.Join(p, "inner"), []byte("inner data"), 0o644); err != nil {
					return "", nil, err
				}
			}
		case "symlink":
			victim[i] = filepath.Join(outside, fmt.Sprintf("victim%d", i))
			if err := os.WriteFile(victim[i], []byte("victim data, must survive"), 0o644); err != nil {
				return "", nil, err
			}
			if err := os.Symlink(victim[i], p); err != nil {
				return "", nil, err
			}
		case "symlink-dangling":
			if err := os.Symlink(filepath.Join(outside, "nonexistent"), p); err != nil {
				return "", nil, err
			}
		}
		mtNs := mt * 1e9
		if s.SubSecNs > 0 {
			mtNs = f.Mtime*1e9 + s.SubSecNs
		}
		if err := vSetMtimeNsC19(p, mtNs, strings.HasPrefix(s.Kind, "symlink")); err != nil {
			return "", nil, err
		}
	}
	stale := filepath.Join(target, "stale.bin")
	if o.Stale {
		if err := os.WriteFile(stale, []byte("stale"), 0o644); err != nil {
			return "", nil, err
		}
	}
	before := make([]vEntryC19, len(files))
	for i, f := range files {
		if before[i], err = vStatEntryC19(filepath.Join(target, filepath.FromSlash(f.Name))); err != nil {
			return "", nil, err
		}
	}

	// what must happen
	const (
		xSnapshot  = "snapshot"  // the file has the snapshot's bytes
		xTrusted   = "trusted"   // if-changed: same size and mtime, content not looked at
		xUntouched = "untouched" // left exactly as it was
	)
	expect := make([]string, len(files))
	wantErr := false
	for i, f := range files {
		s := states[i]
		exists := s.Kind != "missing"
		attempt := true
		switch o.Overwrite {
		case "if-newer":
			attempt = !exists || s.MtimeRel < 0
		case "never":
			attempt = !exists
		}
		switch {
		case f.Name == o.Exclude || !attempt:
			expect[i] = xUntouched
		case o.Overwrite == "if-changed" && s.Kind == "reg" && len(s.old) == len(f.want) && s.MtimeRel == 0:
			expect[i] = xTrusted
		default:
			expect[i] = xSnapshot
			if s.Kind == "dir-nonempty" && !o.Delete {
				wantErr = true
			}
		}
	}

	rerr := e.Restore(snapID+":"+filepath.ToSlash(src), target, o.restoreOptions())

	add := func(c ...string) { classes = append(classes, c...) }
	add("overwrite="+o.Overwrite, fmt.Sprintf("sparse=%v", o.Sparse), fmt.Sprintf("delete=%v", o.Delete))
	// whatever happened: files outside the target keep their bytes
	for i, p := range sibling {
		b, err := os.ReadFile(p)
		if err != nil || !bytes.Equal(b, states[i].old) {
			return fmt.Sprintf("%s: hard-linked sibling outside the target changed (err %v, %d bytes, first difference at %d)", files[i].Name, err, len(b), vFirstDiffC19(b, states[i].old)), classes, nil
		}
	}
	for i, p := range victim {
		b, err := os.ReadFile(p)
		if err != nil || string(b) != "victim data, must survive" {
			return fmt.Sprintf("%s: the file the pre-existing symlink points to changed (err %v, %q)", files[i].Name, err, b), classes, nil
		}
	}
	if rerr != nil {
		if !wantErr {
			return fmt.Sprintf("restore failed: %v", rerr), classes, nil
		}
		add("result=error-nonempty-dir-without-delete")
		return "", classes, nil
	}
	if wantErr {
		return "restore reported success although a non-empty directory was in the way of a file without --delete", classes, nil
	}
	add("result=ok")

	for i, f := range files {
		s := states[i]
		p := filepath.Join(target, filepath.FromSlash(f.Name))
		after, err := vStatEntryC19(p)
		if err != nil {
			return "", nil, err
		}
		lbl := []string{"content=" + f.Recipe, "state=" + s.label(), "outcome=" + expect[i]}
		if s.Kind != "missing" {
			lbl = append(lbl, fmt.Sprintf("mtime-rel=%d", s.MtimeRel), "outcome="+expect[i]+"/"+o.Overwrite)
			if s.SubSecNs > 0 {
				lbl = append(lbl, "mtime-same-second-newer")
			}
		}
		if s.Kind == "reg" {
			if s.Hardlink {
				lbl = append(lbl, "hardlinked", "hardlinked/"+s.Rel)
			}
			if s.Mode != 0o644 {
				lbl = append(lbl, fmt.Sprintf("readonly=%04o", s.Mode))
			}
		}
		if len(f.blobs) >= 2 {
			lbl = append(lbl, "blobs>=2")
		}
		if f.zero > 0 {
			lbl = append(lbl, "zerochunk")
		}
		if f.rep {
			lbl = append(lbl, "repeatblob")
		}
		describe := func(what string) string {
			return fmt.Sprintf("%s (%s, %d bytes, blobs %v) over %s: %s", f.Name, f.Recipe, len(f.want), f.blobs, vJSON(s), what)
		}
		switch expect[i] {
		case xUntouched:
			if d := before[i].diff(after); d != "" {
				return describe("must be left untouched but " + d), classes, nil
			}
		case xTrusted:
			if !after.exists || !after.mode.IsRegular() || !bytes.Equal(after.data, s.old) {
				return describe(fmt.Sprintf("same size and mtime under if-changed: content expected to stay, but it changed (regular=%v, %d bytes)", after.mode.IsRegular(), len(after.data))), classes, nil
			}
			if !bytes.Equal(s.old, f.want) {
				lbl = append(lbl, "trusted-but-different")
			}
		case xSnapshot:
			if !after.exists || !after.mode.IsRegular() {
				return describe(fmt.Sprintf("not a regular file after restore (exists=%v mode=%v)", after.exists, after.mode)), classes, nil
			}
			if !bytes.Equal(after.data, f.want) {
				return describe(fmt.Sprintf("wrong content after restore: %d bytes, first difference at offset %d", len(after.data), vFirstDiffC19(after.data, f.want))), classes, nil
			}
			if o.Sparse {
				var stt syscall.Stat_t
				if syscall.Lstat(p, &stt) == nil && stt.Blocks*512 < stt.Size {
					lbl = append(lbl, "sparse-has-holes")
				}
				if s.Kind == "reg" && !s.Hardlink && f.zero > 0 {
					lbl = append(lbl, "sparse-over-existing-zerochunk")
				}
			}
		}
		add(lbl...)
	}
	// the extra file goes exactly with --delete
	if o.Stale {
		_, serr := os.Lstat(stale)
		if o.Delete == (serr == nil) {
			return fmt.Sprintf("file that is not in the snapshot: delete=%v but lstat says %v", o.Delete, serr), classes, nil
		}
	}
	return "", classes, nil
}

func vNamesC19(n int) []string {
	all := []string{"f0", "sub/f1", "f2", "sub/deep/f3"}
	return all[:n]
}

func vBackupC19(e *vEnv, files []*vFileC19) (snapID, src string, err error) {
	src = e.Scratch("src-")
	for _, f := range files {
		p := filepath.Join(src, filepath.FromSlash(f.Name))
		if err = os.MkdirAll(filepath.Dir(p), 0o755); err != nil {
			return
		}
		if err = os.WriteFile(p, f.want, 0o600); err != nil {
			return
		}
		if err = os.Chmod(p, os.FileMode(f.Mode)); err != nil {
			return
		}
		if err = vSetMtimeC19(p, f.Mtime, false); err != nil {
			return
		}
	}
	if err = e.Backup([]string{src}, BackupOptions{}); err != nil {
		return
	}
	snapID, err = vSnapInfoC19(e, src, files)
	return
}

func TestVerifC19Content(t *testing.T) {
	vSetup(t)
	st := verifkit.Begin(t, "C19")
	base, err := vNewEnv(true)
	if err != nil {
		t.Fatal(err)
	}
	defer base.Close()
	if err := base.Init("2"); err != nil {
		t.Fatal(err)
	}
	baseStore := base.store

	rapid.Check(t, func(t *rapid.T) {
		e := base.OnStore(baseStore.Clone())
		defer e.Release()
		var files []*vFileC19
		for _, name := range vNamesC19(rapid.IntRange(2, 4).Draw(t, "nfiles")) {
			files = append(files, vGenFileC19(t, name))
		}
		snapID, src, err := vBackupC19(e, files)
		if err != nil {
			t.Fatalf("backup: %v", err)
		}
		defer os.RemoveAll(src)

		rounds := rapid.IntRange(2, 4).Draw(t, "rounds")
		for r := 0; r < rounds; r++ {
			states := make([]*vStateC19, len(files))
			nt := false
			for i, f := range files {
				states[i] = vGenStateC19(t, f)
				if states[i].Kind != "missing" && (f.zero > 0 || len(f.blobs) >= 2) {
					nt = true
				}
			}
			o := vOptsC19{
				Overwrite: rapid.SampledFrom(vOverwritesC19).Draw(t, "overwrite"),
				Sparse:    rapid.Bool().Draw(t, "sparse"),
				Delete:    rapid.Bool().Draw(t, "delete"),
				Stale:     rapid.Bool().Draw(t, "stale"),
			}
			if rapid.IntRange(0, 4).Draw(t, "exclude") == 0 {
				o.Exclude = files[rapid.IntRange(0, len(files)-1).Draw(t, "excluded")].Name
			}
			viol, classes, err := vRoundC19(e, snapID, src, files, states, o)
			if err != nil {
				t.Fatalf("harness: %v", err)
			}
			desc := fmt.Sprintf("files %s states %s options %s", vJSON(files), vJSON(states), vJSON(o))
			key := ""
			if nt {
				key = desc
			}
			st.Case(key, classes...)
			if st.WantSample() {
				st.Sample(map[string]any{"files": files, "states": states, "options": o})
			}
			if viol != "" {
				t.Fatalf("%s\n options %s\n files %s\n states %s", viol, vJSON(o), vJSON(files), vJSON(states))
			}
		}
	})
}

// TestVerifC19Regression: fixed shapes, each under all overwrite x sparse x delete combinations.
//   - the defect repaired by 5d35cc40d: an existing file with a second hard link whose first blob
//     already matches (and variants: only the size differs);
//   - old data where the snapshot has an all-zero chunk, restored with --sparse;
//   - same size, other content: with and without the snapshot's mtime.
func TestVerifC19Regression(t *testing.T) {
	vSetup(t)
	st := verifkit.Begin(t, "C19")
	base, err := vNewEnv(true)
	if err != nil {
		t.Fatal(err)
	}
	defer base.Close()
	if err := base.Init("2"); err != nil {
		t.Fatal(err)
	}
	mk := func(name, recipe string, segs ...vSegC19) *vFileC19 {
		f := &vFileC19{Name: name, Recipe: recipe, Segs: segs, Mode: 0o644, Mtime: 1600000000}
		f.expand()
		return f
	}
	files := []*vFileC19{
		mk("f0", "blocks", vSegC19{K: 'b', Seed: 1, Len: 70000}, vSegC19{K: 'b', Seed: 2, Len: 140000}, vSegC19{K: 'r', Seed: 7, Len: 3000}),
		mk("sub/f1", "hole", vSegC19{K: 'r', Seed: 3, Len: 5000}, vSegC19{K: 'z', Len: 3 * vChunkC19}, vSegC19{K: 'r', Seed: 4, Len: 5000}),
		mk("f2", "zshort", vSegC19{K: 'z', Len: 100}, vSegC19{K: 'r', Seed: 5, Len: 100}),
	}
	e := base.OnStore(base.store.Clone())
	defer e.Release()
	snapID, src, err := vBackupC19(e, files)
	if err != nil {
		t.Fatal(err)
	}
	defer os.RemoveAll(src)
	if len(files[0].blobs) < 3 || files[1].zero < 1 {
		t.Fatalf("unexpected blob layout: %v %v (zero chunks %d)", files[0].blobs, files[1].blobs, files[1].zero)
	}
	last := func(f *vFileC19) int { return len(f.blobs) - 1 }
	zeroBlob := -1
	for i, b := range files[1].blobs {
		if b[1] == vChunkC19 && bytes.Equal(files[1].want[b[0]:b[0]+b[1]], make([]byte, vChunkC19)) {
			zeroBlob = i
		}
	}
	shapes := [][]*vStateC19{
		{ // first blob matches, hard-linked
			{Kind: "reg", Rel: "partial", Mode: 0o644, Hardlink: true, Corrupt: []int{last(files[0])}, Seed: 4, MtimeRel: -1},
			{Kind: "reg", Rel: "longer-tail", Mode: 0o644, Hardlink: true, Cut: 10, Seed: 4, MtimeRel: -1},
			{Kind: "reg", Rel: "shorter", Mode: 0o644, Hardlink: true, Cut: 150, Seed: 4, MtimeRel: -1},
		},
		{ // old data in the place of a zero chunk / a zero prefix
			{Kind: "reg", Rel: "identical", Mode: 0o444, MtimeRel: 1},
			{Kind: "reg", Rel: "partial", Mode: 0o644, Corrupt: []int{zeroBlob}, Seed: 4, MtimeRel: -1},
			{Kind: "reg", Rel: "diff", Mode: 0o644, Corrupt: []int{0}, Seed: 4, MtimeRel: -1},
		},
		{ // same size, other content, with the snapshot's mtime / another mtime
			{Kind: "reg", Rel: "diff", Mode: 0o644, Corrupt: []int{0, 1, 2}, Seed: 4, MtimeRel: 0},
			{Kind: "reg", Rel: "partial", Mode: 0o000, Corrupt: []int{0}, Seed: 5, MtimeRel: 1},
			{Kind: "reg", Rel: "diff", Mode: 0o644, Corrupt: []int{0}, Seed: 4, MtimeRel: 0},
		},
	}
	n := 0
	for si, states := range shapes {
		for _, ow := range vOverwritesC19 {
			for _, sparse := range []bool{false, true} {
				for _, del := range []bool{false, true} {
					n++
					if n%verifkit.Shards() != verifkit.Shard() {
						continue
					}
					o := vOptsC19{Overwrite: ow, Sparse: sparse, Delete: del}
					cp := make([]*vStateC19, len(states))
					for i := range states {
						c := *states[i]
						cp[i] = &c
					}
					viol, _, err := vRoundC19(e, snapID, src, files, cp, o)
					if err != nil {
						t.Fatalf("harness: %v", err)
					}
					st.Case(fmt.Sprintf("probe %d %s", si, vJSON(o)), "probe")
					if viol != "" {
						t.Fatalf("probe %d: %s\n options %s", si, viol, vJSON(o))
					}
				}
			}
		}
	}
}
