package main

// Shared CLI-level helpers of the /verif harness (compiled into every check hosted
// in cmd/restic). Everything here returns errors instead of failing the outer test,
// so it can be used from inside rapid properties.

import (
	"bytes"
	"context"
	"crypto/sha256"
	"encoding/json"
	"fmt"
	"io"
	"math/rand/v2"
	"os"
	"path/filepath"
	"sort"
	"strings"
	"sync"
	"sync/atomic"
	"syscall"
	"testing"
	"time"

	"github.com/restic/restic/internal/backend"
	"github.com/restic/restic/internal/backend/all"
	"github.com/restic/restic/internal/backend/layout"
	"github.com/restic/restic/internal/backend/retry"
	"github.com/restic/restic/internal/data"
	"github.com/restic/restic/internal/global"
	"github.com/restic/restic/internal/options"
	"github.com/restic/restic/internal/repository"
	"github.com/restic/restic/internal/restic"
	"github.com/restic/restic/internal/ui/progress"
	"github.com/restic/restic/internal/ui/termstatus"
	"github.com/restic/restic/internal/verifkit/vbe"
	"pgregory.net/rapid"
)

const vPassword = "verif-pw"

var vSetupOnce sync.Once

// vSetup applies the process-wide test settings the stock integration tests use
// (cheap KDF, fast retries, no 200ms lock wait). Call with the OUTER *testing.T.
func vSetup(t testing.TB) {
	repository.TestUseLowSecurityKDFParameters(t)
	restic.TestDisableCheckPolynomial(t)
	retry.TestFastRetries(t)
	layout.TestDisablePackSubdirs(t)
	repository.TestSetLockTimeout(t, 0)
}

// vEnv is one repository location plus scratch space.
type vEnv struct {
	base  string // scratch directory of this environment (removed by Close)
	gopts global.Options
	store *vbe.Store // nil for local repositories
}

// vNewEnv creates an environment. vmem=true: repository on the recording in-memory
// harness backend (no cache); false: a local repository directory with a cache dir.
func vNewEnv(vmem bool) (*vEnv, error) {
	base, err := os.MkdirTemp("", "verif-env-")
	if err != nil {
		return nil, err
	}
	e := &vEnv{base: base}
	reg := all.Backends()
	reg.Register(vbe.Factory())
	e.gopts = global.Options{
		Quiet:       true,
		Password:    vPassword,
		Extended:    make(options.Options),
		Compression: repository.CompressionAuto,
		Backends:    reg,
	}
	if vmem {
		e.store = vbe.New()
		e.gopts.Repo = vbe.RegisterAuto(e.store)
		e.gopts.NoCache = true
	} else {
		e.gopts.Repo = filepath.Join(base, "repo")
		e.gopts.CacheDir = filepath.Join(base, "cache")
		if err := os.MkdirAll(e.gopts.CacheDir, 0o700); err != nil {
			return nil, err
		}
	}
	return e, nil
}

// OnStore returns a copy of e that operates on another store (e.g. a crash state).
func (e *vEnv) OnStore(s *vbe.Store) *vEnv {
	n := *e
	n.store = s
	n.gopts.Repo = vbe.RegisterAuto(s)
	n.gopts.Extended = make(options.Options)
	return &n
}

// ReplaceStore makes the environment's location point to another store.
func (e *vEnv) ReplaceStore(s *vbe.Store) {
	e.store = s
	vbe.Register(strings.TrimPrefix(e.gopts.Repo, "vmem:"), s)
}

// Release forgets the vmem registration of a derived environment.
func (e *vEnv) Release() {
	if e.store != nil {
		vbe.Unregister(e.gopts.Repo)
	}
}

// Close removes scratch space and the registration.
func (e *vEnv) Close() {
	e.Release()
	_ = os.RemoveAll(e.base)
}

// Scratch returns a fresh directory below the environment.
func (e *vEnv) Scratch(prefix string) string {
	d, err := os.MkdirTemp(e.base, prefix)
	if err != nil {
		panic(err)
	}
	return d
}

// vOut is the captured output of one command.
type vOut struct {
	Stdout, Stderr string
}

// call runs fn like the CLI does (terminal set up, context), capturing output.
func (e *vEnv) call(gopts global.Options, fn func(ctx context.Context, gopts global.Options) error) (vOut, error) {
	return e.callCtx(context.Background(), gopts, fn)
}

func (e *vEnv) callCtx(parent context.Context, gopts global.Options, fn func(ctx context.Context, gopts global.Options) error) (vOut, error) {
	var so, se bytes.Buffer
	term, cancelTerm := termstatus.Setup(io.NopCloser(strings.NewReader("")), &so, &se, gopts.Quiet)
	gopts.Term = term
	ctx, cancel := context.WithCancel(parent)
	err := fn(ctx, gopts)
	cancel()
	cancelTerm()
	return vOut{so.String(), se.String()}, err
}

func (e *vEnv) Init(version string) error {
	_, err := e.call(e.gopts, func(ctx context.Context, gopts global.Options) error {
		return runInit(ctx, InitOptions{RepositoryVersion: version}, gopts, nil, gopts.Term)
	})
	return err
}

// Backup backs up the absolute paths in targets.
func (e *vEnv) Backup(targets []string, opts BackupOptions) error {
	_, err := e.BackupOut(context.Background(), e.gopts, targets, opts)
	return err
}

func (e *vEnv) BackupOut(ctx context.Context, gopts global.Options, targets []string, opts BackupOptions) (vOut, error) {
	if !opts.GroupBy.Host && !opts.GroupBy.Path && !opts.GroupBy.Tag {
		opts.GroupBy = data.SnapshotGroupByOptions{Host: true, Path: true}
	}
	if opts.Host == "" {
		opts.Host = "vhost"
	}
	return e.callCtx(ctx, gopts, func(ctx context.Context, gopts global.Options) error {
		return runBackup(ctx, opts, gopts, gopts.Term, targets)
	})
}

// Restore restores snapshot (an ID, "latest", or "id:subfolder") into target.
func (e *vEnv) Restore(snapshot, target string, opts RestoreOptions) error {
	opts.Target = target
	_, err := e.call(e.gopts, func(ctx context.Context, gopts global.Options) error {
		return runRestore(ctx, opts, gopts, gopts.Term, []string{snapshot})
	})
	return err
}

// Check runs `check` (with --read-data if readData) and returns its error, if any.
func (e *vEnv) Check(readData bool) (vOut, error) {
	g := e.gopts
	g.Quiet = false
	return e.call(g, func(ctx context.Context, gopts global.Options) error {
		_, err := runCheck(ctx, CheckOptions{ReadData: readData, CheckUnused: false}, gopts, nil, gopts.Term)
		return err
	})
}

func (e *vEnv) Prune(opts PruneOptions) error {
	if opts.MaxUnused == "" {
		opts.MaxUnused = "5%"
	}
	_, err := e.call(e.gopts, func(ctx context.Context, gopts global.Options) error {
		return runPrune(ctx, opts, gopts, gopts.Term)
	})
	return err
}

func (e *vEnv) Forget(opts ForgetOptions, popts PruneOptions, args ...string) (vOut, error) {
	if popts.MaxUnused == "" {
		popts.MaxUnused = "5%"
	}
	return e.call(e.gopts, func(ctx context.Context, gopts global.Options) error {
		return runForget(ctx, opts, popts, gopts, gopts.Term, args)
	})
}

// Snapshots loads all snapshots (sorted by time, then ID) by opening the repository without a lock.
func (e *vEnv) Snapshots() ([]*data.Snapshot, error) {
	var out []*data.Snapshot
	err := e.WithRepo(func(ctx context.Context, repo *repository.Repository) error {
		return data.ForAllSnapshots(ctx, repo, repo, nil, func(id restic.ID, sn *data.Snapshot, err error) error {
			if err != nil {
				return err
			}
			out = append(out, sn)
			return nil
		})
	})
	sort.Slice(out, func(i, j int) bool {
		if !out[i].Time.Equal(out[j].Time) {
			return out[i].Time.Before(out[j].Time)
		}
		return out[i].ID().String() < out[j].ID().String()
	})
	return out, err
}

// SnapshotIDs lists snapshot file names.
func (e *vEnv) SnapshotIDs() ([]string, error) {
	sns, err := e.Snapshots()
	var ids []string
	for _, sn := range sns {
		ids = append(ids, sn.ID().String())
	}
	sort.Strings(ids)
	return ids, err
}

// WithRepo opens the repository READ-ONLY (no lock => dry-run mode: writes are dropped; index not loaded) and calls fn.
func (e *vEnv) WithRepo(fn func(ctx context.Context, repo *repository.Repository) error) error {
	g := e.gopts
	_, err := e.call(g, func(ctx context.Context, gopts global.Options) error {
		printer := progress.NewTerminalPrinter(false, 0, gopts.Term)
		ctx, repo, unlock, err := openWithReadLock(ctx, gopts, true, printer)
		if err != nil {
			return err
		}
		defer unlock()
		return fn(ctx, repo)
	})
	return err
}

// WithRepoRW opens the repository for writing (takes a normal non-exclusive lock) and calls fn.
// WithRepo, in contrast, opens without lock, which puts the repository into dry-run mode:
// every write through it is silently dropped.
func (e *vEnv) WithRepoRW(fn func(ctx context.Context, repo *repository.Repository) error) error {
	_, err := e.call(e.gopts, func(ctx context.Context, gopts global.Options) error {
		printer := progress.NewTerminalPrinter(false, 0, gopts.Term)
		ctx, repo, unlock, err := openWithAppendLock(ctx, gopts, false, printer)
		if err != nil {
			return err
		}
		defer unlock()
		return fn(ctx, repo)
	})
	return err
}

// Files returns name -> content of every file of the repository location,
// for both kinds of environment (keys "type/name").
func (e *vEnv) Files() (map[string][]byte, error) {
	out := map[string][]byte{}
	if e.store != nil {
		for k, v := range e.store.Files() {
			out[k.String()] = v
		}
		return out, nil
	}
	err := filepath.Walk(e.gopts.Repo, func(p string, fi os.FileInfo, err error) error {
		if err != nil {
			return err
		}
		if fi.Mode().IsRegular() {
			b, err := os.ReadFile(p)
			if err != nil {
				return err
			}
			rel, _ := filepath.Rel(e.gopts.Repo, p)
			out[rel] = b
		}
		return nil
	})
	return out, err
}

// ---------------------------------------------------------------------------
// Source trees on the real file system and their model.

// vNode is one entry of a model tree.
type vNode struct {
	Kind   byte   `json:"kind"` // 'f' file, 'd' dir, 'l' symlink
	Seed   uint64 `json:"seed,omitempty"`
	Len    int    `json:"len,omitempty"`
	Zeros  bool   `json:"zeros,omitempty"` // content is all zero
	Mode   uint32 `json:"mode"`            // permission bits
	Mtime  int64  `json:"mtime"`           // unix nanoseconds
	Target string `json:"target,omitempty"`
	Sum    string `json:"sum,omitempty"` // content hash when read back from disk
}

// vTree maps slash-separated relative paths to nodes. Parent directories are explicit.
type vTree map[string]*vNode

// vContent expands (seed,len) deterministically.
func vContent(n *vNode) []byte {
	b := make([]byte, n.Len)
	if n.Zeros {
		return b
	}
	r := rand.New(rand.NewPCG(n.Seed, 0x5eed))
	i := 0
	for ; i+8 <= len(b); i += 8 {
		v := r.Uint64()
		b[i], b[i+1], b[i+2], b[i+3], b[i+4], b[i+5], b[i+6], b[i+7] = byte(v), byte(v>>8), byte(v>>16), byte(v>>24), byte(v>>32), byte(v>>40), byte(v>>48), byte(v>>56)
	}
	for ; i < len(b); i++ {
		b[i] = byte(r.Uint32())
	}
	return b
}

func vSum(b []byte) string { h := sha256.Sum256(b); return fmt.Sprintf("%x", h[:12]) }

// vTreeGen controls vGenTree.
type vTreeGen struct {
	MaxEntries int
	MaxFileLen int      // most files are far smaller
	Names      []string // component alphabet
	Symlinks   bool
	ContentPool int     // >0: file contents are drawn from a pool of that many seeds (sharing / dedup)
}

// vGenTree draws a tree: directories to depth 3, files with pooled or fresh contents.
func vGenTree(t *rapid.T, g vTreeGen) vTree {
	if g.MaxEntries == 0 {
		g.MaxEntries = 12
	}
	if g.MaxFileLen == 0 {
		g.MaxFileLen = 3000
	}
	if g.Names == nil {
		g.Names = []string{"a", "b", "c", "d", "e.txt", "f.txt", "g.dat", "sub", "x y", "über"}
	}
	tr := vTree{}
	dirs := []string{""}
	n := rapid.IntRange(1, g.MaxEntries).Draw(t, "entries")
	for i := 0; i < n; i++ {
		parent := dirs[rapid.IntRange(0, len(dirs)-1).Draw(t, "parent")]
		name := rapid.SampledFrom(g.Names).Draw(t, "name")
		p := name
		if parent != "" {
			p = parent + "/" + name
		}
		if _, ok := tr[p]; ok {
			continue
		}
		mt := int64(1500000000+rapid.IntRange(0, 100000000).Draw(t, "mt"))*1e9 + int64(rapid.IntRange(0, 999).Draw(t, "mtns"))*1000
		kind := rapid.IntRange(0, 9).Draw(t, "kind")
		switch {
		case kind <= 2 && strings.Count(p, "/") < 3:
			tr[p] = &vNode{Kind: 'd', Mode: uint32(rapid.SampledFrom([]int{0o755, 0o700, 0o750}).Draw(t, "dmode")), Mtime: mt}
			dirs = append(dirs, p)
		case kind == 3 && g.Symlinks:
			tr[p] = &vNode{Kind: 'l', Target: rapid.SampledFrom([]string{"a", "../b", "nonexistent", "/dev/null"}).Draw(t, "lt"), Mtime: mt, Mode: 0o777}
		default:
			nd := &vNode{Kind: 'f', Mode: uint32(rapid.SampledFrom([]int{0o644, 0o600, 0o755, 0o444}).Draw(t, "fmode")), Mtime: mt}
			if g.ContentPool > 0 {
				nd.Seed = uint64(rapid.IntRange(1, g.ContentPool).Draw(t, "pool"))
				nd.Len = 200 + int(nd.Seed%7)*311
			} else {
				nd.Seed = rapid.Uint64().Draw(t, "seed")
				nd.Len = rapid.OneOf(rapid.IntRange(0, 64), rapid.IntRange(0, g.MaxFileLen)).Draw(t, "len")
			}
			tr[p] = nd
		}
	}
	return tr
}

// Paths returns the sorted paths.
func (tr vTree) Paths() []string {
	ps := make([]string, 0, len(tr))
	for p := range tr {
		ps = append(ps, p)
	}
	sort.Strings(ps)
	return ps
}

// Clone deep-copies the tree.
func (tr vTree) Clone() vTree {
	n := vTree{}
	for p, nd := range tr {
		c := *nd
		n[p] = &c
	}
	return n
}

// String is a compact canonical form (for case keys and samples).
func (tr vTree) String() string {
	var sb strings.Builder
	for _, p := range tr.Paths() {
		nd := tr[p]
		switch nd.Kind {
		case 'd':
			fmt.Fprintf(&sb, "%s/ ", p)
		case 'l':
			fmt.Fprintf(&sb, "%s->%s ", p, nd.Target)
		default:
			fmt.Fprintf(&sb, "%s(%d:%x) ", p, nd.Len, nd.Seed&0xffff)
		}
	}
	return sb.String()
}

// Materialize writes the tree below root (which must exist and be empty).
func (tr vTree) Materialize(root string) error {
	ps := tr.Paths()
	for _, p := range ps {
		nd := tr[p]
		full := filepath.Join(root, filepath.FromSlash(p))
		switch nd.Kind {
		case 'd':
			if err := os.Mkdir(full, 0o700); err != nil {
				return err
			}
		case 'l':
			if err := os.Symlink(nd.Target, full); err != nil {
				return err
			}
		default:
			if err := os.WriteFile(full, vContent(nd), 0o600); err != nil {
				return err
			}
		}
	}
	// metadata, children before parents
	for i := len(ps) - 1; i >= 0; i-- {
		nd := tr[ps[i]]
		full := filepath.Join(root, filepath.FromSlash(ps[i]))
		ts := []syscall.Timespec{syscall.NsecToTimespec(nd.Mtime), syscall.NsecToTimespec(nd.Mtime)}
		if nd.Kind != 'l' {
			if err := os.Chmod(full, os.FileMode(nd.Mode)); err != nil {
				return err
			}
			if err := syscall.UtimesNano(full, ts); err != nil {
				return err
			}
		} else {
			_ = vLutimes(full, nd.Mtime)
		}
	}
	return nil
}

// vReadTree reads a directory back into a model (content as hash).
func vReadTree(root string) (vTree, error) {
	tr := vTree{}
	err := filepath.Walk(root, func(p string, fi os.FileInfo, err error) error {
		if err != nil {
			return err
		}
		rel, _ := filepath.Rel(root, p)
		if rel == "." {
			return nil
		}
		rel = filepath.ToSlash(rel)
		nd := &vNode{Mode: uint32(fi.Mode().Perm()), Mtime: fi.ModTime().UnixNano()}
		switch {
		case fi.IsDir():
			nd.Kind = 'd'
		case fi.Mode()&os.ModeSymlink != 0:
			nd.Kind = 'l'
			nd.Target, _ = os.Readlink(p)
			nd.Mode = 0o777
		case fi.Mode().IsRegular():
			nd.Kind = 'f'
			b, err := os.ReadFile(p)
			if err != nil {
				return err
			}
			nd.Len = len(b)
			nd.Sum = vSum(b)
		default:
			nd.Kind = '?'
		}
		tr[rel] = nd
		return nil
	})
	return tr, err
}

// vTreeDiff compares a model tree with a tree read back from disk; "" if equal.
// Compared: path set, kind, content, size, permission bits, mtime, link target.
func vTreeDiff(want, got vTree, withMeta bool) string {
	var diffs []string
	for _, p := range want.Paths() {
		w := want[p]
		g, ok := got[p]
		if !ok {
			diffs = append(diffs, "missing "+p)
			continue
		}
		if w.Kind != g.Kind {
			diffs = append(diffs, fmt.Sprintf("%s: kind %c != %c", p, g.Kind, w.Kind))
			continue
		}
		if w.Kind == 'f' {
			ws := w.Sum
			if ws == "" {
				ws = vSum(vContent(w))
			}
			if w.Len != g.Len || ws != g.Sum {
				diffs = append(diffs, fmt.Sprintf("%s: content differs (len %d vs %d)", p, g.Len, w.Len))
			}
		}
		if w.Kind == 'l' && w.Target != g.Target {
			diffs = append(diffs, fmt.Sprintf("%s: target %q != %q", p, g.Target, w.Target))
		}
		if withMeta {
			if w.Kind != 'l' && w.Mode != g.Mode {
				diffs = append(diffs, fmt.Sprintf("%s: mode %o != %o", p, g.Mode, w.Mode))
			}
			if w.Mtime != g.Mtime {
				diffs = append(diffs, fmt.Sprintf("%s: mtime %d != %d", p, g.Mtime, w.Mtime))
			}
		}
	}
	for _, p := range got.Paths() {
		if _, ok := want[p]; !ok {
			diffs = append(diffs, "unexpected "+p)
		}
	}
	if len(diffs) > 8 {
		diffs = append(diffs[:8], fmt.Sprintf("... %d more", len(diffs)-8))
	}
	return strings.Join(diffs, "; ")
}

// RestoreEq restores the snapshot that was made from srcDir (an absolute path) and
// compares the result with the model. "" if equal.
func (e *vEnv) RestoreEq(snapshotID, srcDir string, want vTree) (string, error) {
	target := e.Scratch("restore-")
	defer os.RemoveAll(target)
	if err := e.Restore(snapshotID+":"+filepath.ToSlash(srcDir), target, RestoreOptions{}); err != nil {
		return "", fmt.Errorf("restore %s: %w", snapshotID[:8], err)
	}
	got, err := vReadTree(target)
	if err != nil {
		return "", err
	}
	return vTreeDiff(want, got, true), nil
}

// vJSON renders v compactly (samples).
func vJSON(v any) string { b, _ := json.Marshal(v); return string(b) }

// vTimeString formats a time the way `backup --time` wants it.
func vTimeString(t time.Time) string { return t.Format("2006-01-02 15:04:05") }

var _ = backend.Handle{}

// vFailOneBackend fails exactly the n-th logical mutating operation (Save/Remove, counted
// ABOVE the retry layer: install it through gopts.BackendTestHook) for good and lets everything
// else through: an outage of one request that outlasts the retry budget while later requests
// work again. This is the fault shape that exposes swallowed errors; a crash prefix cannot.
type vFailOneBackend struct {
	backend.Backend
	n, cnt int64
	hitOp  atomic.Value // description of the failed operation
}

func (b *vFailOneBackend) hit() bool { return atomic.AddInt64(&b.cnt, 1)-1 == b.n }

func (b *vFailOneBackend) Save(ctx context.Context, h backend.Handle, rd backend.RewindReader) error {
	if b.hit() {
		b.hitOp.Store("save " + h.String())
		return fmt.Errorf("verif: injected permanent failure of save %v", h)
	}
	return b.Backend.Save(ctx, h, rd)
}

func (b *vFailOneBackend) Remove(ctx context.Context, h backend.Handle) error {
	if b.hit() {
		b.hitOp.Store("remove " + h.String())
		return fmt.Errorf("verif: injected permanent failure of remove %v", h)
	}
	return b.Backend.Remove(ctx, h)
}

func (b *vFailOneBackend) Unwrap() backend.Backend { return b.Backend }

// WithFailOne returns a copy of e whose commands run with the k-th logical Save/Remove failing
// for good; hit() of the returned function reports which operation was failed ("" if none).
func (e *vEnv) WithFailOne(k int) (*vEnv, func() string) {
	n := *e
	fb := &vFailOneBackend{n: int64(k)}
	n.gopts.BackendTestHook = func(be backend.Backend) (backend.Backend, error) {
		fb.Backend = be
		return fb, nil
	}
	return &n, func() string {
		if v, ok := fb.hitOp.Load().(string); ok {
			return v
		}
		return ""
	}
}

// vNewID returns the element of after that is not in before ("" if none).
func vNewID(before, after []string) string {
	seen := map[string]bool{}
	for _, b := range before {
		seen[b] = true
	}
	for _, a := range after {
		if !seen[a] {
			return a
		}
	}
	return ""
}

// vRange returns [0, 1, ..., n-1].
func vRange(n int) []int {
	r := make([]int, n)
	for i := range r {
		r[i] = i
	}
	return r
}
