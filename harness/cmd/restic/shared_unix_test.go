package main

import (
	"golang.org/x/sys/unix"
)

// vLutimes sets the mtime of a symlink itself.
func vLutimes(path string, ns int64) error {
	ts := []unix.Timespec{unix.NsecToTimespec(ns), unix.NsecToTimespec(ns)}
	return unix.UtimesNanoAt(unix.AT_FDCWD, path, ts, unix.AT_SYMLINK_NOFOLLOW)
}
