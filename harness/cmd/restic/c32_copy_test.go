package main

// C32: copy transfers snapshots faithfully and idempotently.
//
// rapid draws a source repository (v1/v2, 2-4 real backups of one directory over a shared
// content pool => snapshots share blobs; then 0-2 of: `tag --add` (replaces a snapshot, keeps
// `original`), `rewrite --new-host` / `rewrite --exclude <abs path>` with or without --forget
// (so `original` chains exist and an original and its rewrite coexist) and a destination
// (v1/v2, own random chunker polynomial or `init --copy-chunker-params`, other password,
// compression mode; empty / with an own backup that shares blobs / with an earlier partial
// copy / both; plus, in two thirds of the cases, ORPHANED TREES: tree blobs (root and inner
// trees, drawn) of the snapshots to copy stored and indexed in the destination without their
// subtrees/data, either written directly or left by an earlier copy that died between its pack
// uploads followed by `repair index`). `copy --from-repo SRC` (runCopy) is recorded on the destination: EVERY prefix
// of the destination's Save/Remove log is rebuilt as a crash state. Then copy runs a second
// time, and once more from a drawn crash state (resume after interruption).

import (
	"context"
	"fmt"
	"os"
	"path/filepath"
	"sort"
	"strings"
	"sync"
	"testing"

	"github.com/restic/restic/internal/backend"
	"github.com/restic/restic/internal/data"
	"github.com/restic/restic/internal/global"
	"github.com/restic/restic/internal/repository"
	"github.com/restic/restic/internal/restic"
	"github.com/restic/restic/internal/verifkit"
	"github.com/restic/restic/internal/verifkit/vbe"
	"pgregory.net/rapid"
)

const vDstPwC32 = "dst-password"

// vSnapModelC32 is what a snapshot must restore to.
type vSnapModelC32 struct {
	Dir  string // absolute directory that was backed up
	Tree vTree
}

type vScenarioC32 struct {
	SrcVersion string   `json:"src_version"`
	DstVersion string   `json:"dst_version"`
	Chunker    string   `json:"chunker"` // own | copied
	Prepop     string   `json:"prepop"`  // empty | own | partial | own+partial
	Backups    int      `json:"backups"`
	Mods       []string `json:"mods"`
	Comp       string   `json:"dst_compression"`
	Orphans    string   `json:"orphans"` // none | inject | crash-repair: tree blobs in the destination whose subtrees/data are missing
}

func vCopyC32(dst, src *vEnv, ctx context.Context, ids []string) (vOut, error) {
	opts := CopyOptions{SecondaryRepoOptions: global.SecondaryRepoOptions{Repo: src.gopts.Repo, Password: src.gopts.Password}}
	g := dst.gopts
	g.Quiet = false
	g.Verbosity = 2
	return dst.callCtx(ctx, g, func(ctx context.Context, gopts global.Options) error {
		return runCopy(ctx, opts, gopts, ids, gopts.Term)
	})
}

func vOrigOfC32(sn *data.Snapshot) string {
	if sn.Original != nil && !sn.Original.IsNull() {
		return sn.Original.String()
	}
	return sn.ID().String()
}

func vSortedC32(l []string) string {
	c := append([]string{}, l...)
	sort.Strings(c)
	return strings.Join(c, "\x00")
}

// vIsCopyOfC32: d is a faithful copy of source snapshot s.
func vIsCopyOfC32(d, s *data.Snapshot) bool {
	return d.Original != nil && d.Original.String() == vOrigOfC32(s) &&
		d.Tree != nil && s.Tree != nil && d.Tree.Equal(*s.Tree) && d.Time.Equal(s.Time) &&
		d.Hostname == s.Hostname && d.Username == s.Username && vSortedC32(d.Paths) == vSortedC32(s.Paths) &&
		vSortedC32(d.Tags) == vSortedC32(s.Tags) && vSortedC32(d.Excludes) == vSortedC32(s.Excludes)
}

func vSnapDescC32(sn *data.Snapshot) string {
	o := "-"
	if sn.Original != nil {
		o = sn.Original.Str()
	}
	p := "-"
	if sn.Parent != nil {
		p = sn.Parent.Str()
	}
	return fmt.Sprintf("%s(tree %s host %s tags %v orig %s parent %s)", sn.ID().Str(), sn.Tree.Str(), sn.Hostname, sn.Tags, o, p)
}

func vSnapsDescC32(sns []*data.Snapshot) string {
	var l []string
	for _, sn := range sns {
		l = append(l, vSnapDescC32(sn))
	}
	return strings.Join(l, "\n    ")
}

// vMatchC32 maps every source snapshot to its copies in the destination.
func vMatchC32(srcSns, dstSns []*data.Snapshot) map[string][]*data.Snapshot {
	m := map[string][]*data.Snapshot{}
	for _, s := range srcSns {
		for _, d := range dstSns {
			if vIsCopyOfC32(d, s) {
				m[s.ID().String()] = append(m[s.ID().String()], d)
			}
		}
	}
	return m
}

// vDstStateOKC32: `check --read-data` passes and every listed snapshot restores to its model.
// dstModels knows every snapshot that may legitimately be listed.
func vDstStateOKC32(dst *vEnv, s *vbe.Store, dstModels map[string]vSnapModelC32, allowed map[string]bool, restore bool) ([]string, error) {
	return vDstStateOKrdC32(dst, s, dstModels, allowed, restore, restore)
}

func vDstStateOKrdC32(dst *vEnv, s *vbe.Store, dstModels map[string]vSnapModelC32, allowed map[string]bool, restore, readData bool) ([]string, error) {
	s.DropLocks()
	se := dst.OnStore(s)
	defer se.Release()
	ids := s.Keys(backend.SnapshotFile)
	for _, id := range ids {
		if !allowed[id] {
			return ids, fmt.Errorf("snapshot %s is neither a pre-existing snapshot nor one of the copies of the completed run", id[:8])
		}
	}
	if out, err := se.Check(readData); err != nil {
		return ids, fmt.Errorf("check (read-data=%v): %v\n%s%s", readData, err, out.Stdout, out.Stderr)
	}
	if restore {
		for _, id := range ids {
			m, ok := dstModels[id]
			if !ok {
				return ids, fmt.Errorf("no model for destination snapshot %s", id[:8])
			}
			d, err := se.RestoreEq(id, m.Dir, m.Tree)
			if err != nil {
				return ids, err
			}
			if d != "" {
				return ids, fmt.Errorf("destination snapshot %s restores differently: %s", id[:8], d)
			}
		}
	}
	return ids, nil
}

func vExcludeC32(tr vTree, p string) vTree {
	n := vTree{}
	for q, nd := range tr {
		if q == p || strings.HasPrefix(q, p+"/") {
			continue
		}
		c := *nd
		n[q] = &c
	}
	return n
}

// vEvolveTreeC32 applies 1-3 edits (add a file, delete a path, change a file's content) to a copy of prev.
func vEvolveTreeC32(t *rapid.T, prev vTree) vTree {
	tr := prev.Clone()
	n := rapid.IntRange(1, 3).Draw(t, "edits")
	for i := 0; i < n; i++ {
		ps := tr.Paths()
		kind := rapid.SampledFrom([]string{"add", "add", "del", "mod"}).Draw(t, "edit")
		if len(ps) == 0 {
			kind = "add"
		}
		switch kind {
		case "add":
			dirs := []string{""}
			for _, q := range ps {
				if tr[q].Kind == 'd' {
					dirs = append(dirs, q+"/")
				}
			}
			q := dirs[rapid.IntRange(0, len(dirs)-1).Draw(t, "adddir")] + rapid.SampledFrom([]string{"n1", "n2", "n 3", "a", "e.txt"}).Draw(t, "addname")
			if _, ok := tr[q]; ok {
				continue
			}
			seed := uint64(rapid.IntRange(1, 8).Draw(t, "addpool"))
			tr[q] = &vNode{Kind: 'f', Seed: seed, Len: 200 + int(seed%7)*311, Mode: 0o644, Mtime: int64(1600000000+rapid.IntRange(0, 1000000).Draw(t, "addmt")) * 1e9}
		case "del":
			q := ps[rapid.IntRange(0, len(ps)-1).Draw(t, "delpath")]
			tr = vExcludeC32(tr, q)
		case "mod":
			q := ps[rapid.IntRange(0, len(ps)-1).Draw(t, "modpath")]
			if tr[q].Kind != 'f' {
				continue
			}
			seed := uint64(rapid.IntRange(1, 8).Draw(t, "modpool"))
			tr[q].Seed, tr[q].Len, tr[q].Zeros = seed, 200+int(seed%7)*311, false
			tr[q].Mtime += 1e9
		}
	}
	return tr
}

// vTreeBlobC32 is one tree blob of a source snapshot (raw bytes as stored).
type vTreeBlobC32 struct {
	id   restic.ID
	root bool
	buf  []byte
}

// vSourceTreesC32 loads every tree blob (root and inner trees) of the given source snapshots.
func vSourceTreesC32(src *vEnv, sns []*data.Snapshot) ([]vTreeBlobC32, error) {
	var out []vTreeBlobC32
	err := src.WithRepo(func(ctx context.Context, repo *repository.Repository) error {
		if err := repo.LoadIndex(ctx, restic.NoopTerminalCounterFactory); err != nil {
			return err
		}
		roots := map[restic.ID]bool{}
		var rootIDs restic.IDs
		for _, sn := range sns {
			if !roots[*sn.Tree] {
				roots[*sn.Tree] = true
				rootIDs = append(rootIDs, *sn.Tree)
			}
		}
		seen := map[restic.ID]bool{}
		var ids restic.IDs
		var mu sync.Mutex
		err := data.StreamTrees(ctx, repo, rootIDs, restic.NoopCounter, func(id restic.ID) bool {
			mu.Lock()
			defer mu.Unlock()
			v := seen[id]
			seen[id] = true
			return v
		}, func(id restic.ID, err error, nodes data.TreeNodeIterator) error {
			if err != nil {
				return err
			}
			for item := range nodes {
				if item.Error != nil {
					return item.Error
				}
			}
			mu.Lock()
			ids = append(ids, id)
			mu.Unlock()
			return nil
		})
		if err != nil {
			return err
		}
		sort.Slice(ids, func(i, j int) bool { return ids[i].String() < ids[j].String() })
		for _, id := range ids {
			buf, err := repo.LoadBlob(ctx, restic.BlobHandle{Type: restic.TreeBlob, ID: id}, nil)
			if err != nil {
				return err
			}
			out = append(out, vTreeBlobC32{id: id, root: roots[id], buf: buf})
		}
		return nil
	})
	return out, err
}

// vInjectTreesC32 stores tree blobs in the destination WITHOUT what they refer to (indexed,
// unreferenced): the state an orphaned tree in a partly used pack after forget+prune leaves.
func vInjectTreesC32(dst *vEnv, trees []vTreeBlobC32) (int, error) {
	n := 0
	err := dst.WithRepoRW(func(ctx context.Context, repo *repository.Repository) error {
		if err := repo.LoadIndex(ctx, restic.NoopTerminalCounterFactory); err != nil {
			return err
		}
		return repo.WithBlobUploader(ctx, func(ctx context.Context, up restic.BlobSaverWithAsync) error {
			for _, tb := range trees {
				_, known, _, err := up.SaveBlob(ctx, restic.TreeBlob, tb.buf, tb.id, false)
				if err != nil {
					return err
				}
				if !known {
					n++
				}
			}
			return nil
		})
	})
	return n, err
}

// vKnownTreesC32 counts how many of the trees the destination index knows.
func vKnownTreesC32(dst *vEnv, trees []vTreeBlobC32) (int, error) {
	n := 0
	err := dst.WithRepo(func(ctx context.Context, repo *repository.Repository) error {
		if err := repo.LoadIndex(ctx, restic.NoopTerminalCounterFactory); err != nil {
			return err
		}
		for _, tb := range trees {
			if _, ok := repo.LookupBlobSize(restic.BlobHandle{Type: restic.TreeBlob, ID: tb.id}); ok {
				n++
			}
		}
		return nil
	})
	return n, err
}

func vPolynomialC32(e *vEnv) (string, uint, error) {
	var pol string
	var ver uint
	err := e.WithRepo(func(ctx context.Context, repo *repository.Repository) error {
		pol = repo.Config().ChunkerPolynomial.String()
		ver = repo.Config().Version
		return nil
	})
	return pol, ver, err
}

func TestVerifC32Copy(t *testing.T) {
	vSetup(t)
	st := verifkit.Begin(t, "C32")
	rapid.Check(t, func(t *rapid.T) {
		sc := vScenarioC32{
			SrcVersion: rapid.SampledFrom([]string{"1", "2", "2"}).Draw(t, "srcv"),
			DstVersion: rapid.SampledFrom([]string{"1", "2", "2"}).Draw(t, "dstv"),
			Chunker:    rapid.SampledFrom([]string{"own", "copied"}).Draw(t, "chunker"),
			Prepop:     rapid.SampledFrom([]string{"empty", "own", "partial", "partial", "own+partial"}).Draw(t, "prepop"),
			Orphans:    rapid.SampledFrom([]string{"inject", "crash-repair", "none", "crash-repair", "inject", "crash-repair", "none"}).Draw(t, "orphans"),
		}
		src, err := vNewEnv(true)
		if err != nil {
			t.Fatal(err)
		}
		defer src.Close()
		dst, err := vNewEnv(true)
		if err != nil {
			t.Fatal(err)
		}
		defer dst.Close()
		dst.gopts.Password = vDstPwC32
		dst.gopts.Compression = rapid.SampledFrom([]repository.CompressionMode{repository.CompressionAuto, repository.CompressionOff, repository.CompressionFastest}).Draw(t, "dstcomp")
		sc.Comp = dst.gopts.Compression.String()
		fail := func(format string, a ...any) {
			t.Helper()
			t.Fatalf("%s\nscenario: %s", fmt.Sprintf(format, a...), vJSON(sc))
		}

		// ---- source repository
		if err := src.Init(sc.SrcVersion); err != nil {
			fail("init source: %v", err)
		}
		srcDir := src.Scratch("src-")
		srcModels := map[string]vSnapModelC32{} // by source snapshot id (also removed ones)
		sc.Backups = rapid.IntRange(2, 4).Draw(t, "backups")
		var prevTree vTree
		for i := 0; i < sc.Backups; i++ {
			var tr vTree
			if prevTree == nil || rapid.IntRange(0, 3).Draw(t, "fresh") == 0 {
				tr = vGenTree(t, vTreeGen{MaxEntries: 10, ContentPool: 8, Symlinks: true})
			} else {
				tr = vEvolveTreeC32(t, prevTree) // the usual case: the next backup of a slightly changed directory
			}
			prevTree = tr
			_ = os.RemoveAll(srcDir)
			_ = os.Mkdir(srcDir, 0o755)
			if err := tr.Materialize(srcDir); err != nil {
				fail("materialize: %v", err)
			}
			bo := BackupOptions{Host: rapid.SampledFrom([]string{"h1", "h1", "h1", "h2"}).Draw(t, "host")}
			if rapid.IntRange(0, 2).Draw(t, "tagged") == 0 {
				bo.Tags = data.TagLists{data.TagList{rapid.SampledFrom([]string{"t1", "t2"}).Draw(t, "btag")}}
			}
			before, _ := src.SnapshotIDs()
			if err := src.Backup([]string{srcDir}, bo); err != nil {
				fail("source backup: %v", err)
			}
			after, _ := src.SnapshotIDs()
			id := vNewID(before, after)
			if id == "" {
				fail("no new source snapshot after backup %d", i)
			}
			srcModels[id] = vSnapModelC32{Dir: srcDir, Tree: tr}
		}
		// the chunker parameters are copied from the source before it is modified further
		// ---- destination repository
		if sc.Chunker == "copied" {
			_, err := dst.call(dst.gopts, func(ctx context.Context, gopts global.Options) error {
				return runInit(ctx, InitOptions{RepositoryVersion: sc.DstVersion, CopyChunkerParameters: true,
					SecondaryRepoOptions: global.SecondaryRepoOptions{Repo: src.gopts.Repo, Password: src.gopts.Password}}, gopts, nil, gopts.Term)
			})
			if err != nil {
				fail("init destination --copy-chunker-params: %v", err)
			}
		} else if err := dst.Init(sc.DstVersion); err != nil {
			fail("init destination: %v", err)
		}
		sp, _, err1 := vPolynomialC32(src)
		dp, dv, err2 := vPolynomialC32(dst)
		if err1 != nil || err2 != nil {
			fail("reading configs: %v %v", err1, err2)
		}
		if fmt.Sprint(dv) != sc.DstVersion {
			fail("destination version %d", dv)
		}
		if sc.Chunker == "copied" && sp != dp {
			fail("init --copy-chunker-params: destination polynomial %s, source %s", dp, sp)
		}
		st.Class(fmt.Sprintf("same-polynomial=%v", sp == dp))

		dstModels := map[string]vSnapModelC32{}
		if strings.Contains(sc.Prepop, "own") {
			dstDir := dst.Scratch("own-")
			tr := vGenTree(t, vTreeGen{MaxEntries: 8, ContentPool: 8})
			if err := tr.Materialize(dstDir); err != nil {
				fail("materialize: %v", err)
			}
			if err := dst.Backup([]string{dstDir}, BackupOptions{Host: "h1"}); err != nil {
				fail("destination backup: %v", err)
			}
			ids, _ := dst.SnapshotIDs()
			if len(ids) != 1 {
				fail("destination backup left %d snapshots", len(ids))
			}
			dstModels[ids[0]] = vSnapModelC32{Dir: dstDir, Tree: tr}
		}
		if strings.Contains(sc.Prepop, "partial") {
			// an earlier copy of a strict non-empty subset of the source snapshots
			ids, _ := src.SnapshotIDs()
			n := rapid.IntRange(1, len(ids)-1).Draw(t, "npartial")
			sub := rapid.Permutation(ids).Draw(t, "partialperm")[:n]
			if out, err := vCopyC32(dst, src, context.Background(), sub); err != nil {
				fail("partial copy: %v\n%s%s", err, out.Stdout, out.Stderr)
			}
			// models of the copies (the source snapshots may be replaced by the modifications below)
			s0, err1 := src.Snapshots()
			d0, err2 := dst.Snapshots()
			if err1 != nil || err2 != nil {
				fail("listing snapshots after the partial copy: %v %v", err1, err2)
			}
			m0 := vMatchC32(s0, d0)
			for _, id := range sub {
				if len(m0[id]) != 1 {
					fail("partial copy of %v: source snapshot %s has %d copies\n  source:\n    %s\n  destination:\n    %s", vShortC32(sub), id[:8], len(m0[id]), vSnapsDescC32(s0), vSnapsDescC32(d0))
				}
				dstModels[m0[id][0].ID().String()] = srcModels[id]
			}
			if len(d0) != len(dstModels) {
				fail("partial copy of %d snapshots left %d destination snapshots (%d with a model)", len(sub), len(d0), len(dstModels))
			}
		}

		// ---- source modifications after the partial copy: original chains
		nmods := rapid.IntRange(0, 2).Draw(t, "nmods")
		// every modification takes a snapshot that was neither modified before nor is the product
		// of a modification: rewriting one snapshot twice without --forget with the same effect
		// yields two source snapshots that are indistinguishable for the "exactly one copy each"
		// oracle (same original, tree, time, tags) - a false alarm of an earlier version of this check
		touched := map[string]bool{}
		for i := 0; i < nmods; i++ {
			ids, _ := src.SnapshotIDs()
			var cand []string
			for _, id := range ids {
				if !touched[id] {
					cand = append(cand, id)
				}
			}
			if len(cand) == 0 {
				break
			}
			target := cand[rapid.IntRange(0, len(cand)-1).Draw(t, "modtarget")]
			touched[target] = true
			kind := rapid.SampledFrom([]string{"tag", "rehost", "exclude"}).Draw(t, "modkind")
			model := srcModels[target]
			if kind == "exclude" && len(model.Tree.Paths()) == 0 {
				kind = "rehost" // nothing left to exclude in an (already emptied) tree
			}
			var err error
			switch kind {
			case "tag":
				to := TagOptions{AddTags: data.TagLists{data.TagList{rapid.SampledFrom([]string{"x", "y"}).Draw(t, "newtag")}}}
				_, err = src.call(src.gopts, func(ctx context.Context, gopts global.Options) error {
					return runTag(ctx, to, gopts, gopts.Term, []string{target})
				})
			case "rehost":
				ro := RewriteOptions{Forget: rapid.Bool().Draw(t, "rwforget"), Metadata: snapshotMetadataArgs{Hostname: "h3"}}
				kind += fmt.Sprintf(":forget=%v", ro.Forget)
				_, err = src.call(src.gopts, func(ctx context.Context, gopts global.Options) error {
					return runRewrite(ctx, ro, gopts, []string{target}, gopts.Term)
				})
			case "exclude":
				ps := model.Tree.Paths()
				p := ps[rapid.IntRange(0, len(ps)-1).Draw(t, "exclpath")]
				ro := RewriteOptions{Forget: rapid.Bool().Draw(t, "rwforget")}
				ro.Excludes = []string{filepath.Join(srcDir, filepath.FromSlash(p))}
				kind += fmt.Sprintf(":forget=%v", ro.Forget)
				model = vSnapModelC32{Dir: model.Dir, Tree: vExcludeC32(model.Tree, p)}
				_, err = src.call(src.gopts, func(ctx context.Context, gopts global.Options) error {
					return runRewrite(ctx, ro, gopts, []string{target}, gopts.Term)
				})
			}
			if err != nil {
				fail("source %s of %s: %v", kind, target[:8], err)
			}
			after, _ := src.SnapshotIDs()
			if id := vNewID(ids, after); id != "" {
				srcModels[id] = model
				touched[id] = true
			}
			sc.Mods = append(sc.Mods, kind)
		}

		srcSns, err := src.Snapshots()
		if err != nil {
			fail("listing source snapshots: %v", err)
		}
		chain, chainParent := false, false
		for _, s := range srcSns {
			if _, ok := srcModels[s.ID().String()]; !ok {
				fail("source snapshot %s has no model", s.ID().Str())
			}
			if s.Original != nil {
				chain = true
				if s.Parent != nil {
					chainParent = true
				}
			}
		}
		// ---- tree blobs of the snapshots to copy that are already in the destination while their
		// subtrees / file contents are not: copy must not take "tree known" for "everything below known"
		orphanClass := "none"
		switch sc.Orphans {
		case "inject":
			trees, err := vSourceTreesC32(src, srcSns)
			if err != nil || len(trees) == 0 {
				fail("loading source trees: %v (%d trees)", err, len(trees))
			}
			n := rapid.IntRange(1, len(trees)).Draw(t, "norphans")
			var pick []vTreeBlobC32
			roots, inner := 0, 0
			for _, i := range rapid.Permutation(vRange(len(trees))).Draw(t, "orphanperm")[:n] {
				pick = append(pick, trees[i])
				if trees[i].root {
					roots++
				} else {
					inner++
				}
			}
			stored, err := vInjectTreesC32(dst, pick)
			if err != nil {
				fail("storing %d orphan trees in the destination: %v", len(pick), err)
			}
			orphanClass = "inject"
			if stored == 0 {
				orphanClass = "inject-all-known"
			}
			st.Class(fmt.Sprintf("orphan-roots=%v", roots > 0), fmt.Sprintf("orphan-inner=%v", inner > 0))
		case "crash-repair":
			// the natural way there: an earlier copy died after it had uploaded some but not all
			// packs (no index yet), and `repair index` was run on the destination afterwards
			trees, err := vSourceTreesC32(src, srcSns)
			if err != nil {
				fail("loading source trees: %v", err)
			}
			knownBefore, err := vKnownTreesC32(dst, trees)
			if err != nil {
				fail("destination index: %v", err)
			}
			probe := dst.OnStore(dst.store.Clone())
			probe.store.StartRecording(vbe.NoFaults())
			pout, perr := vCopyC32(probe, src, context.Background(), nil)
			plog := probe.store.StopRecording()
			probe.Release()
			if perr != nil {
				fail("earlier copy (to be interrupted) failed: %v\n%s%s", perr, pout.Stdout, pout.Stderr)
			}
			total := 0
			for _, op := range plog {
				if op.Key.Type == backend.PackFile && !op.Remove {
					total++
				}
			}
			var cand []int
			seenPacks := 0
			for k, op := range plog {
				if op.Key.Type == backend.PackFile && !op.Remove {
					seenPacks++
					if seenPacks < total {
						cand = append(cand, k+1)
					}
				}
			}
			orphanClass = "crash-repair-single-pack"
			if len(cand) > 0 {
				k := cand[rapid.IntRange(0, len(cand)-1).Draw(t, "crashAt")]
				crashed := probe.store.StateAt(k)
				crashed.DropLocks()
				dst.ReplaceStore(crashed)
				if _, err := dst.call(dst.gopts, func(ctx context.Context, gopts global.Options) error {
					return runRebuildIndex(ctx, RepairIndexOptions{}, gopts, gopts.Term)
				}); err != nil {
					fail("repair index on the destination after the interrupted copy: %v", err)
				}
				knownAfter, err := vKnownTreesC32(dst, trees)
				if err != nil {
					fail("destination index: %v", err)
				}
				orphanClass = "crash-repair-data-pack-first"
				if knownAfter > knownBefore {
					orphanClass = "crash-repair"
				}
			}
		}
		if sc.Orphans != "none" {
			if out, err := dst.Check(true); err != nil {
				fail("destination with orphaned trees (%s) before the copy: check: %v\n%s%s", orphanClass, err, out.Stdout, out.Stderr)
			}
		}

		preSns, err := dst.Snapshots()
		if err != nil {
			fail("listing destination snapshots: %v", err)
		}
		pre := map[string]bool{}
		for _, d := range preSns {
			pre[d.ID().String()] = true
		}
		preMatch := vMatchC32(srcSns, preSns)
		expectNew := 0
		for _, s := range srcSns {
			if len(preMatch[s.ID().String()]) == 0 {
				expectNew++
			}
		}
		base := dst.store.Clone()

		// ---- copy #1, recorded on the destination
		dst.store.StartRecording(vbe.NoFaults())
		out1, cerr := vCopyC32(dst, src, context.Background(), nil)
		log := dst.store.StopRecording()
		if cerr != nil {
			fail("copy failed on a healthy backend: %v\n%s%s", cerr, out1.Stdout, out1.Stderr)
		}
		dstSns, err := dst.Snapshots()
		if err != nil {
			fail("listing destination snapshots after copy: %v", err)
		}
		describe := func() string {
			return fmt.Sprintf("source:\n    %s\n  destination before:\n    %s\n  destination after:\n    %s\n  ops:\n%s", vSnapsDescC32(srcSns), vSnapsDescC32(preSns), vSnapsDescC32(dstSns), vOpsStringC32(log))
		}
		// faithful: every source snapshot has exactly one copy: same tree id and meta data, `original` = persistent id
		match := vMatchC32(srcSns, dstSns)
		allowed := map[string]bool{}
		claimed := map[string]string{}
		for _, s := range srcSns {
			sid := s.ID().String()
			ds := match[sid]
			if len(ds) != 1 {
				fail("source snapshot %s has %d copies in the destination after copy (want exactly 1)\n  %s", vSnapDescC32(s), len(ds), describe())
			}
			did := ds[0].ID().String()
			if o, dup := claimed[did]; dup {
				fail("destination snapshot %s is the copy of both %s and %s\n  %s", did[:8], o[:8], sid[:8], describe())
			}
			claimed[did] = sid
			dstModels[did] = srcModels[sid]
		}
		newCount := 0
		for _, d := range dstSns {
			did := d.ID().String()
			allowed[did] = true
			if pre[did] {
				continue
			}
			newCount++
			if _, ok := claimed[did]; !ok {
				fail("copy created destination snapshot %s that is not a faithful copy of any source snapshot\n  %s", vSnapDescC32(d), describe())
			}
			if d.Parent != nil {
				fail("copied snapshot %s has a parent (%s) that has no meaning in the destination", d.ID().Str(), d.Parent.Str())
			}
		}
		for id := range pre {
			if !allowed[id] {
				fail("copy removed the pre-existing destination snapshot %s", id[:8])
			}
		}
		if newCount != expectNew {
			fail("copy created %d snapshots, %d source snapshots had no copy before\n  %s", newCount, expectNew, describe())
		}
		st.Evals(1)
		if _, err := vDstStateOKC32(dst, dst.store.Clone(), dstModels, allowed, true); err != nil {
			fail("destination after copy: %v\n  %s", err, describe())
		}

		// ---- every crash prefix of the destination log
		packs, snapSaves := 0, 0
		for _, op := range log {
			if op.Key.Type == backend.PackFile && !op.Remove {
				packs++
			}
			if op.Key.Type == backend.SnapshotFile && !op.Remove {
				snapSaves++
			}
			if op.Remove && op.Key.Type != backend.LockFile {
				fail("copy removed %s from the destination", op.Key)
			}
		}
		prevSig := "?"
		for k := 0; k <= len(log); k++ {
			st.Evals(1)
			s := dst.store.StateAt(k)
			sig := strings.Join(s.Keys(backend.SnapshotFile), ",")
			ids, err := vDstStateOKC32(dst, s, dstModels, allowed, sig != prevSig)
			prevSig = sig
			if err != nil {
				fail("crash after %d of %d destination operations of copy (%s), snapshots listed %v: %v\n  %s", k, len(log), vOpAtC32(log, k), vShortC32(ids), err, describe())
			}
		}

		// the crash state the resume run below starts from (taken before the log is reset)
		var rs *vbe.Store
		resumeAt := -1
		if len(log) > 0 {
			resumeAt = rapid.IntRange(0, len(log)-1).Draw(t, "resumeAt")
			rs = dst.store.StateAt(resumeAt)
		}

		// ---- copy #2: nothing new
		dst.store.StartRecording(vbe.NoFaults())
		out2, cerr2 := vCopyC32(dst, src, context.Background(), nil)
		log2 := dst.store.StopRecording()
		st.Evals(1)
		if cerr2 != nil {
			fail("second copy failed: %v\n%s%s", cerr2, out2.Stdout, out2.Stderr)
		}
		for _, op := range log2 {
			if op.Key.Type != backend.LockFile {
				fail("the second copy wrote to the destination: %s\n  second run ops:\n%s\n  second run output:\n%s\n  %s", op, vOpsStringC32(log2), out2.Stdout, describe())
			}
		}

		// ---- resume after an interruption: copy again from a drawn crash state of run #1
		if rs != nil {
			k := resumeAt
			rs.DropLocks()
			re := dst.OnStore(rs)
			out3, cerr3 := vCopyC32(re, src, context.Background(), nil)
			st.Evals(1)
			if cerr3 != nil {
				fail("copy resumed after a crash at operation %d failed: %v\n%s%s", k, cerr3, out3.Stdout, out3.Stderr)
			}
			rSns, err := re.Snapshots()
			if err != nil {
				fail("listing snapshots of the resumed destination: %v", err)
			}
			rm := vMatchC32(srcSns, rSns)
			rModels := map[string]vSnapModelC32{}
			rAllowed := map[string]bool{}
			for id, m := range dstModels {
				if pre[id] {
					rModels[id] = m
				}
			}
			for _, s := range srcSns {
				ds := rm[s.ID().String()]
				if len(ds) != 1 {
					fail("after a crash at operation %d (%s) and a second complete copy, source snapshot %s has %d copies (want exactly 1)\n  resumed destination:\n    %s\n  %s",
						k, vOpAtC32(log, k), vSnapDescC32(s), len(ds), vSnapsDescC32(rSns), describe())
				}
				rModels[ds[0].ID().String()] = srcModels[s.ID().String()]
			}
			for _, d := range rSns {
				rAllowed[d.ID().String()] = true
			}
			if len(rSns) != len(dstSns) {
				fail("after a crash at operation %d and a second complete copy the destination has %d snapshots, the uninterrupted run gave %d", k, len(rSns), len(dstSns))
			}
			if _, err := vDstStateOKC32(re, rs, rModels, rAllowed, true); err != nil {
				fail("destination after crash at operation %d and a second complete copy: %v", k, err)
			}
			re.Release()
		}
		_ = base

		// non-trivial: >= 2 source snapshots sharing blobs (same content pool: checked by the
		// pack count being smaller than if nothing were shared is not observable; use tree/data overlap)
		shared := vSharesBlobsC32(srcSns, srcModels)
		key := ""
		if shared && len(preSns) > 0 && expectNew > 0 {
			key = vJSON(sc) + dst.store.Digest()[:16]
		}
		st.Case(key, "orphan-trees="+orphanClass, "prepop="+sc.Prepop, "chunker="+sc.Chunker, "src=v"+sc.SrcVersion, "dst=v"+sc.DstVersion,
			fmt.Sprintf("original-chain=%v", chain), fmt.Sprintf("original-chain-with-parent=%v", chainParent),
			fmt.Sprintf("shared-blobs=%v", shared), fmt.Sprintf("new-snapshots=%d", vMinC32(expectNew, 4)), fmt.Sprintf("packs-written=%d", vMinC32(packs, 3)))
		for _, m := range sc.Mods {
			st.Class("mod=" + m)
		}
		if st.WantSample() {
			var ops []string
			for _, op := range log {
				ops = append(ops, op.String())
			}
			st.Sample(map[string]any{"scenario": sc, "source": strings.Split(vSnapsDescC32(srcSns), "\n    "), "dst_before": len(preSns), "dst_after": len(dstSns), "copy_ops": ops})
		}
	})
}

// vSharesBlobsC32: at least two source snapshots have a file content in common.
func vSharesBlobsC32(sns []*data.Snapshot, models map[string]vSnapModelC32) bool {
	seen := map[uint64]string{}
	for _, s := range sns {
		id := s.ID().String()
		for _, nd := range models[id].Tree {
			if nd.Kind != 'f' {
				continue
			}
			if o, ok := seen[nd.Seed]; ok && o != id {
				return true
			}
			seen[nd.Seed] = id
		}
	}
	return false
}

func vMinC32(a, b int) int {
	if a < b {
		return a
	}
	return b
}

func vShortC32(ids []string) []string {
	var out []string
	for _, id := range ids {
		out = append(out, id[:8])
	}
	return out
}

func vOpAtC32(log []vbe.Op, k int) string {
	if k < len(log) {
		return "next: " + log[k].String()
	}
	return "complete"
}

func vOpsStringC32(log []vbe.Op) string {
	var sb strings.Builder
	for i, op := range log {
		fmt.Fprintf(&sb, "  %2d %s\n", i, op)
	}
	return sb.String()
}

