package main

// C27: rewrite --exclude/--include removes exactly the matching paths.
//
// Small real backups of generated trees; `runRewrite` with generated pattern sets;
// the tree of the resulting snapshot (walked with a private recursive loader) is
// compared with a reference filter of the original tree. The reference matcher below
// is written from doc/040_backup.rst ("Excluding files") and shares no code with
// internal/filter.

import (
	"context"
	"encoding/json"
	"fmt"
	"os"
	"path"
	"path/filepath"
	"sort"
	"strings"
	"testing"

	"github.com/restic/restic/internal/backend"
	"github.com/restic/restic/internal/data"
	"github.com/restic/restic/internal/filter"
	"github.com/restic/restic/internal/global"
	"github.com/restic/restic/internal/repository"
	"github.com/restic/restic/internal/restic"
	"github.com/restic/restic/internal/verifkit"
	"pgregory.net/rapid"
)

// ---------------------------------------------------------------------------
// reference matcher (documentation semantics)
//
//   * a pattern is a '/'-separated list of components; a trailing '/' is ignored,
//     a leading '/' anchors the pattern at the root directory;
//   * each component is a filepath.Match glob and has to match a COMPLETE path
//     component; the component '**' stands for any number (including zero) of
//     components;
//   * a pattern matches a path when it matches the path itself or one of its parent
//     directories ("/bin matches /bin/bash"; "foo matches /dir1/foo/dir2/file");
//     a pattern without leading '/' may start at any component;
//   * '!pattern' cancels a match of an earlier pattern of the same list;
//   * the i-variants ignore case.

func vSplitC27(s string) (anchored bool, comps []string) {
	anchored = strings.HasPrefix(s, "/")
	for _, c := range strings.Split(s, "/") {
		if c != "" && c != "." {
			comps = append(comps, c)
		}
	}
	return
}

// vExactC27: do the pattern components q match exactly the components s?
func vExactC27(q, s []string) bool {
	if len(q) == 0 {
		return len(s) == 0
	}
	if q[0] == "**" {
		for k := 0; k <= len(s); k++ {
			if vExactC27(q[1:], s[k:]) {
				return true
			}
		}
		return false
	}
	if len(s) == 0 {
		return false
	}
	ok, err := path.Match(q[0], s[0])
	if err != nil || !ok {
		return false
	}
	return vExactC27(q[1:], s[1:])
}

// vRefMatchC27 reports whether the (un-negated) pattern matches the absolute path p
// or one of its parents.
func vRefMatchC27(pattern, p string, fold bool) bool {
	if fold {
		pattern, p = strings.ToLower(pattern), strings.ToLower(p)
	}
	anchored, q := vSplitC27(pattern)
	_, s := vSplitC27(p)
	for i := 0; i < len(s); i++ {
		for j := i + 1; j <= len(s); j++ {
			if vExactC27(q, s[i:j]) {
				return true
			}
		}
		if anchored {
			break
		}
	}
	return false
}

// vRefListC27 evaluates one ordered pattern list with negations.
func vRefListC27(patterns []string, p string, fold bool) bool {
	matched := false
	for _, pat := range patterns {
		if strings.HasPrefix(pat, "!") {
			if matched && vRefMatchC27(pat[1:], p, fold) {
				matched = false
			}
			continue
		}
		if !matched && vRefMatchC27(pat, p, fold) {
			matched = true
		}
	}
	return matched
}

// vPatSetC27 is one generated rewrite invocation.
type vPatSetC27 struct {
	Include  bool     `json:"include"`
	Plain    []string `json:"plain"`  // --exclude / --include (in this order)
	Fold     []string `json:"fold"`   // --iexclude / --iinclude
	ViaFile  bool     `json:"via_file"`
	Forget   bool     `json:"forget"`
	DryRun   bool     `json:"dry_run"`
	Negation bool     `json:"negation"`
	Shape    []string `json:"shape"`
}

func (ps vPatSetC27) selected(p string) bool {
	return vRefListC27(ps.Plain, p, false) || vRefListC27(ps.Fold, p, true)
}

// vFilterC27 is the reference filter: the set of paths of orig that the new snapshot must contain.
func vFilterC27(orig map[string]*data.Node, ps vPatSetC27) map[string]bool {
	paths := make([]string, 0, len(orig))
	for p := range orig {
		paths = append(paths, p)
	}
	sort.Strings(paths) // parents before children
	keep := map[string]bool{}
	if !ps.Include {
		// an entry is removed when it matches or when a parent directory was removed
		// ("once a directory is excluded, it is not possible to include files inside")
		for _, p := range paths {
			par := path.Dir(p)
			if par != "/" && !keep[par] {
				continue
			}
			if !ps.selected(p) {
				keep[p] = true
			}
		}
		return keep
	}
	// include: the matching entries and the directories leading to them
	for _, p := range paths {
		if ps.selected(p) {
			for q := p; q != "/" && q != "."; q = path.Dir(q) {
				keep[q] = true
			}
		}
	}
	return keep
}

// ---------------------------------------------------------------------------
// stored trees

func vWalkC27(ctx context.Context, repo *repository.Repository, id restic.ID, prefix string, out map[string]*data.Node) error {
	tree, err := data.LoadTree(ctx, repo, id)
	if err != nil {
		return err
	}
	for item := range tree {
		if item.Error != nil {
			return item.Error
		}
		n := item.Node
		p := path.Join(prefix, n.Name)
		if _, dup := out[p]; dup {
			return fmt.Errorf("duplicate entry %q", p)
		}
		out[p] = n
		if n.Type == data.NodeTypeDir {
			if n.Subtree == nil {
				return fmt.Errorf("dir %q without subtree", p)
			}
			if err := vWalkC27(ctx, repo, *n.Subtree, p, out); err != nil {
				return err
			}
		}
	}
	return nil
}

type vSnapC27 struct {
	ID    string
	Sn    *data.Snapshot
	JSON  map[string]any
	Nodes map[string]*data.Node
}

func vLoadSnapC27(e *vEnv, id string) (*vSnapC27, error) {
	s := &vSnapC27{ID: id, Nodes: map[string]*data.Node{}, JSON: map[string]any{}}
	err := e.WithRepo(func(ctx context.Context, repo *repository.Repository) error {
		rid, err := restic.ParseID(id)
		if err != nil {
			return err
		}
		buf, err := repo.LoadUnpacked(ctx, restic.SnapshotFile, rid)
		if err != nil {
			return err
		}
		if err := json.Unmarshal(buf, &s.JSON); err != nil {
			return err
		}
		s.Sn = &data.Snapshot{}
		if err := json.Unmarshal(buf, s.Sn); err != nil {
			return err
		}
		if s.Sn.Tree == nil {
			return fmt.Errorf("snapshot %s without tree", id[:8])
		}
		if err := repo.LoadIndex(ctx, restic.NoopTerminalCounterFactory); err != nil {
			return err
		}
		return vWalkC27(ctx, repo, *s.Sn.Tree, "/", s.Nodes)
	})
	return s, err
}

func vNodeJSONC27(n *data.Node, withSubtree bool) string {
	c := *n
	if !withSubtree {
		c.Subtree = nil
	}
	b, err := json.Marshal(c)
	if err != nil {
		return "marshal error: " + err.Error()
	}
	return string(b)
}

// ---------------------------------------------------------------------------
// pattern generation

var vNamesC27 = []string{"a", "b", "ab", "A", "foo", "Foo", "bar", "x.txt", "y.TXT", "c"}

func vSwapCaseC27(s string) string {
	b := []byte(s)
	for i, c := range b {
		switch {
		case c >= 'a' && c <= 'z':
			b[i] = c - 32
		case c >= 'A' && c <= 'Z':
			b[i] = c + 32
		}
	}
	return string(b)
}

// vGlobCompC27 turns a concrete name into a glob that (mostly) still matches it.
func vGlobCompC27(t *rapid.T, n string) string {
	switch rapid.IntRange(0, 11).Draw(t, "glob") {
	case 0:
		return "*"
	case 1:
		return n[:1] + "*"
	case 2:
		return "*" + n[len(n)-1:]
	case 3:
		i := rapid.IntRange(0, len(n)-1).Draw(t, "qpos")
		return n[:i] + "?" + n[i+1:]
	case 4:
		return "[" + n[:1] + "z]" + n[1:]
	case 5:
		return "[^z]" + n[1:]
	case 6:
		if i := strings.LastIndex(n, "."); i > 0 {
			return "*" + n[i:]
		}
		return n + "*"
	case 7:
		return vSwapCaseC27(n) // matches only when folded (or a differently-cased sibling)
	default:
		return n
	}
}

// vGenPatternC27 draws one pattern (without '!') derived from an existing path, or a free one.
func vGenPatternC27(t *rapid.T, paths []string, srcDepth int) (pat string, shape []string) {
	if rapid.IntRange(0, 9).Draw(t, "free") == 0 {
		n := rapid.IntRange(1, 3).Draw(t, "freelen")
		var cs []string
		for i := 0; i < n; i++ {
			cs = append(cs, rapid.SampledFrom(append([]string{"*", "**", "?", "zz"}, vNamesC27...)).Draw(t, "freecomp"))
		}
		return strings.Join(cs, "/"), []string{"free"}
	}
	p := rapid.SampledFrom(paths).Draw(t, "base")
	_, comps := vSplitC27(p)
	var cs []string
	abs := rapid.IntRange(0, 2).Draw(t, "abs") == 0
	if abs {
		// a prefix of the path that reaches below the source directory (or the entry itself)
		lo := min(srcDepth+1, len(comps))
		k := rapid.IntRange(lo, len(comps)).Draw(t, "abslen")
		cs = append(cs, comps[:k]...)
		shape = append(shape, "absolute")
	} else {
		j := len(comps)
		if rapid.IntRange(0, 3).Draw(t, "cutend") == 0 && j > srcDepth+1 {
			j = rapid.IntRange(srcDepth+1, j).Draw(t, "end")
		}
		n := rapid.SampledFrom([]int{1, 1, 1, 2, 2, 3}).Draw(t, "rellen")
		i := max(j-n, 0)
		cs = append(cs, comps[i:j]...)
		shape = append(shape, "relative")
	}
	// globs in the part below the source directory (the ancestors' names are not generated)
	first := 0
	if abs {
		first = min(srcDepth, len(cs))
	}
	for i := first; i < len(cs); i++ {
		if rapid.IntRange(0, 2).Draw(t, "globit") == 0 {
			g := vGlobCompC27(t, cs[i])
			if g != cs[i] {
				shape = append(shape, "glob")
			}
			cs[i] = g
		}
	}
	// '**' replacing a span of components (possibly an empty span)
	if rapid.IntRange(0, 3).Draw(t, "dstar") == 0 {
		x := rapid.IntRange(0, len(cs)).Draw(t, "dsfrom")
		if abs {
			x = max(x, 1)
		}
		y := rapid.IntRange(x, min(len(cs), x+2)).Draw(t, "dsto")
		ncs := append([]string{}, cs[:x]...)
		ncs = append(ncs, "**")
		ncs = append(ncs, cs[y:]...)
		if len(ncs) > 1 || !abs {
			cs = ncs
			shape = append(shape, "doublestar")
		}
	}
	pat = strings.Join(cs, "/")
	if abs {
		pat = "/" + pat
	}
	if rapid.IntRange(0, 7).Draw(t, "trail") == 0 {
		pat += "/"
		shape = append(shape, "trailing-slash")
	}
	return pat, shape
}

func vGenPatSetC27(t *rapid.T, paths []string, dirsWithKids []string, srcDepth int) vPatSetC27 {
	ps := vPatSetC27{
		Include: rapid.IntRange(0, 2).Draw(t, "include") == 0,
		Forget:  rapid.IntRange(0, 3).Draw(t, "forget") == 0,
		DryRun:  rapid.IntRange(0, 15).Draw(t, "dryrun") == 7,
	}
	shapes := map[string]bool{}
	add := func(sh []string) {
		for _, s := range sh {
			shapes[s] = true
		}
	}
	kind := rapid.SampledFrom([]string{"plain", "plain", "plain", "fold", "fold", "both", "both-aimed", "negation", "negation", "reinclude"}).Draw(t, "listkind")
	if kind == "both-aimed" && len(paths) < 2 {
		kind = "both"
	}
	switch kind {
	case "both-aimed":
		// one anchored (full path) pattern in the case-insensitive list and another one, for an entry
		// somewhere else in the tree, in the case-sensitive list: each list alone says "no child of
		// this directory can match" for the other one's ancestors (added after an independent seeded
		// change that let the first include function alone decide about directories was missed)
		i := rapid.IntRange(0, len(paths)-1).Draw(t, "aim1")
		j := rapid.IntRange(0, len(paths)-2).Draw(t, "aim2")
		if j >= i {
			j++
		}
		f := paths[i]
		if rapid.Bool().Draw(t, "aimswap") {
			f = vSwapCaseC27(f)
		}
		ps.Fold = []string{f}
		ps.Plain = []string{paths[j]}
		add([]string{"fold", "both-lists", "both-lists-anchored"})
	case "reinclude":
		// [broad, !dir, something below dir]: the directory is taken out of the match
		// again, one of its descendants is matched by a later pattern
		if len(dirsWithKids) > 0 {
			d := rapid.SampledFrom(dirsWithKids).Draw(t, "redir")
			var kids []string
			for _, p := range paths {
				if strings.HasPrefix(p, d+"/") {
					kids = append(kids, p)
				}
			}
			c := rapid.SampledFrom(kids).Draw(t, "rekid")
			broad := rapid.SampledFrom([]string{"*", path.Dir(d) + "/*", path.Base(d), path.Dir(d), "**/" + path.Base(d)}).Draw(t, "rebroad")
			neg := rapid.SampledFrom([]string{d, path.Base(d), "**/" + path.Base(d)}).Draw(t, "reneg")
			child := rapid.SampledFrom([]string{c, path.Base(c), path.Base(d) + "/**/" + path.Base(c), "*" + path.Base(c)[len(path.Base(c))-1:]}).Draw(t, "rechild")
			ps.Plain = []string{broad, "!" + neg, child}
			ps.Negation = true
			add([]string{"negation", "reinclude"})
			if rapid.Bool().Draw(t, "refold") {
				ps.Fold, ps.Plain = ps.Plain, nil
				add([]string{"fold"})
			}
			break
		}
		fallthrough
	case "negation":
		n := rapid.IntRange(2, 4).Draw(t, "npat")
		var l []string
		for i := 0; i < n; i++ {
			p, sh := vGenPatternC27(t, paths, srcDepth)
			add(sh)
			if i > 0 && rapid.IntRange(0, 1).Draw(t, "neg") == 0 {
				p = "!" + p
				ps.Negation = true
			}
			l = append(l, p)
		}
		if rapid.IntRange(0, 2).Draw(t, "negfold") == 0 {
			ps.Fold = l
			add([]string{"fold"})
		} else {
			ps.Plain = l
		}
		if ps.Negation {
			add([]string{"negation"})
		}
	default:
		n := rapid.IntRange(1, 3).Draw(t, "npat")
		for i := 0; i < n; i++ {
			p, sh := vGenPatternC27(t, paths, srcDepth)
			add(sh)
			toFold := kind == "fold" || (kind == "both" && (i == 0 || rapid.Bool().Draw(t, "tofold")))
			if kind == "both" && i == 1 {
				toFold = false
			}
			if toFold {
				if rapid.Bool().Draw(t, "swapcase") {
					p = vSwapCaseC27(p)
				}
				ps.Fold = append(ps.Fold, p)
				add([]string{"fold"})
			} else {
				ps.Plain = append(ps.Plain, p)
			}
		}
		if kind == "both" && len(ps.Plain) > 0 && len(ps.Fold) > 0 {
			add([]string{"both-lists"})
		}
	}
	ps.ViaFile = rapid.IntRange(0, 4).Draw(t, "viafile") == 0
	if ps.ViaFile {
		add([]string{"pattern-file"})
	}
	for s := range shapes {
		ps.Shape = append(ps.Shape, s)
	}
	sort.Strings(ps.Shape)
	return ps
}

func vPatFileC27(e *vEnv, patterns []string) (string, error) {
	f, err := os.CreateTemp(e.base, "patterns-")
	if err != nil {
		return "", err
	}
	defer f.Close()
	fmt.Fprintf(f, "# generated\n\n")
	for i, p := range patterns {
		if i%2 == 1 {
			fmt.Fprintf(f, "   %s  \n", p) // surrounding white space is trimmed
		} else {
			fmt.Fprintf(f, "%s\n", p)
		}
	}
	fmt.Fprintf(f, "\n# end\n")
	return f.Name(), nil
}

func (ps vPatSetC27) options(e *vEnv) (RewriteOptions, error) {
	o := RewriteOptions{Forget: ps.Forget, DryRun: ps.DryRun}
	plain, fold := ps.Plain, ps.Fold
	var plainFile, foldFile []string
	if ps.ViaFile {
		if len(plain) > 0 {
			fn, err := vPatFileC27(e, plain)
			if err != nil {
				return o, err
			}
			plainFile, plain = []string{fn}, nil
		}
		if len(fold) > 0 {
			fn, err := vPatFileC27(e, fold)
			if err != nil {
				return o, err
			}
			foldFile, fold = []string{fn}, nil
		}
	}
	if ps.Include {
		o.IncludePatternOptions = filter.IncludePatternOptions{Includes: plain, InsensitiveIncludes: fold, IncludeFiles: plainFile, InsensitiveIncludeFiles: foldFile}
	} else {
		o.ExcludePatternOptions = filter.ExcludePatternOptions{Excludes: plain, InsensitiveExcludes: fold, ExcludeFiles: plainFile, InsensitiveExcludeFiles: foldFile}
	}
	return o, nil
}

// ---------------------------------------------------------------------------

// vCheckRewriteC27 runs one rewrite on a copy of the repository and compares with the model.
// It returns the class labels and the non-triviality key.
func vCheckRewriteC27(fatalf func(string, ...any), e *vEnv, orig *vSnapC27, ps vPatSetC27) (classes []string, key string) {
	ce := e.OnStore(e.store.Clone())
	defer ce.Release()

	keep := vFilterC27(orig.Nodes, ps)
	removed := 0
	removedNonLeaf := false
	for p, n := range orig.Nodes {
		if keep[p] {
			continue
		}
		removed++
		if n.Type == data.NodeTypeDir {
			for q := range orig.Nodes {
				if strings.HasPrefix(q, p+"/") {
					removedNonLeaf = true
					break
				}
			}
		}
	}
	// "matches nothing" (exclude) / nothing left or everything kept (include) => snapshot unchanged
	expectChange := removed > 0
	if ps.Include && len(keep) == 0 {
		expectChange = false
	}
	mode := "exclude"
	if ps.Include {
		mode = "include"
	}
	result := "unchanged"
	switch {
	case expectChange && len(keep) == 0:
		result = "emptied"
	case expectChange:
		result = "strict-subset"
	case ps.Include && len(keep) == 0:
		result = "include-matches-nothing"
	}
	classes = append(classes, "mode="+mode, "result="+result, fmt.Sprintf("removed-nonleaf=%v", removedNonLeaf),
		fmt.Sprintf("forget=%v", ps.Forget), fmt.Sprintf("dry-run=%v", ps.DryRun))
	for _, s := range ps.Shape {
		classes = append(classes, "pattern="+s)
	}
	// which features of the pattern language decide the outcome of this case
	if ps.Negation {
		plain := ps
		plain.Plain, plain.Fold = vDropNegC27(ps.Plain), vDropNegC27(ps.Fold)
		classes = append(classes, fmt.Sprintf("negation-decides=%v", !vSameSetC27(keep, vFilterC27(orig.Nodes, plain))))
	}
	if len(ps.Fold) > 0 {
		exact := ps
		exact.Plain, exact.Fold = append(append([]string{}, ps.Plain...), ps.Fold...), nil
		if len(ps.Plain) == 0 || !ps.Negation {
			classes = append(classes, fmt.Sprintf("case-folding-decides=%v", !vSameSetC27(keep, vFilterC27(orig.Nodes, exact))))
		}
	}
	partial := false
	for p, n := range orig.Nodes {
		if keep[p] && n.Type == data.NodeTypeDir {
			for q := range orig.Nodes {
				if strings.HasPrefix(q, p+"/") && !keep[q] {
					partial = true
				}
			}
		}
	}
	classes = append(classes, fmt.Sprintf("kept-dir-loses-children=%v", partial))
	desc := vJSON(ps)

	opts, err := ps.options(ce)
	if err != nil {
		fatalf("pattern file: %v", err)
	}
	before, err := ce.SnapshotIDs()
	if err != nil {
		fatalf("list: %v", err)
	}
	filesBefore := ce.store.Clone()
	g := ce.gopts
	g.Quiet = false
	g.Verbosity = 1
	out, rerr := ce.call(g, func(ctx context.Context, gopts global.Options) error {
		return runRewrite(ctx, opts, gopts, []string{orig.ID}, gopts.Term)
	})
	if rerr != nil {
		fatalf("rewrite %s failed: %v\n%s%s", desc, rerr, out.Stdout, out.Stderr)
	}
	after, err := ce.SnapshotIDs()
	if err != nil {
		fatalf("list: %v", err)
	}

	if ps.DryRun {
		ce.store.DropLocks()
		filesBefore.DropLocks()
		if ok, d := filesBefore.Equal(ce.store); !ok {
			fatalf("rewrite --dry-run %s modified the repository: %s", desc, d)
		}
		want := "no snapshots would be modified"
		if expectChange {
			want = "would modify 1 snapshots"
		}
		if !strings.Contains(out.Stdout, want) {
			fatalf("rewrite --dry-run %s: expected %q in the output:\n%s\nmodel keeps %v of %v", desc, want, out.Stdout, vKeysC27(keep), vNodeKeysC27(orig.Nodes))
		}
		return classes, ""
	}

	newID := vNewID(before, after)
	if !expectChange {
		if newID != "" || len(after) != len(before) {
			fatalf("rewrite %s matches nothing (model keeps all %d entries) but the snapshot list changed: %v -> %v\n%s", desc, len(keep), before, after, out.Stdout)
		}
		if ok, d := func() (bool, string) {
			a, b := filesBefore, ce.store.Clone()
			a.DropLocks()
			b.DropLocks()
			for _, k := range a.Keys(backend.SnapshotFile) {
				x, _ := a.Get(backend.SnapshotFile, k)
				y, ok := b.Get(backend.SnapshotFile, k)
				if !ok || string(x) != string(y) {
					return false, "snapshot file " + k + " changed"
				}
			}
			return true, ""
		}(); !ok {
			fatalf("rewrite %s matches nothing but %s", desc, d)
		}
		return classes, ""
	}
	if newID == "" {
		fatalf("rewrite %s: no new snapshot although the model removes %d of %d entries (keeps %v)\n%s", desc, removed, len(orig.Nodes), vKeysC27(keep), out.Stdout)
	}
	wantCount := len(before) + 1
	if ps.Forget {
		wantCount = len(before)
	}
	if len(after) != wantCount {
		fatalf("rewrite %s: %d snapshots afterwards, want %d", desc, len(after), wantCount)
	}
	origStill := false
	for _, id := range after {
		if id == orig.ID {
			origStill = true
		}
	}
	if origStill == ps.Forget {
		fatalf("rewrite %s: forget=%v but original snapshot present=%v", desc, ps.Forget, origStill)
	}

	nw, err := vLoadSnapC27(ce, newID)
	if err != nil {
		fatalf("rewrite %s: loading the new snapshot: %v", desc, err)
	}

	// tree == reference filter of the original tree, both directions
	var diffs []string
	for p := range keep {
		if _, ok := nw.Nodes[p]; !ok {
			diffs = append(diffs, "missing (should be kept): "+p)
		}
	}
	for p := range nw.Nodes {
		if !keep[p] {
			if _, ok := orig.Nodes[p]; ok {
				diffs = append(diffs, "present (should be removed): "+p)
			} else {
				diffs = append(diffs, "invented: "+p)
			}
		}
	}
	if len(diffs) > 0 {
		sort.Strings(diffs)
		fatalf("rewrite %s: new tree differs from the reference filter:\n  %s\noriginal entries: %v", desc, strings.Join(diffs, "\n  "), vNodeKeysC27(orig.Nodes))
	}
	// kept nodes are equal field by field (content IDs, metadata); a directory that lost
	// nothing below it keeps its subtree ID
	var files uint
	var bytes uint64
	for p, n := range nw.Nodes {
		o := orig.Nodes[p]
		lost := false
		if o.Type == data.NodeTypeDir {
			for q := range orig.Nodes {
				if strings.HasPrefix(q, p+"/") && !keep[q] {
					lost = true
					break
				}
			}
		}
		if a, b := vNodeJSONC27(o, !lost), vNodeJSONC27(n, !lost); a != b {
			fatalf("rewrite %s: kept entry %s changed:\n  before %s\n  after  %s", desc, p, a, b)
		}
		if n.Type == data.NodeTypeFile {
			files++
			bytes += n.Size
		}
	}

	// snapshot record: everything preserved but tree/original/tags/summary
	for k := range orig.JSON {
		if k == "tree" || k == "original" || k == "tags" || k == "summary" {
			continue
		}
		x, _ := json.Marshal(orig.JSON[k])
		y, _ := json.Marshal(nw.JSON[k])
		if string(x) != string(y) {
			fatalf("rewrite %s: snapshot field %q changed: %s -> %s", desc, k, x, y)
		}
	}
	for k := range nw.JSON {
		if _, ok := orig.JSON[k]; !ok && k != "original" && k != "tags" {
			fatalf("rewrite %s: new snapshot has an additional field %q", desc, k)
		}
	}
	if nw.Sn.Original == nil || nw.Sn.Original.String() != orig.ID {
		fatalf("rewrite %s: original = %v, want %s", desc, nw.Sn.Original, orig.ID)
	}
	wantTags := append([]string{}, orig.Sn.Tags...)
	if !ps.Forget && !vSetOfC27(orig.Sn.Tags)["rewrite"] {
		wantTags = append(wantTags, "rewrite")
	}
	if strings.Join(nw.Sn.Tags, "\x00") != strings.Join(wantTags, "\x00") {
		fatalf("rewrite %s: tags %q, want %q", desc, nw.Sn.Tags, wantTags)
	}
	// summary statistics == model
	if nw.Sn.Summary == nil || orig.Sn.Summary == nil {
		fatalf("rewrite %s: summary missing (orig %v, new %v)", desc, orig.Sn.Summary, nw.Sn.Summary)
	}
	if nw.Sn.Summary.TotalFilesProcessed != files || nw.Sn.Summary.TotalBytesProcessed != bytes {
		fatalf("rewrite %s: summary says %d files / %d bytes, the new tree has %d files / %d bytes",
			desc, nw.Sn.Summary.TotalFilesProcessed, nw.Sn.Summary.TotalBytesProcessed, files, bytes)
	}
	ws := *orig.Sn.Summary
	ws.TotalFilesProcessed, ws.TotalBytesProcessed = files, bytes
	if a, b := vJSON(ws), vJSON(*nw.Sn.Summary); a != b {
		fatalf("rewrite %s: other summary fields changed: %s -> %s", desc, a, b)
	}

	if removedNonLeaf && len(keep) > 0 {
		key = desc + "|" + strings.Join(vNodeKeysC27(orig.Nodes), ",")
	}
	return classes, key
}

func vDropNegC27(l []string) []string {
	var out []string
	for _, p := range l {
		if !strings.HasPrefix(p, "!") {
			out = append(out, p)
		}
	}
	return out
}

func vSameSetC27(a, b map[string]bool) bool {
	if len(a) != len(b) {
		return false
	}
	for k := range a {
		if !b[k] {
			return false
		}
	}
	return true
}

func vSetOfC27(l []string) map[string]bool {
	m := map[string]bool{}
	for _, x := range l {
		m[x] = true
	}
	return m
}

// vMakeTwinsC27 saves a snapshot whose root tree holds the source directory node of orig
// under two names (same subtree ID, same metadata); the summary counts both copies.
func vMakeTwinsC27(e *vEnv, orig *vSnapC27, srcAbs string, names []string) (string, error) {
	dir := orig.Nodes[srcAbs]
	if dir == nil || dir.Subtree == nil {
		return "", fmt.Errorf("source directory node not found")
	}
	var newID string
	err := e.WithRepoRW(func(ctx context.Context, repo *repository.Repository) error {
		if err := repo.LoadIndex(ctx, restic.NoopTerminalCounterFactory); err != nil {
			return err
		}
		var root restic.ID
		err := repo.WithBlobUploader(ctx, func(ctx context.Context, up restic.BlobSaverWithAsync) error {
			tw := data.NewTreeWriter(up)
			for _, n := range names {
				node := *dir
				node.Name = n
				if err := tw.AddNode(&node); err != nil {
					return err
				}
			}
			var err error
			root, err = tw.Finalize(ctx)
			return err
		})
		if err != nil {
			return err
		}
		sn := *orig.Sn
		sn.Tree = &root
		sn.Paths = []string{"/" + names[0], "/" + names[1]}
		if sn.Summary != nil {
			sum := *sn.Summary
			sum.TotalFilesProcessed *= 2
			sum.TotalBytesProcessed *= 2
			sn.Summary = &sum
		}
		id, err := data.SaveSnapshot(ctx, repo, &sn)
		if err != nil {
			return err
		}
		newID = id.String()
		return nil
	})
	return newID, err
}

func vKeysC27(m map[string]bool) []string {
	var out []string
	for k := range m {
		out = append(out, k)
	}
	sort.Strings(out)
	return out
}

func vNodeKeysC27(m map[string]*data.Node) []string {
	var out []string
	for k, n := range m {
		if n.Type == data.NodeTypeDir {
			k += "/"
		}
		out = append(out, k)
	}
	sort.Strings(out)
	return out
}

func TestVerifC27Rewrite(t *testing.T) {
	vSetup(t)
	st := verifkit.Begin(t, "C27")

	rapid.Check(t, func(t *rapid.T) {
		e, err := vNewEnv(true)
		if err != nil {
			t.Fatal(err)
		}
		defer e.Close()
		if err := e.Init("2"); err != nil {
			t.Fatal(err)
		}
		src := e.Scratch("src-")
		tr := vGenTree(t, vTreeGen{MaxEntries: 14, MaxFileLen: 400, Names: vNamesC27, Symlinks: true})
		if err := tr.Materialize(src); err != nil {
			t.Fatal(err)
		}
		bo := BackupOptions{}
		if rapid.Bool().Draw(t, "tagged") {
			bo.Tags = data.TagLists{{"t1", "rewrite"}}
		}
		if err := e.Backup([]string{src}, bo); err != nil {
			t.Fatalf("backup: %v", err)
		}
		ids, err := e.SnapshotIDs()
		if err != nil || len(ids) != 1 {
			t.Fatalf("snapshots: %v %v", ids, err)
		}
		orig, err := vLoadSnapC27(e, ids[0])
		if err != nil {
			t.Fatal(err)
		}
		srcAbs := filepath.ToSlash(src)
		_, srcComps := vSplitC27(srcAbs)
		// the stored tree holds the source under its full path
		for p, n := range tr {
			sn, ok := orig.Nodes[srcAbs+"/"+p]
			if !ok {
				t.Fatalf("harness: %s not in the stored tree %v", p, vNodeKeysC27(orig.Nodes))
			}
			if (n.Kind == 'd') != (sn.Type == data.NodeTypeDir) {
				t.Fatalf("harness: %s stored as %s", p, sn.Type)
			}
		}
		if len(orig.Nodes) != len(tr)+len(srcComps) {
			t.Fatalf("harness: stored tree has %d entries, model %d + %d ancestors", len(orig.Nodes), len(tr), len(srcComps))
		}
		// twin directories: a snapshot whose root holds the source directory's tree under
		// two names, i.e. two (and, nested, more) directories that share ONE tree blob.
		// `copy`, `rewrite` and older clients produce such snapshots.
		roots := []string{srcAbs}
		twins := rapid.IntRange(0, 2).Draw(t, "twins") == 0
		if twins {
			perm := rapid.Permutation(vNamesC27).Draw(t, "twinnames")
			names := []string{perm[0], perm[1]}
			sort.Strings(names)
			twinID, err := vMakeTwinsC27(e, orig, srcAbs, names)
			if err != nil {
				t.Fatalf("harness: twin snapshot: %v", err)
			}
			if orig, err = vLoadSnapC27(e, twinID); err != nil {
				t.Fatal(err)
			}
			roots = []string{"/" + names[0], "/" + names[1]}
			srcComps = srcComps[:1]
			if len(orig.Nodes) != 2*(len(tr)+1) {
				t.Fatalf("harness: twin tree has %d entries, want %d", len(orig.Nodes), 2*(len(tr)+1))
			}
		}
		underRoot := func(p string) bool {
			for _, r := range roots {
				if strings.HasPrefix(p, r+"/") {
					return true
				}
			}
			return false
		}
		var below, dirsWithKids []string
		for p, n := range orig.Nodes {
			if underRoot(p) {
				below = append(below, p)
				if n.Type == data.NodeTypeDir {
					for q := range orig.Nodes {
						if strings.HasPrefix(q, p+"/") {
							dirsWithKids = append(dirsWithKids, p)
							break
						}
					}
				}
			}
		}
		below = append(below, roots...)
		sort.Strings(below)
		sort.Strings(dirsWithKids)

		rounds := 3
		for r := 0; r < rounds; r++ {
			ps := vGenPatSetC27(t, below, dirsWithKids, len(srcComps))
			classes, key := vCheckRewriteC27(t.Fatalf, e, orig, ps)
			classes = append(classes, fmt.Sprintf("twin-dirs=%v", twins))
			if twins {
				keep := vFilterC27(orig.Nodes, ps)
				asym, removedAny := false, false
				for p := range orig.Nodes {
					if strings.HasPrefix(p, roots[0]+"/") && keep[p] != keep[roots[1]+p[len(roots[0]):]] {
						asym = true
					}
					if !keep[p] {
						removedAny = true
					}
				}
				classes = append(classes, fmt.Sprintf("twins-filtered-differently=%v", asym), fmt.Sprintf("twins-untouched=%v", !removedAny))
			}
			st.Case(key, classes...)
			if key != "" && st.WantSample() {
				st.Sample(map[string]any{"tree": tr.String(), "source": roots, "rewrite": ps, "kept": len(vFilterC27(orig.Nodes, ps)), "entries": len(orig.Nodes)})
			}
		}
	})
}
