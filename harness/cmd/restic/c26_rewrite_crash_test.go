package main

import (
	"context"
	"fmt"
	"os"
	"path"
	"sort"
	"strings"
	"testing"
	"time"

	"github.com/restic/restic/internal/backend"
	"github.com/restic/restic/internal/data"
	"github.com/restic/restic/internal/filter"
	"github.com/restic/restic/internal/global"
	"github.com/restic/restic/internal/repository"
	"github.com/restic/restic/internal/restic"
	"github.com/restic/restic/internal/verifkit"
	"github.com/restic/restic/internal/verifkit/vbe"
	"pgregory.net/rapid"
)

// ---------------------------------------------------------------------------
// reading a repository state

// vStateC26 is what the oracle sees of one repository state.
type vStateC26 struct {
	Snaps      map[string]*data.Snapshot // loadable snapshot files
	Unloadable map[string]string         // snapshot files that do not load
	RootOK     map[string]bool           // root tree blob of the snapshot can be loaded
}

// vReadStateC26 lists and loads all snapshot files of e and probes their root trees.
func vReadStateC26(e *vEnv) (*vStateC26, error) {
	s := &vStateC26{Snaps: map[string]*data.Snapshot{}, Unloadable: map[string]string{}, RootOK: map[string]bool{}}
	err := e.WithRepo(func(ctx context.Context, repo *repository.Repository) error {
		if err := repo.LoadIndex(ctx, restic.NoopTerminalCounterFactory); err != nil {
			return err
		}
		var ids []restic.ID
		if err := repo.List(ctx, restic.SnapshotFile, func(id restic.ID, _ int64) error {
			ids = append(ids, id)
			return nil
		}); err != nil {
			return err
		}
		for _, id := range ids {
			sn, err := data.LoadSnapshot(ctx, repo, id)
			if err != nil {
				s.Unloadable[id.String()] = err.Error()
				continue
			}
			s.Snaps[id.String()] = sn
			if sn.Tree != nil {
				if _, err := data.LoadTree(ctx, repo, *sn.Tree); err == nil {
					s.RootOK[id.String()] = true
				}
			}
		}
		return nil
	})
	return s, err
}

// vWalkC26 walks a snapshot tree the way `repair snapshots` judges it: status is
// "rootlost" (root tree unreadable), "damaged" (a subtree is unreadable or a file
// misses a content blob) or "intact". nodes maps each path to a rendering of the
// node without its subtree ID (type, size, content).
func vWalkC26(ctx context.Context, repo *repository.Repository, root restic.ID) (status string, nodes map[string]string) {
	nodes = map[string]string{}
	damaged := false
	var walk func(id restic.ID, dir string) bool
	walk = func(id restic.ID, dir string) bool {
		it, err := data.LoadTree(ctx, repo, id)
		if err != nil {
			return false
		}
		for item := range it {
			if item.Error != nil {
				return false
			}
			n := item.Node
			p := path.Join(dir, n.Name)
			switch n.Type {
			case data.NodeTypeDir:
				nodes[p] = "dir"
				if n.Subtree == nil {
					damaged = true
				} else if !walk(*n.Subtree, p) && *n.Subtree != vEmptyTreeC26 {
					// an unreadable subtree is replaced with an empty directory; if it WAS the empty
					// tree, repair stores that blob again and the snapshot is not modified
					damaged = true
				}
			case data.NodeTypeFile:
				for _, c := range n.Content {
					if _, ok := repo.LookupBlobSize(restic.BlobHandle{Type: restic.DataBlob, ID: c}); !ok {
						damaged = true
					}
				}
				nodes[p] = fmt.Sprintf("file %d %v", n.Size, n.Content)
			default:
				nodes[p] = fmt.Sprintf("%v %s", n.Type, n.LinkTarget)
			}
		}
		return true
	}
	if !walk(root, "/") {
		return "rootlost", nodes
	}
	if damaged {
		return "damaged", nodes
	}
	return "intact", nodes
}

// vTreesC26 walks the trees of the given snapshots on the state of e.
func vTreesC26(e *vEnv, trees map[string]restic.ID) (status map[string]string, nodes map[string]map[string]string, err error) {
	status, nodes = map[string]string{}, map[string]map[string]string{}
	err = e.WithRepo(func(ctx context.Context, repo *repository.Repository) error {
		if err := repo.LoadIndex(ctx, restic.NoopTerminalCounterFactory); err != nil {
			return err
		}
		for k, id := range trees {
			status[k], nodes[k] = vWalkC26(ctx, repo, id)
		}
		return nil
	})
	return
}

// ---------------------------------------------------------------------------
// the expectation for one command run

type vExpectC26 struct {
	Cmd       string
	Before    map[string]*data.Snapshot
	Selected  map[string]bool
	WantOrig  map[string]string // id -> the `original` a replacement must carry
	MayVanish map[string]bool   // repair: root tree unreadable, the snapshot is removed without replacement (modelled)
	MustStay  map[string]bool   // never removed: unselected, or the command runs without --forget
	SameBody  bool              // tag: a replacement has the time and tree of the snapshot it replaces
}

func vOrigC26(sn *data.Snapshot) string {
	if sn.Original == nil {
		return ""
	}
	return sn.Original.String()
}

// replacements returns the new snapshot files of st that stand for old snapshot id.
func (x *vExpectC26) replacements(st *vStateC26, id string) []string {
	var out []string
	old := x.Before[id]
	for nid, sn := range st.Snaps {
		if x.Before[nid] != nil || vOrigC26(sn) != x.WantOrig[id] {
			continue
		}
		if x.SameBody && !(sn.Time.Equal(old.Time) && sn.Tree != nil && old.Tree != nil && *sn.Tree == *old.Tree) {
			continue
		}
		out = append(out, nid)
	}
	sort.Strings(out)
	return out
}

// checkState is the invariant of every crash / fault state. It returns the snapshots for
// which both the old file and its replacement exist in that state.
func (x *vExpectC26) checkState(st *vStateC26) (both []string, err error) {
	for id, msg := range st.Unloadable {
		return nil, fmt.Errorf("snapshot file %s does not load: %s", id[:8], msg)
	}
	for id := range x.Before {
		_, present := st.Snaps[id]
		repl := x.replacements(st, id)
		for _, r := range repl {
			if !st.RootOK[r] {
				return nil, fmt.Errorf("replacement %s of snapshot %s exists but its root tree %v cannot be loaded", r[:8], id[:8], st.Snaps[r].Tree)
			}
		}
		switch {
		case present && len(repl) > 0:
			both = append(both, id)
		case present:
		case x.MustStay[id]:
			return nil, fmt.Errorf("snapshot %s is gone although the command must keep it (selected=%v)", id[:8], x.Selected[id])
		case len(repl) > 0:
		case x.MayVanish[id]:
		default:
			return nil, fmt.Errorf("snapshot %s is gone and no snapshot with original=%s exists: neither S nor S'", id[:8], x.WantOrig[id][:8])
		}
	}
	return both, nil
}

func vDescribeC26(st *vStateC26) string {
	var ids []string
	for id := range st.Snaps {
		ids = append(ids, id)
	}
	sort.Strings(ids)
	var sb strings.Builder
	for _, id := range ids {
		sn := st.Snaps[id]
		o := vOrigC26(sn)
		if o != "" {
			o = o[:8]
		}
		fmt.Fprintf(&sb, "  %s host=%s time=%s tags=%v original=%s tree=%s\n", id[:8], sn.Hostname, sn.Time.UTC().Format(time.RFC3339), sn.Tags, o, sn.Tree.Str())
	}
	return sb.String()
}

// ---------------------------------------------------------------------------

var vEmptyTreeC26 = restic.Hash([]byte("{\"nodes\":[]}\n"))

var vNamesC26 = []string{"alpha", "beta", "gamma", "delta.txt", "eps.dat", "zeta"}
var vHostsC26 = []string{"hA", "hB"}
var vTagPoolC26 = []string{"t1", "t2", "t3"}

func vGenTagsC26(t *rapid.T, label string) []string {
	var out []string
	for i, n := 0, rapid.IntRange(0, 2).Draw(t, label+"n"); i < n; i++ {
		out = append(out, rapid.SampledFrom(vTagPoolC26).Draw(t, label))
	}
	return out
}

func vHasNameC26(tr vTree, names []string) bool {
	for p := range tr {
		for _, c := range strings.Split(p, "/") {
			for _, n := range names {
				if c == n {
					return true
				}
			}
		}
	}
	return false
}

func vExcludedC26(p string, names []string) bool {
	for _, c := range strings.Split(strings.Trim(p, "/"), "/") {
		for _, n := range names {
			if c == n {
				return true
			}
		}
	}
	return false
}

// vCmdC26 is one generated command (also the sample form).
type vCmdC26 struct {
	Cmd     string   `json:"cmd"`
	Sel     string   `json:"selection"`
	Args    []string `json:"args,omitempty"`
	Host    string   `json:"host_filter,omitempty"`
	Add     []string `json:"add,omitempty"`
	Remove  []string `json:"remove,omitempty"`
	Set     []string `json:"set,omitempty"`
	Exclude []string `json:"exclude,omitempty"`
	Forget  bool     `json:"forget"`
	NewHost string   `json:"new_host,omitempty"`
	NewTime string   `json:"new_time,omitempty"`
	Damage  string   `json:"damage,omitempty"`
}

func (c *vCmdC26) run(ctx context.Context, e *vEnv) (vOut, error) {
	g := e.gopts
	g.Quiet = false
	filt := data.SnapshotFilter{}
	if c.Host != "" {
		filt.Hosts = []string{c.Host}
	}
	return e.callCtx(ctx, g, func(ctx context.Context, gopts global.Options) error {
		switch c.Cmd {
		case "tag":
			o := TagOptions{SnapshotFilter: filt}
			if len(c.Set) > 0 {
				o.SetTags = data.TagLists{data.TagList(c.Set)}
			}
			if len(c.Add) > 0 {
				o.AddTags = data.TagLists{data.TagList(c.Add)}
			}
			if len(c.Remove) > 0 {
				o.RemoveTags = data.TagLists{data.TagList(c.Remove)}
			}
			return runTag(ctx, o, gopts, gopts.Term, c.Args)
		case "rewrite":
			o := RewriteOptions{Forget: c.Forget, SnapshotFilter: filt,
				ExcludePatternOptions: filter.ExcludePatternOptions{Excludes: c.Exclude},
				Metadata:              snapshotMetadataArgs{Hostname: c.NewHost, Time: c.NewTime}}
			return runRewrite(ctx, o, gopts, c.Args, gopts.Term)
		default:
			return runRepairSnapshots(ctx, gopts, RepairOptions{Forget: c.Forget, SnapshotFilter: filt}, c.Args, gopts.Term)
		}
	})
}

func TestVerifC26RewriteCrashPrefixes(t *testing.T) {
	vSetup(t)
	st := verifkit.Begin(t, "C26")
	rapid.Check(t, func(t *rapid.T) {
		e, err := vNewEnv(true)
		if err != nil {
			t.Fatal(err)
		}
		defer e.Close()
		if err := e.Init(rapid.SampledFrom([]string{"2", "2", "2", "1"}).Draw(t, "version")); err != nil {
			t.Fatal(err)
		}
		src := e.Scratch("src-")

		// ---- generated snapshots: 2-3 real backups of an evolving small tree ...
		models := map[string]vTree{} // tree id -> model of the source directory
		var tr vTree
		nb := rapid.IntRange(2, 3).Draw(t, "backups")
		for i := 0; i < nb; i++ {
			if i == 0 || rapid.IntRange(0, 3).Draw(t, "fresh") == 0 {
				tr = vGenTree(t, vTreeGen{MaxEntries: 8, MaxFileLen: 600, Names: vNamesC26})
			} else {
				tr = tr.Clone()
				ps := tr.Paths()
				if len(ps) > 1 && rapid.Bool().Draw(t, "del") { // drop one entry (with everything below it)
					d := rapid.SampledFrom(ps).Draw(t, "delpath")
					for _, p := range ps {
						if p == d || strings.HasPrefix(p, d+"/") {
							delete(tr, p)
						}
					}
				}
				for j, k := 0, rapid.IntRange(1, 2).Draw(t, "adds"); j < k; j++ { // add / replace top-level files
					nm := rapid.SampledFrom(vNamesC26).Draw(t, "addname")
					if nd, ok := tr[nm]; ok && nd.Kind == 'd' {
						nm = nm + "/" + rapid.SampledFrom(vNamesC26).Draw(t, "addname2")
						if nd2, ok := tr[nm]; ok && nd2.Kind == 'd' {
							continue
						}
					}
					tr[nm] = &vNode{Kind: 'f', Mode: 0o644, Mtime: int64(1600000000+i) * 1e9, Seed: rapid.Uint64().Draw(t, "addseed"), Len: rapid.IntRange(1, 400).Draw(t, "addlen")}
				}
			}
			_ = os.RemoveAll(src)
			_ = os.Mkdir(src, 0o755)
			if err := tr.Materialize(src); err != nil {
				t.Fatal(err)
			}
			bo := BackupOptions{Host: rapid.SampledFrom(vHostsC26).Draw(t, "bhost"), TimeStamp: vTimeString(time.Date(2022, 1, 1+i, 10, 0, 0, 0, time.Local))}
			if tags := vGenTagsC26(t, "btag"); len(tags) > 0 {
				bo.Tags = data.TagLists{data.TagList(tags)}
			}
			if err := e.Backup([]string{src}, bo); err != nil {
				t.Fatalf("backup: %v", err)
			}
			sns, err := e.Snapshots()
			if err != nil {
				t.Fatal(err)
			}
			models[sns[len(sns)-1].Tree.String()] = tr
		}
		// ... plus 0-2 snapshot files written directly over those trees: other tags/hosts, some already carry an `original`
		real, err := e.Snapshots()
		if err != nil || len(real) != nb {
			t.Fatalf("setup: %d snapshots, %v", len(real), err)
		}
		nx := rapid.IntRange(0, 2).Draw(t, "extra")
		err = e.WithRepoRW(func(ctx context.Context, repo *repository.Repository) error {
			for i := 0; i < nx; i++ {
				of := real[rapid.IntRange(0, len(real)-1).Draw(t, "extraof")]
				sn := &data.Snapshot{Time: time.Date(2022, 2, 1+i, 12, 0, 0, 0, time.UTC), Tree: of.Tree, Paths: of.Paths,
					Hostname: rapid.SampledFrom(vHostsC26).Draw(t, "xhost"), Username: "u", Tags: vGenTagsC26(t, "xtag")}
				if rapid.Bool().Draw(t, "xsummary") {
					sn.Summary = of.Summary // otherwise: a snapshot without summary, as written by restic < 0.17
				}
				if rapid.IntRange(0, 2).Draw(t, "xorig") > 0 {
					id := restic.Hash([]byte(fmt.Sprintf("earlier-%d", i)))
					sn.Original = &id
				}
				if _, err := data.SaveSnapshot(ctx, repo, sn); err != nil {
					return err
				}
			}
			return nil
		})
		if err != nil {
			t.Fatalf("writing snapshots: %v", err)
		}
		baseStore := e.store
		baseStore.DropLocks()

		// ---- two commands, each on its own clone of that repository
		for ci := 0; ci < 2; ci++ {
			ce := e.OnStore(baseStore.Clone())
			func() {
				defer ce.Release()
				vOneCommandC26(t, st, ce, models, src, ci)
			}()
		}
	})
}

func vOneCommandC26(t *rapid.T, st *verifkit.Stats, ce *vEnv, models map[string]vTree, src string, ci int) {
	lbl := func(s string) string { return fmt.Sprintf("c%d.%s", ci, s) }
	c := &vCmdC26{Cmd: rapid.SampledFrom([]string{"tag", "rewrite", "rewrite", "repair", "repair"}).Draw(t, lbl("cmd"))}

	// repair snapshots works on a damaged repository: remove one pack and make the index correct again
	// ("The command depends on a correct index, thus make sure to run repair index first")
	if c.Cmd == "repair" {
		packs := ce.store.Keys(backend.PackFile)
		if rapid.IntRange(0, 5).Draw(t, lbl("intact")) == 0 {
			c.Damage = "none"
		} else {
			victim := packs[rapid.IntRange(0, len(packs)-1).Draw(t, lbl("victim"))]
			ce.store.Del(backend.PackFile, victim)
			c.Damage = "pack " + victim[:8]
			if _, err := ce.call(ce.gopts, func(ctx context.Context, gopts global.Options) error {
				return runRebuildIndex(ctx, RepairIndexOptions{}, gopts, gopts.Term)
			}); err != nil {
				t.Fatalf("repair index after removing %s: %v", c.Damage, err)
			}
			ce.store.DropLocks()
		}
	}

	before, err := vReadStateC26(ce)
	if err != nil || len(before.Unloadable) > 0 {
		t.Fatalf("reading the state before the command: %v %v", err, before.Unloadable)
	}
	var ids []string
	trees := map[string]restic.ID{}
	for id, sn := range before.Snaps {
		ids = append(ids, id)
		trees[id] = *sn.Tree
	}
	sort.Strings(ids)
	tstatus, tnodes, err := vTreesC26(ce, trees)
	if err != nil {
		t.Fatal(err)
	}

	// ---- options
	x := &vExpectC26{Cmd: c.Cmd, Before: before.Snaps, Selected: map[string]bool{}, WantOrig: map[string]string{}, MayVanish: map[string]bool{}, MustStay: map[string]bool{}}
	c.Sel = rapid.SampledFrom([]string{"all", "all", "ids", "host"}).Draw(t, lbl("sel"))
	switch c.Sel {
	case "all":
		for _, id := range ids {
			x.Selected[id] = true
		}
	case "ids":
		perm := rapid.Permutation(ids).Draw(t, lbl("idperm"))
		for _, id := range perm[:rapid.IntRange(1, len(ids)).Draw(t, lbl("nids"))] {
			c.Args = append(c.Args, id[:rapid.SampledFrom([]int{10, 64}).Draw(t, lbl("idlen"))])
			x.Selected[id] = true
		}
	case "host":
		c.Host = rapid.SampledFrom(vHostsC26).Draw(t, lbl("fhost"))
		for _, id := range ids {
			if before.Snaps[id].Hostname == c.Host {
				x.Selected[id] = true
			}
		}
	}
	switch c.Cmd {
	case "tag":
		x.SameBody = true
		if rapid.IntRange(0, 2).Draw(t, lbl("tagset")) == 0 {
			c.Set = []string{rapid.SampledFrom([]string{"t1", "t2", "new", ""}).Draw(t, lbl("set"))}
		} else {
			if rapid.Bool().Draw(t, lbl("hasadd")) {
				c.Add = []string{rapid.SampledFrom([]string{"t1", "t2", "new"}).Draw(t, lbl("add"))}
			}
			if len(c.Add) == 0 || rapid.Bool().Draw(t, lbl("hasrm")) {
				c.Remove = []string{rapid.SampledFrom(vTagPoolC26).Draw(t, lbl("rm"))}
			}
		}
	case "rewrite":
		c.Forget = rapid.Bool().Draw(t, lbl("forget"))
		if rapid.IntRange(0, 3).Draw(t, lbl("hasexcl")) > 0 {
			c.Exclude = rapid.SliceOfNDistinct(rapid.SampledFrom(append([]string{"nosuchname"}, vNamesC26...)), 1, 2, rapid.ID[string]).Draw(t, lbl("excl"))
		}
		if len(c.Exclude) == 0 || rapid.IntRange(0, 2).Draw(t, lbl("hasmeta")) == 0 {
			switch rapid.IntRange(0, 2).Draw(t, lbl("meta")) {
			case 0:
				c.NewHost = rapid.SampledFrom([]string{"hA", "hNew"}).Draw(t, lbl("newhost"))
			case 1:
				c.NewTime = "2021-03-04 05:06:07"
			default:
				c.NewHost, c.NewTime = "hNew", "2021-03-04 05:06:07"
			}
		}
	case "repair":
		c.Forget = rapid.IntRange(0, 3).Draw(t, lbl("forget")) > 0
	}

	// ---- model of the effect on each snapshot
	effect := map[string]string{} // unselected / keep / replace / add / vanish / maybe (tag)
	treeChange := map[string]bool{}
	for _, id := range ids {
		sn := before.Snaps[id]
		x.WantOrig[id] = id
		if !x.Selected[id] {
			effect[id] = "unselected"
			x.MustStay[id] = true
			continue
		}
		switch c.Cmd {
		case "tag":
			// the original is retained over all tag changes
			if sn.Original != nil {
				x.WantOrig[id] = sn.Original.String()
			}
			effect[id] = "maybe"
		case "rewrite":
			m, ok := models[sn.Tree.String()]
			if !ok {
				t.Fatalf("no model for tree %v", sn.Tree)
			}
			treeChange[id] = len(c.Exclude) > 0 && vHasNameC26(m, c.Exclude)
			// rewrite --exclude also attaches the (file count, size) summary to a snapshot that has none
			addsSummary := len(c.Exclude) > 0 && sn.Summary == nil
			switch {
			case !treeChange[id] && !addsSummary && c.NewHost == "" && c.NewTime == "":
				effect[id] = "keep"
				x.MustStay[id] = true
			case c.Forget:
				effect[id] = "replace"
			default:
				effect[id] = "add"
				x.MustStay[id] = true
			}
		case "repair":
			switch tstatus[id] {
			case "intact":
				effect[id] = "keep"
				x.MustStay[id] = true
			case "rootlost":
				// documented: a snapshot whose repaired tree is empty is removed
				effect[id] = "vanish"
				x.MayVanish[id] = true
			default:
				treeChange[id] = true
				if c.Forget {
					effect[id] = "replace"
				} else {
					effect[id] = "add"
					x.MustStay[id] = true
				}
			}
		}
	}

	// ---- the recorded run
	ce.store.StartRecording(vbe.NoFaults())
	out, rerr := c.run(context.Background(), ce)
	log := ce.store.StopRecording()
	if rerr != nil {
		t.Fatalf("%s failed on a healthy backend: %v\n%s%s\ncommand %s", c.Cmd, rerr, out.Stdout, out.Stderr, vJSON(c))
	}
	snapSaves, snapRemoves := 0, 0
	for _, op := range log {
		if op.Key.Type == backend.SnapshotFile {
			if op.Remove {
				snapRemoves++
			} else {
				snapSaves++
			}
		}
	}
	ctxt := func() string {
		return fmt.Sprintf("command %s\nbefore:\n%sops:\n%s", vJSON(c), vDescribeC26(before), vOpsStringC26(log))
	}

	// ---- every prefix of the Save/Remove log is a crash state
	bothAt := map[string]int{} // snapshot -> number of crash states holding both it and its replacement
	for k := 0; k <= len(log); k++ {
		s := ce.store.StateAt(k)
		s.DropLocks()
		se := ce.OnStore(s)
		cs, err := vReadStateC26(se)
		se.Release()
		if err != nil {
			t.Fatalf("crash after %d of %d operations: repository does not open: %v\n%s", k, len(log), err, ctxt())
		}
		st.Evals(1)
		both, err := x.checkState(cs)
		if err != nil {
			t.Fatalf("crash after %d of %d operations: %v\nstate:\n%s%s", k, len(log), err, vDescribeC26(cs), ctxt())
		}
		for _, id := range both {
			bothAt[id]++
		}
	}

	// ---- final state: the replacement carries the first snapshot's ID and the right tree
	final, err := vReadStateC26(ce)
	if err != nil {
		t.Fatal(err)
	}
	ftrees := map[string]restic.ID{}
	for id, sn := range final.Snaps {
		if before.Snaps[id] == nil && sn.Tree != nil {
			ftrees[id] = *sn.Tree
		}
	}
	fstatus, fnodes, err := vTreesC26(ce, ftrees)
	if err != nil {
		t.Fatal(err)
	}
	// non-trivial: some crash state fell between the Save of a replacement and the Remove of the snapshot it replaces
	bothStates := 0
	for id, n := range bothAt {
		if _, stillThere := final.Snaps[id]; !stillThere {
			bothStates += n
		}
	}
	claimed := map[string]string{} // new snapshot -> the old one it replaces
	ffail := func(format string, a ...any) {
		t.Fatalf("final state: %s\nstate:\n%s%s", fmt.Sprintf(format, a...), vDescribeC26(final), ctxt())
	}
	nReplaced := 0
	for _, id := range ids {
		old := before.Snaps[id]
		_, present := final.Snaps[id]
		repl := x.replacements(final, id)
		eff := effect[id]
		if eff == "maybe" { // tag: decided by what happened
			switch {
			case present && len(repl) == 0:
				eff = "keep"
			case !present:
				eff = "replace"
			default:
				ffail("tag left both snapshot %s and its replacement %v", id[:8], vShortC26(repl))
			}
		}
		switch eff {
		case "unselected", "keep":
			if !present {
				ffail("snapshot %s (%s) was removed", id[:8], eff)
			}
			if len(repl) > 0 {
				ffail("snapshot %s (%s) got a replacement %v", id[:8], eff, vShortC26(repl))
			}
			continue
		case "vanish":
			if present || len(repl) > 0 {
				ffail("snapshot %s with unreadable root tree: present=%v replacements=%v", id[:8], present, vShortC26(repl))
			}
			continue
		case "replace":
			if present {
				ffail("snapshot %s should have been replaced but still exists (replacements %v)", id[:8], vShortC26(repl))
			}
		case "add":
			if !present {
				ffail("snapshot %s was removed although the command ran without --forget", id[:8])
			}
		}
		if len(repl) != 1 {
			ffail("snapshot %s (%s): %d snapshots with original=%s, want 1", id[:8], eff, len(repl), x.WantOrig[id][:8])
		}
		nReplaced++
		claimed[repl[0]] = id
		nw := final.Snaps[repl[0]]
		// tree
		if treeChange[id] {
			if *nw.Tree == *old.Tree {
				ffail("replacement %s of %s: tree unchanged although the filter/repair applies", repl[0][:8], id[:8])
			}
		} else if *nw.Tree != *old.Tree {
			ffail("replacement %s of %s: tree %v != %v although nothing changes it", repl[0][:8], id[:8], nw.Tree.Str(), old.Tree.Str())
		}
		if treeChange[id] && c.Cmd == "rewrite" {
			want := map[string]string{}
			for p, v := range tnodes[id] {
				if !vExcludedC26(p, c.Exclude) {
					want[p] = v
				}
			}
			if d := vMapDiffC26(want, fnodes[repl[0]]); d != "" {
				ffail("replacement %s of %s: tree is not the old one minus %v: %s", repl[0][:8], id[:8], c.Exclude, d)
			}
			if fstatus[repl[0]] != "intact" {
				ffail("replacement %s of %s: tree is %s", repl[0][:8], id[:8], fstatus[repl[0]])
			}
		}
		if c.Cmd == "repair" {
			if fstatus[repl[0]] != "intact" {
				ffail("repaired snapshot %s of %s: tree is still %s", repl[0][:8], id[:8], fstatus[repl[0]])
			}
			for p := range fnodes[repl[0]] {
				if _, ok := tnodes[id][p]; !ok {
					ffail("repaired snapshot %s of %s: invented path %s", repl[0][:8], id[:8], p)
				}
			}
		}
		// metadata
		wantHost, wantTime := old.Hostname, old.Time
		if c.NewHost != "" {
			wantHost = c.NewHost
		}
		if c.NewTime != "" {
			wantTime, _ = time.ParseInLocation(global.TimeFormat, c.NewTime, time.Local)
		}
		if nw.Hostname != wantHost || !nw.Time.Equal(wantTime) {
			ffail("replacement %s of %s: host/time = %s/%v, want %s/%v", repl[0][:8], id[:8], nw.Hostname, nw.Time, wantHost, wantTime)
		}
		if strings.Join(nw.Paths, "\x00") != strings.Join(old.Paths, "\x00") || nw.Username != old.Username {
			ffail("replacement %s of %s: paths/username changed", repl[0][:8], id[:8])
		}
		if c.Cmd != "tag" {
			wantTags := append([]string(nil), old.Tags...)
			if eff == "add" {
				mark := map[string]string{"rewrite": "rewrite", "repair": "repaired"}[c.Cmd]
				has := false
				for _, tg := range wantTags {
					if tg == mark {
						has = true
					}
				}
				if !has {
					wantTags = append(wantTags, mark)
				}
			}
			if strings.Join(nw.Tags, "\x00") != strings.Join(wantTags, "\x00") {
				ffail("replacement %s of %s: tags %q, want %q", repl[0][:8], id[:8], nw.Tags, wantTags)
			}
		}
	}
	for nid := range final.Snaps {
		if before.Snaps[nid] == nil && claimed[nid] == "" {
			ffail("new snapshot %s does not replace any snapshot", nid[:8])
		}
	}
	if len(final.Unloadable) > 0 {
		ffail("unloadable snapshot files %v", final.Unloadable)
	}

	// ---- one fault variant on a fresh copy: the backend goes away / reports a failure after applying / the run is cancelled
	faultMode := "none"
	if len(log) > 0 {
		k := rapid.IntRange(0, len(log)-1).Draw(t, lbl("failAt"))
		faultMode = rapid.SampledFrom([]string{"failfrom", "failafterapply", "cancel"}).Draw(t, lbl("failmode"))
		fs := ce.store.StateAt(0)
		fe := ce.OnStore(fs)
		f := vbe.NoFaults()
		ctx, cancel := context.WithCancel(context.Background())
		switch faultMode {
		case "failfrom":
			f.FailFrom = k
		case "failafterapply":
			f.FailAfterApply = map[int]bool{k: true}
		case "cancel":
			f.CancelAt, f.Cancel = k, cancel
		}
		// rewrite / repair snapshots in filter mode: after a failed upload the snapshot walk (ForAllSnapshots) may
		// still hand the next snapshot to the command, which then panics "uploader already started" instead of
		// returning the error (reported separately; it loses no snapshot, so it is outside this property).
		// The fault run therefore names the same selected snapshots explicitly: FindAll stops at the first error.
		fc := *c
		if c.Cmd != "tag" && len(c.Args) == 0 {
			fc.Host = ""
			fc.Args = nil
			for _, id := range ids {
				if x.Selected[id] {
					fc.Args = append(fc.Args, id)
				}
			}
		}
		fs.StartRecording(f)
		var ferr error
		if c.Cmd == "tag" || len(fc.Args) > 0 {
			_, ferr = fc.run(ctx, fe)
		} else {
			faultMode = "none"
		}
		cancel()
		fs.StopRecording()
		fs.DropLocks()
		cs, err := vReadStateC26(fe)
		fe.Release()
		if err != nil {
			t.Fatalf("after fault %s at op %d: repository does not open: %v\n%s", faultMode, k, err, ctxt())
		}
		st.Evals(1)
		if _, err := x.checkState(cs); err != nil {
			t.Fatalf("after fault %s at op %d (command returned %v): %v\nstate:\n%s%s", faultMode, k, ferr, err, vDescribeC26(cs), ctxt())
		}
	}

	// ---- bookkeeping
	key := ""
	if bothStates > 0 {
		key = vJSON(c) + "|" + ce.store.Digest()[:16]
	}
	classes := []string{"cmd=" + c.Cmd, "sel=" + c.Sel, fmt.Sprintf("between-save-and-remove=%v", bothStates > 0), "fault=" + faultMode,
		fmt.Sprintf("replaced=%d", min(nReplaced, 3))}
	seen := map[string]bool{}
	for _, id := range ids {
		if !seen[effect[id]] {
			seen[effect[id]] = true
			classes = append(classes, c.Cmd+":"+effect[id])
		}
		if x.Selected[id] && before.Snaps[id].Original != nil && !seen["orig"] {
			seen["orig"] = true
			classes = append(classes, c.Cmd+":had-original")
		}
	}
	switch c.Cmd {
	case "rewrite":
		classes = append(classes, fmt.Sprintf("rewrite:forget=%v", c.Forget), fmt.Sprintf("rewrite:exclude=%v", len(c.Exclude) > 0),
			fmt.Sprintf("rewrite:metadata=%v", c.NewHost != "" || c.NewTime != ""))
	case "repair":
		classes = append(classes, fmt.Sprintf("repair:forget=%v", c.Forget), fmt.Sprintf("repair:damage=%v", c.Damage != "none"))
	case "tag":
		classes = append(classes, fmt.Sprintf("tag:set=%v", len(c.Set) > 0))
	}
	st.Case(key, classes...)
	if st.WantSample() {
		var ops []string
		for _, op := range log {
			ops = append(ops, op.String())
		}
		st.Sample(map[string]any{"command": c, "effects": effect, "ops": ops, "snapshot_saves": snapSaves, "snapshot_removes": snapRemoves,
			"states_with_old_and_new": bothStates})
	}
	_ = src
}

func vShortC26(ids []string) []string {
	out := make([]string, len(ids))
	for i, id := range ids {
		out[i] = id[:8]
	}
	return out
}

func vMapDiffC26(want, got map[string]string) string {
	var d []string
	for p, v := range want {
		if g, ok := got[p]; !ok {
			d = append(d, "missing "+p)
		} else if g != v {
			d = append(d, fmt.Sprintf("%s: %s != %s", p, g, v))
		}
	}
	for p := range got {
		if _, ok := want[p]; !ok {
			d = append(d, "unexpected "+p)
		}
	}
	sort.Strings(d)
	if len(d) > 6 {
		d = d[:6]
	}
	return strings.Join(d, "; ")
}

func vOpsStringC26(log []vbe.Op) string {
	var sb strings.Builder
	for i, op := range log {
		fmt.Fprintf(&sb, "  %2d %s\n", i, op)
	}
	return sb.String()
}

// TestVerifC26ProbeUploaderPanic documents a robustness defect found while building this check (not part of the
// property: no snapshot is lost). Run the test binary with VERIF_C26_PROBE=damage|cancel|failfrom: `rewrite --exclude`
// over several snapshots selected by filter; when the tree rewrite of one snapshot fails inside WithBlobUploader
// (tree unreadable, context cancelled) the uploader state is not reset, ForAllSnapshots still hands the next
// already-loaded snapshot to the callback, and the process panics with "uploader already started" in the
// snapshot-walk goroutine instead of returning the error.
func TestVerifC26ProbeUploaderPanic(t *testing.T) {
	if os.Getenv("VERIF_C26_PROBE") == "" {
		t.Skip("set VERIF_C26_PROBE=damage|cancel|failfrom to run")
	}
	vSetup(t)
	e, err := vNewEnv(true)
	if err != nil {
		t.Fatal(err)
	}
	defer e.Close()
	if err := e.Init("2"); err != nil {
		t.Fatal(err)
	}
	src := e.Scratch("src-")
	for i := 0; i < 4; i++ {
		_ = os.WriteFile(fmt.Sprintf("%s/alpha%d", src, i), []byte(fmt.Sprintf("content %d", i)), 0o644)
		_ = os.WriteFile(src+"/beta", []byte("x"), 0o644)
		if err := e.Backup([]string{src}, BackupOptions{TimeStamp: vTimeString(time.Date(2022, 1, 1+i, 10, 0, 0, 0, time.Local))}); err != nil {
			t.Fatal(err)
		}
	}
	e.store.DropLocks()
	f := vbe.NoFaults()
	ctx, cancel := context.WithCancel(context.Background())
	defer cancel()
	switch os.Getenv("VERIF_C26_PROBE") {
	case "cancel": // the run is cancelled when the first pack is uploaded (op 0 is the lock file)
		f.CancelAt, f.Cancel = 1, cancel
	case "failfrom": // the backend fails every write from the first pack upload on
		f.FailFrom = 1
	default: // "damage": the pack files are gone, so no tree can be loaded
		for _, p := range e.store.Keys(backend.PackFile) {
			e.store.Del(backend.PackFile, p)
		}
	}
	e.store.StartRecording(f)
	c := &vCmdC26{Cmd: "rewrite", Exclude: []string{"beta"}, Forget: true}
	_, rerr := c.run(ctx, e)
	e.store.StopRecording()
	t.Logf("rewrite returned: %v", rerr)
	if rerr == nil {
		t.Fatalf("rewrite succeeded on a failing backend")
	}
}
