package main

// Model side of the corruption checks (C03; also compiled into C34 through extra_files):
// generated small repositories on the harness backend together with everything the
// oracles need to know about them WITHOUT asking the code under test on damaged data:
// which blob lies where in which pack (taken from the healthy repository), the plaintext
// of every blob, which index file lists what, what every snapshot reaches, the byte
// regions of every stored file, and the corruption operators.

import (
	"archive/tar"
	"bytes"
	"context"
	"crypto/sha256"
	"encoding/binary"
	"encoding/json"
	"fmt"
	"io"
	"os"
	"path"
	"path/filepath"
	"sort"
	"strings"

	"github.com/klauspost/compress/zstd"
	"github.com/restic/restic/internal/backend"
	"github.com/restic/restic/internal/data"
	"github.com/restic/restic/internal/global"
	"github.com/restic/restic/internal/repository"
	"github.com/restic/restic/internal/repository/crypto"
	"github.com/restic/restic/internal/repository/index"
	"github.com/restic/restic/internal/restic"
	"github.com/restic/restic/internal/ui/progress"
	"github.com/restic/restic/internal/verifkit/vbe"
	"pgregory.net/rapid"
)

// ---------------------------------------------------------------------------
// repository + model

type vBlobC03 struct {
	H    restic.BlobHandle
	Pack string
	Off  int
	Len  int // stored (ciphertext) length
	ULen int // uncompressed plaintext length if compressed, else 0
}

type vIdxEntryC03 struct {
	H    restic.BlobHandle
	Pack string
}

type vSnapC03 struct {
	ID    string
	Tree  vTree                 // model of the source directory
	Root  restic.ID             // root tree of the snapshot
	Nodes map[string]*data.Node // absolute snapshot path -> node (healthy repository)
}

type vRepoDescC03 struct {
	Version     string `json:"version"`
	Compression string `json:"compression"`
	Snapshots   int    `json:"snapshots"`
	Dup         bool   `json:"dup"`       // blobs of the first snapshot exist in two packs listed by two index files
	TwoKeys     bool   `json:"two_keys"`  // a second key file with another password
	MultiBlob   bool   `json:"multiblob"` // one file is larger than the minimum chunk size
	Bytes       int    `json:"bytes"`     // total size of all stored files
}

type vRepoC03 struct {
	e       *vEnv // environment on the HEALTHY store
	src     string
	Desc    vRepoDescC03
	snaps   []*vSnapC03
	packs   map[string][]vBlobC03 // pack name -> blobs sorted by offset
	copies  map[restic.BlobHandle][]vBlobC03
	plain   map[restic.BlobHandle][]byte
	indexes map[string][]vIdxEntryC03
	reach   map[restic.BlobHandle]bool
	key     *crypto.Key
	keyID   string // the key file that opens the repository with vPassword
	files   []vbe.Key
	sizes   map[vbe.Key]int
}

func (r *vRepoC03) Close() { r.e.Close() }

// vRepoGenC03 controls vGenRepoC03.
type vRepoGenC03 struct {
	MinSnaps, MaxSnaps int
	MaxEntries         int
	AllowDup           bool
	AllowTwoKeys       bool
	AllowMultiBlob     bool
}

func vPostTreeC03(tr vTree) vTree {
	// pooled contents: every fifth pool member is an all-zero (compressible) file
	for _, nd := range tr {
		if nd.Kind == 'f' && nd.Seed%5 == 0 {
			nd.Zeros = true
		}
	}
	return tr
}

// vGenRepoC03 draws a repository: version, compression, 2-4 backups over a shared content
// pool, optionally duplicates, a second key, a multi-chunk file.
func vGenRepoC03(t *rapid.T, g vRepoGenC03) *vRepoC03 {
	if g.MaxSnaps == 0 {
		g.MinSnaps, g.MaxSnaps = 2, 4
	}
	if g.MaxEntries == 0 {
		g.MaxEntries = 9
	}
	version := rapid.SampledFrom([]string{"1", "2", "2"}).Draw(t, "version")
	comp := repository.CompressionAuto
	if version == "2" {
		comp = rapid.SampledFrom([]repository.CompressionMode{repository.CompressionAuto, repository.CompressionOff, repository.CompressionMax}).Draw(t, "compression")
	}
	n := rapid.IntRange(g.MinSnaps, g.MaxSnaps).Draw(t, "snapshots")
	var trees []vTree
	for i := 0; i < n; i++ {
		tr := vPostTreeC03(vGenTree(t, vTreeGen{MaxEntries: g.MaxEntries, ContentPool: 12, Symlinks: true}))
		trees = append(trees, tr)
	}
	dup := g.AllowDup && rapid.IntRange(0, 3).Draw(t, "dup") == 0
	twoKeys := g.AllowTwoKeys && rapid.IntRange(0, 2).Draw(t, "twokeys") == 0
	multi := g.AllowMultiBlob && rapid.IntRange(0, 5).Draw(t, "multiblob") == 0
	if multi {
		// larger than twice the minimum chunk size: at least two data blobs
		trees[0]["big.bin"] = &vNode{Kind: 'f', Seed: rapid.Uint64Range(1000, 1<<40).Draw(t, "bigseed"), Len: 1100000 + rapid.IntRange(0, 200000).Draw(t, "biglen"), Mode: 0o644, Mtime: 1600000000e9}
		if rapid.Bool().Draw(t, "repeatedblob") {
			// all zero: the chunker cuts at the 512 KiB minimum, the content list repeats ONE blob id 2-4 times
			trees[0]["big.bin"].Zeros = true
			trees[0]["big.bin"].Len = rapid.IntRange(2, 4).Draw(t, "zeroChunks")*512*1024 + rapid.IntRange(0, 3000).Draw(t, "zeroTail")
		}
	}
	r, err := vBuildRepoC03(version, comp, trees, dup, twoKeys)
	if err != nil {
		t.Fatalf("harness: building the repository failed: %v", err)
	}
	r.Desc.MultiBlob = multi
	return r
}

// vBuildRepoC03 creates the repository and its model.
func vBuildRepoC03(version string, comp repository.CompressionMode, trees []vTree, dup, twoKeys bool) (r *vRepoC03, err error) {
	e, err := vNewEnv(true)
	if err != nil {
		return nil, err
	}
	defer func() {
		if err != nil {
			e.Close()
		}
	}()
	e.gopts.Compression = comp
	if err = e.Init(version); err != nil {
		return nil, err
	}
	r = &vRepoC03{e: e, src: e.Scratch("src-")}
	r.Desc = vRepoDescC03{Version: version, Compression: comp.String(), Dup: dup, TwoKeys: twoKeys}

	backup := func(tr vTree, force bool) error {
		_ = os.RemoveAll(r.src)
		if err := os.Mkdir(r.src, 0o755); err != nil {
			return err
		}
		if err := tr.Materialize(r.src); err != nil {
			return err
		}
		before := e.store.Keys(backend.SnapshotFile)
		if err := e.Backup([]string{r.src}, BackupOptions{Force: force}); err != nil {
			return fmt.Errorf("backup: %w", err)
		}
		id := vNewID(before, e.store.Keys(backend.SnapshotFile))
		if id == "" {
			return fmt.Errorf("no new snapshot")
		}
		r.snaps = append(r.snaps, &vSnapC03{ID: id, Tree: tr})
		return nil
	}
	for i, tr := range trees {
		if err = backup(tr, false); err != nil {
			return nil, err
		}
		if i == 0 && dup {
			// hide the index of the first backup, back the same tree up again (everything is
			// uploaded a second time), then put the index back: every blob of the first
			// snapshot now exists in two packs, listed by two different index files.
			hidden := map[string][]byte{}
			for _, name := range e.store.Keys(backend.IndexFile) {
				b, _ := e.store.Get(backend.IndexFile, name)
				hidden[name] = b
				e.store.Del(backend.IndexFile, name)
			}
			if err = backup(tr, true); err != nil {
				return nil, err
			}
			for name, b := range hidden {
				e.store.Put(backend.IndexFile, name, b)
			}
		}
	}
	if twoKeys {
		err = e.WithRepo(func(ctx context.Context, repo *repository.Repository) error {
			_, err := repository.AddKey(ctx, repo, "another-password", "other", "otherhost", repo.Key())
			return err
		})
		if err != nil {
			return nil, err
		}
	}
	e.store.DropLocks()
	r.Desc.Snapshots = len(r.snaps)
	if err = r.load(); err != nil {
		return nil, err
	}
	return r, nil
}

// withIndex opens a repository (no lock) and loads its index.
func vWithIndexC03(e *vEnv, fn func(ctx context.Context, repo *repository.Repository) error) error {
	_, err := e.call(e.gopts, func(ctx context.Context, gopts global.Options) error {
		printer := progress.NewTerminalPrinter(false, 0, gopts.Term)
		ctx, repo, unlock, err := openWithReadLock(ctx, gopts, true, printer)
		if err != nil {
			return err
		}
		defer unlock()
		if err := repo.LoadIndex(ctx, printer); err != nil {
			return err
		}
		return fn(ctx, repo)
	})
	return err
}

// vWalkC03 visits every node below a tree (paths are absolute snapshot paths); missing
// trees are reported through onErr and skipped.
func vWalkC03(ctx context.Context, repo restic.BlobLoader, id restic.ID, prefix string, fn func(p string, n *data.Node), onTree func(id restic.ID), onErr func(p string, err error)) {
	it, err := data.LoadTree(ctx, repo, id)
	if err != nil {
		if onErr != nil {
			onErr(prefix, err)
		}
		return
	}
	if onTree != nil {
		onTree(id)
	}
	for item := range it {
		if item.Error != nil {
			if onErr != nil {
				onErr(prefix, item.Error)
			}
			return
		}
		n := item.Node
		p := path.Join(prefix, n.Name)
		fn(p, n)
		if n.Type == data.NodeTypeDir && n.Subtree != nil {
			vWalkC03(ctx, repo, *n.Subtree, p, fn, onTree, onErr)
		}
	}
}

// load fills the model from the healthy repository.
func (r *vRepoC03) load() error {
	r.packs = map[string][]vBlobC03{}
	r.copies = map[restic.BlobHandle][]vBlobC03{}
	r.plain = map[restic.BlobHandle][]byte{}
	r.indexes = map[string][]vIdxEntryC03{}
	r.reach = map[restic.BlobHandle]bool{}
	err := vWithIndexC03(r.e, func(ctx context.Context, repo *repository.Repository) error {
		r.key = repo.Key()
		r.keyID = repo.KeyID().String()
		// which index file lists which blob at which place: from the decoded index files
		for _, name := range r.e.store.Keys(backend.IndexFile) {
			id, _ := restic.ParseID(name)
			buf, err := repo.LoadUnpacked(ctx, restic.IndexFile, id)
			if err != nil {
				return err
			}
			idx, err := index.DecodeIndex(buf, id)
			if err != nil {
				return err
			}
			for pb := range idx.Values() {
				b := vBlobC03{H: pb.Handle(), Pack: pb.PackID().String(), Off: int(pb.Blob.Offset), Len: int(pb.Blob.Length), ULen: int(pb.Blob.UncompressedLength)}
				r.packs[b.Pack] = append(r.packs[b.Pack], b)
				r.indexes[name] = append(r.indexes[name], vIdxEntryC03{b.H, b.Pack})
			}
		}
		for p := range r.packs {
			sort.Slice(r.packs[p], func(i, j int) bool { return r.packs[p][i].Off < r.packs[p][j].Off })
			for _, b := range r.packs[p] {
				r.copies[b.H] = append(r.copies[b.H], b)
			}
		}
		for h := range r.copies {
			pt, err := repo.LoadBlob(ctx, h, nil)
			if err != nil {
				return fmt.Errorf("healthy LoadBlob %v: %w", h, err)
			}
			if restic.Hash(pt) != h.ID {
				return fmt.Errorf("healthy LoadBlob %v: wrong hash", h)
			}
			r.plain[h] = append([]byte(nil), pt...)
		}
		for _, sn := range r.snaps {
			id, _ := restic.ParseID(sn.ID)
			s, err := data.LoadSnapshot(ctx, repo, id)
			if err != nil {
				return err
			}
			sn.Root = *s.Tree
			sn.Nodes = map[string]*data.Node{}
			var werr error
			vWalkC03(ctx, repo, sn.Root, "/", func(p string, n *data.Node) {
				sn.Nodes[p] = n
				for _, c := range n.Content {
					r.reach[restic.BlobHandle{Type: restic.DataBlob, ID: c}] = true
				}
			}, func(id restic.ID) {
				r.reach[restic.BlobHandle{Type: restic.TreeBlob, ID: id}] = true
			}, func(p string, err error) { werr = err })
			if werr != nil {
				return werr
			}
		}
		return nil
	})
	if err != nil {
		return err
	}
	r.refreshFiles()
	return nil
}

func vTypeRankC03(t backend.FileType) int {
	switch t {
	case backend.ConfigFile:
		return 0
	case backend.KeyFile:
		return 1
	case backend.SnapshotFile:
		return 2
	case backend.IndexFile:
		return 3
	case backend.PackFile:
		return 4
	}
	return 5
}

// refreshFiles lists the stored files in a structural order (type, size, name).
func (r *vRepoC03) refreshFiles() {
	r.files = nil
	r.sizes = map[vbe.Key]int{}
	total := 0
	for k, v := range r.e.store.Files() {
		if k.Type == backend.LockFile {
			continue
		}
		r.files = append(r.files, k)
		r.sizes[k] = len(v)
		total += len(v)
	}
	sort.Slice(r.files, func(i, j int) bool {
		a, b := r.files[i], r.files[j]
		if a.Type != b.Type {
			return vTypeRankC03(a.Type) < vTypeRankC03(b.Type)
		}
		if r.sizes[a] != r.sizes[b] {
			return r.sizes[a] < r.sizes[b]
		}
		return a.Name < b.Name
	})
	r.Desc.Bytes = total
}

func (r *vRepoC03) filesOf(t backend.FileType) []vbe.Key {
	var out []vbe.Key
	for _, k := range r.files {
		if k.Type == t {
			out = append(out, k)
		}
	}
	return out
}

// ---------------------------------------------------------------------------
// byte regions

type vRegionC03 struct {
	Label  string
	Lo, Hi int // [Lo, Hi)
}

func vSealedRegionsC03(prefix string, lo, hi int) []vRegionC03 {
	if hi-lo < 32 {
		return []vRegionC03{{prefix + "ct", lo, hi}}
	}
	rs := []vRegionC03{{prefix + "nonce", lo, lo + 16}}
	if hi-16 > lo+16 {
		rs = append(rs, vRegionC03{prefix + "ct", lo + 16, hi - 16})
	}
	return append(rs, vRegionC03{prefix + "mac", hi - 16, hi})
}

// regions partitions a healthy stored file into labelled byte ranges.
func (r *vRepoC03) regions(k vbe.Key) []vRegionC03 {
	size := r.sizes[k]
	switch k.Type {
	case backend.PackFile:
		var rs []vRegionC03
		end := 0
		for _, b := range r.packs[k.Name] {
			rs = append(rs, vSealedRegionsC03("pack/blob-", b.Off, b.Off+b.Len)...)
			end = b.Off + b.Len
		}
		if size-4 > end {
			rs = append(rs, vSealedRegionsC03("pack/hdr-", end, size-4)...)
		}
		return append(rs, vRegionC03{"pack/lenfield", size - 4, size})
	case backend.KeyFile:
		// plain JSON: the values of created/username/hostname are protected by nothing but the
		// file name (= hash of the content); kdf parameters and salt decide the derived key;
		// data is the sealed master key; the rest is JSON syntax and field names
		buf, _ := r.e.store.Get(k.Type, k.Name)
		labels := make([]string, size)
		for i := range labels {
			labels[i] = "key/json"
		}
		mark := func(field, label string, quoted bool) {
			i := bytes.Index(buf, []byte(`"`+field+`":`))
			if i < 0 {
				return
			}
			lo := i + len(field) + 3
			hi := lo
			if quoted {
				lo++
				hi = lo + bytes.IndexByte(buf[lo:], '"')
			} else {
				for hi < size && buf[hi] != ',' && buf[hi] != '}' {
					hi++
				}
			}
			for j := lo; j < hi && j < size; j++ {
				labels[j] = label
			}
		}
		mark("created", "key/meta", true)
		mark("username", "key/meta", true)
		mark("hostname", "key/meta", true)
		mark("kdf", "key/kdf", true)
		mark("salt", "key/kdf", true)
		mark("N", "key/kdf", false)
		mark("r", "key/kdf", false)
		mark("p", "key/kdf", false)
		mark("data", "key/data", true)
		var rs []vRegionC03
		for i := 0; i < size; {
			j := i
			for j < size && labels[j] == labels[i] {
				j++
			}
			rs = append(rs, vRegionC03{labels[i], i, j})
			i = j
		}
		return rs
	default:
		return vSealedRegionsC03(k.Type.String()+"/", 0, size)
	}
}

func (r *vRepoC03) classify(k vbe.Key, off int) string {
	for _, reg := range r.regions(k) {
		if off >= reg.Lo && off < reg.Hi {
			return reg.Label
		}
	}
	return k.Type.String() + "/beyond"
}

// ---------------------------------------------------------------------------
// corruption operators

// vMutC03 is one primitive change of one stored file.
type vMutC03 struct {
	Type  string `json:"type"` // file type name
	Name  string `json:"name"`
	Op    string `json:"op"` // flip set trunc extend delete swap blobswap
	Off   int    `json:"off,omitempty"`
	Bit   uint   `json:"bit,omitempty"`
	Val   byte   `json:"val,omitempty"`
	N     int    `json:"n,omitempty"`
	Other string `json:"other,omitempty"`  // swap: sibling name; blobswap: second pack
	Off2  int    `json:"off2,omitempty"`   // blobswap: offset in the second pack
	Where string `json:"region,omitempty"` // measured region label
}

// vTypeNameC03 names a file type in class labels ("pack" instead of restic's "data").
func vTypeNameC03(t backend.FileType) string {
	if t == backend.PackFile {
		return "pack"
	}
	return t.String()
}

func vFileTypeC03(s string) backend.FileType {
	for _, t := range []backend.FileType{backend.PackFile, backend.IndexFile, backend.SnapshotFile, backend.KeyFile, backend.ConfigFile, backend.LockFile} {
		if t.String() == s {
			return t
		}
	}
	panic("unknown file type " + s)
}

// vApplyC03 applies one change to a store; reports whether anything changed.
func vApplyC03(s *vbe.Store, m vMutC03) bool {
	ft := vFileTypeC03(m.Type)
	old, ok := s.Get(ft, m.Name)
	if !ok {
		return false
	}
	switch m.Op {
	case "flip":
		if m.Off >= len(old) {
			return false
		}
		nb := append([]byte(nil), old...)
		nb[m.Off] ^= 1 << (m.Bit & 7)
		s.Put(ft, m.Name, nb)
	case "set":
		if m.Off >= len(old) || old[m.Off] == m.Val {
			return false
		}
		nb := append([]byte(nil), old...)
		nb[m.Off] = m.Val
		s.Put(ft, m.Name, nb)
	case "trunc":
		if m.Off >= len(old) {
			return false
		}
		s.Put(ft, m.Name, append([]byte(nil), old[:m.Off]...))
	case "extend":
		nb := append([]byte(nil), old...)
		for i := 0; i < m.N; i++ {
			nb = append(nb, m.Val+byte(i)*m.Val)
		}
		s.Put(ft, m.Name, nb)
	case "delete":
		s.Del(ft, m.Name)
	case "swap":
		o, ok := s.Get(ft, m.Other)
		if !ok || bytes.Equal(o, old) {
			return false
		}
		s.Put(ft, m.Name, o)
		s.Put(ft, m.Other, old)
	case "blobswap":
		o, ok := s.Get(ft, m.Other)
		if !ok || m.Off+m.N > len(old) || m.Off2+m.N > len(o) {
			return false
		}
		if m.Other == m.Name {
			nb := append([]byte(nil), old...)
			copy(nb[m.Off:m.Off+m.N], old[m.Off2:m.Off2+m.N])
			copy(nb[m.Off2:m.Off2+m.N], old[m.Off:m.Off+m.N])
			s.Put(ft, m.Name, nb)
		} else {
			na, nb := append([]byte(nil), old...), append([]byte(nil), o...)
			copy(na[m.Off:m.Off+m.N], o[m.Off2:m.Off2+m.N])
			copy(nb[m.Off2:m.Off2+m.N], old[m.Off:m.Off+m.N])
			s.Put(ft, m.Name, na)
			s.Put(ft, m.Other, nb)
		}
	default:
		panic("unknown op " + m.Op)
	}
	return true
}

// vBoundaryC03 is one deterministic boundary truncation.
type vBoundaryC03 struct {
	Rank int // file by rank in r.files
	Mut  vMutC03
	Kind string // trunc0 trunc1 trunc-last trunc-region
}

// boundaryMuts enumerates, for every file a snapshot depends on (each indexed pack, index,
// snapshot, the config, the opening key), the truncations to 0 bytes, 1 byte, len-1 bytes and
// to every boundary the region model knows (nonce end, MAC start, blob ends, pack header
// start, length field). full=false: truncation to 0 for every such file, 1 and len-1 only
// for the first file of each type.
func (r *vRepoC03) boundaryMuts(full bool) []vBoundaryC03 {
	var out []vBoundaryC03
	firstOfType := map[backend.FileType]bool{}
	for rank, k := range r.files {
		if k.Type == backend.KeyFile && k.Name != r.keyID {
			continue
		}
		if _, indexed := r.packs[k.Name]; k.Type == backend.PackFile && !indexed {
			continue
		}
		size := r.sizes[k]
		first := !firstOfType[k.Type]
		firstOfType[k.Type] = true
		seen := map[int]bool{}
		add := func(off int, kind string) {
			if off < 0 || off >= size || seen[off] {
				return
			}
			seen[off] = true
			where := vTypeNameC03(k.Type) + "/whole"
			if off > 0 {
				where = r.classify(k, off)
			}
			out = append(out, vBoundaryC03{Rank: rank, Kind: kind, Mut: vMutC03{Type: k.Type.String(), Name: k.Name, Op: "trunc", Off: off, Where: where}})
		}
		add(0, "trunc0")
		if full || first {
			add(1, "trunc1")
			add(size-1, "trunc-last")
		}
		if full {
			for _, rg := range r.regions(k) {
				add(rg.Lo, "trunc-region")
			}
		}
	}
	return out
}

// effective lists, after all changes were applied to s, the touched files whose stored
// bytes really differ from the healthy repository (two changes may cancel each other), as
// synthetic changes with Op "delete" (file gone) or "set" (content differs).
func (r *vRepoC03) effective(s *vbe.Store, muts []vMutC03) []vMutC03 {
	var out []vMutC03
	seen := map[string]bool{}
	for _, m := range muts {
		names := []string{m.Name}
		if m.Op == "swap" || m.Op == "blobswap" {
			names = append(names, m.Other)
		}
		for _, name := range names {
			if seen[m.Type+"/"+name] {
				continue
			}
			seen[m.Type+"/"+name] = true
			ft := vFileTypeC03(m.Type)
			old, _ := r.e.store.Get(ft, name)
			cur, ok := s.Get(ft, name)
			switch {
			case !ok:
				out = append(out, vMutC03{Type: m.Type, Name: name, Op: "delete"})
			case !bytes.Equal(old, cur):
				out = append(out, vMutC03{Type: m.Type, Name: name, Op: "set"})
			}
		}
	}
	return out
}

// depended decides from the model whether `check --read-data` must report the change.
func (r *vRepoC03) depended(m vMutC03) bool {
	ft := vFileTypeC03(m.Type)
	if m.Op == "swap" {
		a, b := m, m
		a.Op, b.Op, b.Name = "set", "set", m.Other
		return r.depended(a) || r.depended(b)
	}
	del := m.Op == "delete"
	switch ft {
	case backend.ConfigFile:
		return true
	case backend.KeyFile:
		return m.Name == r.keyID
	case backend.SnapshotFile:
		// a removed snapshot file is indistinguishable from `forget`: nothing records that it ever existed
		return !del
	case backend.PackFile:
		blobs, indexed := r.packs[m.Name]
		if !indexed {
			return false
		}
		if !del {
			return true
		}
		for _, b := range blobs {
			if r.reach[b.H] && len(r.copies[b.H]) == 1 {
				return true
			}
		}
		return false
	case backend.IndexFile:
		if !del {
			return true
		}
		for _, en := range r.indexes[m.Name] {
			if !r.reach[en.H] {
				continue
			}
			elsewhere := false
			for other, ens := range r.indexes {
				if other == m.Name {
					continue
				}
				for _, o := range ens {
					if o.H == en.H {
						elsewhere = true
					}
				}
			}
			if !elsewhere {
				return true
			}
		}
		return false
	}
	return false
}

// vDrawMutC03 draws one change. Positions are drawn structurally (file by rank in the
// (type,size,name) order, region by label, offset as a fraction) so that a replay on a
// freshly built repository (restic's nonces differ) lands in the same kind of place.
func (r *vRepoC03) vDrawMutC03(t *rapid.T, packsOnly bool) vMutC03 {
	types := []backend.FileType{backend.PackFile, backend.PackFile, backend.PackFile, backend.PackFile, backend.PackFile, backend.PackFile,
		backend.IndexFile, backend.IndexFile, backend.SnapshotFile, backend.SnapshotFile, backend.KeyFile, backend.KeyFile, backend.ConfigFile}
	ft := backend.PackFile
	if !packsOnly {
		if rapid.IntRange(0, 13).Draw(t, "notdepended") == 0 {
			// changes the model says no snapshot depends on: check may stay silent, oracle (2) still applies
			var cand []vMutC03
			for _, k := range r.files {
				del := vMutC03{Type: k.Type.String(), Name: k.Name, Op: "delete", Where: vTypeNameC03(k.Type) + "/whole"}
				if k.Type != backend.KeyFile && !r.depended(del) {
					cand = append(cand, del)
				}
				if k.Type == backend.KeyFile && k.Name != r.keyID {
					cand = append(cand, del, vMutC03{Type: k.Type.String(), Name: k.Name, Op: "flip", Off: r.sizes[k] / 3, Bit: 1, Where: "key/other"})
				}
			}
			if len(cand) > 0 {
				return cand[rapid.IntRange(0, len(cand)-1).Draw(t, "ndcand")]
			}
		}
		ft = rapid.SampledFrom(types).Draw(t, "ftype")
	}
	fs := r.filesOf(ft)
	k := fs[rapid.IntRange(0, len(fs)-1).Draw(t, "file")]
	m := vMutC03{Type: ft.String(), Name: k.Name}
	ops := []string{"flip", "flip", "flip", "flip", "set", "set", "trunc", "trunc", "extend", "delete", "swap"}
	if ft == backend.PackFile {
		ops = append(ops, "blobswap", "blobswap")
	}
	m.Op = rapid.SampledFrom(ops).Draw(t, "op")
	if m.Op == "swap" {
		var sib []vbe.Key
		for _, o := range fs {
			if o != k {
				sib = append(sib, o)
			}
		}
		if len(sib) == 0 {
			m.Op = "flip"
		} else {
			m.Other = sib[rapid.IntRange(0, len(sib)-1).Draw(t, "sibling")].Name
		}
	}
	if m.Op == "blobswap" {
		// two different blobs with the same stored length, anywhere in the repository
		type pair struct{ a, b vBlobC03 }
		var pairs []pair
		var all []vBlobC03
		for _, p := range r.filesOf(backend.PackFile) {
			all = append(all, r.packs[p.Name]...)
		}
		for i := range all {
			for j := i + 1; j < len(all); j++ {
				if all[i].Len == all[j].Len && all[i].H != all[j].H {
					pairs = append(pairs, pair{all[i], all[j]})
				}
			}
		}
		if len(pairs) == 0 {
			m.Op = "flip"
		} else {
			p := pairs[rapid.IntRange(0, len(pairs)-1).Draw(t, "pair")]
			m.Name, m.Off, m.N, m.Other, m.Off2 = p.a.Pack, p.a.Off, p.a.Len, p.b.Pack, p.b.Off
			m.Where = "pack/blob-swap"
			return m
		}
	}
	switch m.Op {
	case "flip", "set", "trunc":
		regs := r.regions(k)
		labels := []string{}
		seen := map[string]bool{}
		for _, rg := range regs {
			if !seen[rg.Label] {
				seen[rg.Label] = true
				labels = append(labels, rg.Label)
			}
		}
		label := labels[rapid.IntRange(0, len(labels)-1).Draw(t, "region")]
		var cand []vRegionC03
		for _, rg := range regs {
			if rg.Label == label {
				cand = append(cand, rg)
			}
		}
		// position inside the concatenation of all ranges with that label (weighted by size);
		// edges are interesting: first and last byte of the range hit get extra weight
		total := 0
		for _, rg := range cand {
			total += rg.Hi - rg.Lo
		}
		frac := rapid.Uint32().Draw(t, "pos")
		pos := int(uint64(frac) * uint64(total) >> 32)
		for _, rg := range cand {
			if pos < rg.Hi-rg.Lo {
				m.Off = rg.Lo + pos
				switch frac % 8 {
				case 0:
					m.Off = rg.Lo
				case 1:
					m.Off = rg.Hi - 1
				}
				break
			}
			pos -= rg.Hi - rg.Lo
		}
		m.Where = label
		m.Bit = uint(rapid.IntRange(0, 7).Draw(t, "bit"))
		if m.Op == "set" {
			old, _ := r.e.store.Get(ft, k.Name)
			m.Val = old[m.Off] + byte(rapid.IntRange(1, 255).Draw(t, "delta"))
		}
	case "extend":
		m.N = rapid.IntRange(1, 48).Draw(t, "extend")
		m.Val = byte(rapid.IntRange(0, 255).Draw(t, "fill"))
		m.Where = vTypeNameC03(ft) + "/append"
	default:
		m.Where = vTypeNameC03(ft) + "/whole"
	}
	return m
}

// ---------------------------------------------------------------------------
// independent decision: does a blob still authenticate in (possibly damaged) pack bytes?

var vZstdC03, _ = zstd.NewReader(nil)

func (r *vRepoC03) blobIntact(packBytes []byte, b vBlobC03) bool {
	if b.Off+b.Len > len(packBytes) || b.Len < crypto.Extension {
		return false
	}
	buf := packBytes[b.Off : b.Off+b.Len]
	pt, err := r.key.Open(nil, buf[:16], buf[16:], nil)
	if err != nil {
		return false
	}
	if b.ULen != 0 {
		pt, err = vZstdC03.DecodeAll(pt, nil)
		if err != nil {
			return false
		}
	}
	return restic.ID(sha256.Sum256(pt)) == b.H.ID
}

// headerBlobs decodes, by hand, the blob list a (possibly damaged or misplaced) pack file
// carries in its own header: last 4 bytes = little-endian length of the sealed header in
// front of them; entries = type(1) length(4) [uncompressed length(4) for types 2,3] id(32);
// offsets are cumulative. nil if the header does not authenticate or does not parse.
func (r *vRepoC03) headerBlobs(pack string, buf []byte) []vBlobC03 {
	if len(buf) < 4+crypto.Extension {
		return nil
	}
	hlen := int(binary.LittleEndian.Uint32(buf[len(buf)-4:]))
	if hlen < crypto.Extension || hlen > len(buf)-4 {
		return nil
	}
	hdr := buf[len(buf)-4-hlen : len(buf)-4]
	pt, err := r.key.Open(nil, hdr[:16], hdr[16:], nil)
	if err != nil {
		return nil
	}
	var out []vBlobC03
	off := 0
	for len(pt) > 0 {
		if len(pt) < 37 {
			return nil
		}
		b := vBlobC03{Pack: pack, Off: off}
		tpe := pt[0]
		switch tpe {
		case 0, 2:
			b.H.Type = restic.DataBlob
		case 1, 3:
			b.H.Type = restic.TreeBlob
		default:
			return nil
		}
		b.Len = int(binary.LittleEndian.Uint32(pt[1:5]))
		pt = pt[5:]
		if tpe >= 2 {
			if len(pt) < 36 {
				return nil
			}
			b.ULen = int(binary.LittleEndian.Uint32(pt[:4]))
			pt = pt[4:]
		}
		copy(b.H.ID[:], pt[:32])
		pt = pt[32:]
		off += b.Len
		out = append(out, b)
	}
	return out
}

// ---------------------------------------------------------------------------
// oracle (2): restore and dump never deliver different plaintext

// vRestoreOutcomeC03 restores one snapshot on se and compares with the model.
// outcome: "ok" (no error, identical), "fail" (error reported); violation != "" if different
// bytes were delivered.
func (r *vRepoC03) restoreOutcome(se *vEnv, sn *vSnapC03) (outcome, violation string) {
	target := se.Scratch("restore-")
	defer os.RemoveAll(target)
	g := se.gopts
	g.JSON = true
	out, err := se.call(g, func(ctx context.Context, gopts global.Options) error {
		return runRestore(ctx, RestoreOptions{Target: target}, gopts, gopts.Term, []string{sn.ID + ":" + filepath.ToSlash(r.src)})
	})
	got, rerr := vReadTree(target)
	if rerr != nil {
		return "harness", "reading the restore target: " + rerr.Error()
	}
	if err == nil {
		if d := vTreeDiff(sn.Tree, got, true); d != "" {
			return "ok", "restore reported success but the result differs from the model: " + d
		}
		return "ok", ""
	}
	// failed: which items were reported?
	reported := map[string]bool{}
	for _, line := range strings.Split(out.Stdout+"\n"+out.Stderr, "\n") {
		if !strings.Contains(line, `"message_type":"error"`) {
			continue
		}
		var msg struct {
			Item string `json:"item"`
		}
		if json.Unmarshal([]byte(line), &msg) == nil {
			it := strings.TrimPrefix(msg.Item, target)
			reported[strings.Trim(filepath.ToSlash(it), "/")] = true
		}
	}
	covered := func(p string) bool {
		for q := p; ; q = path.Dir(q) {
			if reported[q] {
				return true
			}
			if q == "." || q == "/" || q == "" {
				return reported[""]
			}
		}
	}
	for _, p := range got.Paths() {
		g := got[p]
		w, ok := sn.Tree[p]
		if !ok {
			return "fail", fmt.Sprintf("failed restore created %q which is not in the snapshot", p)
		}
		if w.Kind != g.Kind {
			return "fail", fmt.Sprintf("failed restore created %q with kind %c, model %c", p, g.Kind, w.Kind)
		}
		if w.Kind == 'l' && w.Target != g.Target {
			return "fail", fmt.Sprintf("failed restore: link %q -> %q, model %q", p, g.Target, w.Target)
		}
		if w.Kind != 'f' {
			continue
		}
		want := vContent(w)
		if g.Len == len(want) && g.Sum == vSum(want) {
			continue
		}
		// content differs: must be reported for that path, and what was written must be
		// model bytes (unwritten parts read as zero, the file may be short)
		have, _ := os.ReadFile(filepath.Join(target, filepath.FromSlash(p)))
		if len(have) > len(want) {
			return "fail", fmt.Sprintf("failed restore: %q is longer (%d) than the model (%d)", p, len(have), len(want))
		}
		for i := range have {
			if have[i] != want[i] && have[i] != 0 {
				return "fail", fmt.Sprintf("failed restore: %q holds byte %#x at %d, model %#x: different plaintext on disk (restore error: %v)", p, have[i], i, want[i], err)
			}
		}
		if !covered(p) {
			return "fail", fmt.Sprintf("restore failed (%v) but no error names %q whose content is incomplete (%d of %d bytes); reported: %v", err, p, len(have), len(want), reported)
		}
	}
	return "fail", ""
}

// dumpOutcome dumps the whole snapshot as tar and compares every entry with the model.
func (r *vRepoC03) dumpOutcome(se *vEnv, sn *vSnapC03) (outcome, violation string) {
	dir := se.Scratch("dump-")
	defer os.RemoveAll(dir)
	file := filepath.Join(dir, "out.tar")
	_, err := se.call(se.gopts, func(ctx context.Context, gopts global.Options) error {
		return runDump(ctx, DumpOptions{Archive: "tar", Target: file}, gopts, []string{sn.ID, filepath.ToSlash(r.src)}, gopts.Term)
	})
	raw, _ := os.ReadFile(file)
	seen := map[string]bool{}
	tr := tar.NewReader(bytes.NewReader(raw))
	root := strings.Trim(filepath.ToSlash(r.src), "/")
	var terr error
	for {
		hdr, e := tr.Next()
		if e != nil {
			if e != io.EOF {
				terr = e
			}
			break
		}
		name := strings.Trim(strings.TrimPrefix(strings.Trim(hdr.Name, "/"), root), "/")
		if name == "" {
			continue
		}
		w, ok := sn.Tree[name]
		if !ok {
			return "x", fmt.Sprintf("dump wrote entry %q which is not in the snapshot", hdr.Name)
		}
		seen[name] = true
		if hdr.Typeflag != tar.TypeReg {
			continue
		}
		if w.Kind != 'f' {
			return "x", fmt.Sprintf("dump wrote a regular file %q, model kind %c", name, w.Kind)
		}
		want := vContent(w)
		have, e := io.ReadAll(tr)
		if len(have) > len(want) || !bytes.Equal(have, want[:len(have)]) {
			return "x", fmt.Sprintf("dump delivered different bytes for %q (%d bytes, model %d; dump error: %v)", name, len(have), len(want), err)
		}
		if e != nil || len(have) != len(want) {
			terr = fmt.Errorf("entry %q incomplete", name)
			if err == nil {
				return "ok", fmt.Sprintf("dump reported success but entry %q is incomplete (%d of %d bytes)", name, len(have), len(want))
			}
			break
		}
	}
	if err == nil {
		if terr != nil {
			return "ok", fmt.Sprintf("dump reported success but the archive is damaged: %v", terr)
		}
		for p, w := range sn.Tree {
			if !seen[p] && w.Kind != '?' {
				return "ok", fmt.Sprintf("dump reported success but %q is missing from the archive", p)
			}
		}
		return "ok", ""
	}
	return "fail", ""
}

// healthy asserts the baseline: the untouched repository checks clean and every snapshot
// restores and dumps identical to its model.
func (r *vRepoC03) healthy(e *vEnv) error {
	if out, err := e.Check(true); err != nil {
		return fmt.Errorf("check --read-data: %v\n%s%s", err, out.Stdout, out.Stderr)
	}
	for _, sn := range r.snaps {
		if o, v := r.restoreOutcome(e, sn); v != "" || o != "ok" {
			return fmt.Errorf("restore of %s: %s %s", sn.ID[:8], o, v)
		}
		if o, v := r.dumpOutcome(e, sn); v != "" || o != "ok" {
			return fmt.Errorf("dump of %s: %s %s", sn.ID[:8], o, v)
		}
	}
	return nil
}
