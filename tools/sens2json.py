#!/usr/bin/env python3
import json, os, re
V = os.path.dirname(os.path.dirname(os.path.abspath(__file__)))
res = {}
p = os.path.join(V, "sensitivity.json")
if os.path.exists(p):
    res = json.load(open(p))
for line in open(os.path.join(V, ".work", "mutants.txt")):
    m = re.match(r"^(C\d+) (\S+) (caught|MISSED|inconclusive\S*)", line)
    if m:
        res.setdefault(m.group(1), {})[m.group(2)] = m.group(3)
json.dump(res, open(p, "w"), indent=1, sort_keys=True)
tot = sum(len(v) for v in res.values()); c = sum(1 for v in res.values() for x in v.values() if x == "caught")
print("mutants: %d, caught %d" % (tot, c))
for k, v in sorted(res.items()):
    for m, r in sorted(v.items()):
        if r != "caught":
            print("  NOT CAUGHT", k, m, r)
