#!/usr/bin/env python3
"""prints the prompt for an independent mutation agent: tools/seedprompt.py C57 C56"""
import json, sys
props = {json.loads(l)["id"]: json.loads(l) for l in open("/verif/properties.jsonl") if l.strip()}
ids = sys.argv[1:]
tag = "-".join(ids)
import glob, os
def avoid(i):
    out = []
    for m in sorted(glob.glob("/verif/seeded/%s-*/meta.json" % i)):
        try:
            out.append(json.load(open(m)).get("summary", ""))
        except Exception:
            pass
    if not out:
        return ""
    return "\nAlready used for this property in an earlier round (choose a DIFFERENT mechanism, code site and trigger): " + " | ".join(out)
txt = []
for i in ids:
    p = props[i]
    txt.append("PROPERTY %s — %s\nStatement: %s\nQuantified over: %s\nWhere it lives (starting points only): %s" % (
        i, p["title"], p["statement"], p["quantifier"]["text"], ", ".join(p["anchors"]["files"][:8])) + avoid(i))
print("""You are testing how good a verification harness for the restic backup program (Go) is, by planting realistic defects. You work ONLY in your own scratch git worktree of the restic repository; create it with:
  git -C /repo worktree add --detach /tmp/seed3-%s HEAD
and work inside /tmp/seed3-%s. Never edit /repo itself, never commit anywhere, and do NOT read anything under /verif (your change must be independent of the harness). Go is installed (run `go` from inside the worktree; it builds offline; set GOFLAGS=-mod=mod if go complains about vendoring; never use the network). The machine is shared and loaded: run only the tests you need (`go test ./internal/<pkg>/ -run <Name>`), not the whole suite at once, and be patient with build times.

For EACH of the properties below, produce ONE change to the restic source (non-test .go files) that BREAKS the property while (a) still compiling, (b) keeping the existing unit/integration tests of the touched packages and of ./cmd/restic green (run `go test ./<touched pkg>/...` and, if the change can affect a command, `go test ./cmd/restic -run '<relevant>'`), and (c) looking like a plausible mistake or an innocent-looking refactoring/optimisation a maintainer could make. Prefer defects that need something SPECIFIC to manifest — a particular interleaving, a crash or fault at a particular point, a multi-step sequence of operations, an unusual input or boundary value, or two cooperating sites that each look fine alone — NOT ones that ordinary use or the existing tests would expose at once. Small diffs (1-15 lines).

%s

Deliverables, per property, in the directory /tmp/seed3-%s/OUT/<PROPERTY-ID>/ (create it):
  patch.diff   — `git diff` of the source change only (paths relative to the repo root, applies with `git apply` on a clean checkout of HEAD)
  demo_test.go (or demo/main.go) — a demonstration that FAILS with the change and PASSES without it: a Go test file that can be dropped into a named package directory of the repo (say which one in the first comment line, e.g. `// package dir: internal/filter`) and run with `go test ./<dir>/ -run TestDemo...`
  meta.json    — {"property": "<ID>", "summary": "<one sentence: what the change does>", "needs": "<what specific input/sequence/fault/interleaving is needed for the defect to manifest>", "files": ["..."], "demo_dir": "<package dir for demo_test.go>", "demo_run": "<-run pattern>", "ran": ["<commands you ran and their outcome>"]}
Verify yourself, in the worktree: with the patch applied the demo fails and the named existing tests pass; with the patch reverted (`git checkout -- .` inside YOUR worktree; never use `git stash`, the stash is shared with other worktrees) the demo passes. Leave the worktree with the patch of the LAST property reverted (clean tree; OUT/ is untracked, that is fine). Do not remove the worktree; I will.

Report back briefly: for each property the summary, what it needs to manifest, and the verification commands with outcomes.""" % (tag, tag, "\n\n".join(txt), tag))
