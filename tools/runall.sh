#!/bin/bash
# usage: tools/runall.sh <tier> <seed> [ids...]   -> one line per check in .work/runall-<tier>-<seed>.txt
cd "$(dirname "$0")/.." || exit 1
tier=${1:-quick}; seed=${2:-1}; shift; shift
ids="$@"
if [ -z "$ids" ]; then ids=$(ls conf | grep -E '^C[0-9]+\.json$' | sed 's/.json//' | grep -v C00); fi
out=.work/runall-$tier-$seed.txt
: > $out
for id in $ids; do
  s=$(date +%s)
  VERIF_SEED=$seed ./check $id --tier $tier > .work/runall-$id-$tier-$seed.log 2>&1
  rc=$?
  e=$(date +%s)
  echo "$id rc=$rc $((e-s))s $(tail -1 .work/runall-$id-$tier-$seed.log | cut -c1-200)" >> $out
done
echo ALLDONE >> $out
