#!/bin/bash
# usage: tools/mutants.sh [ids...]  -> runs every mutants/<id>-*.patch through ./check <id> --mutant and
# appends "id mutant caught|MISSED|inconclusive seconds" to .work/mutants.txt
cd "$(dirname "$0")/.." || exit 1
ids="$@"
if [ -z "$ids" ]; then ids=$(ls conf | grep -E '^C[0-9]+\.json$' | sed 's/.json//' | grep -v C00); fi
mkdir -p .work
for id in $ids; do
  for m in mutants/$id-*.patch; do
    [ -e "$m" ] || continue
    name=$(basename "$m" .patch)
    s=$(date +%s)
    out=$(./check $id --mutant $name 2>&1 | tail -3)
    rc=$?
    e=$(date +%s)
    if echo "$out" | grep -q "^VIOLATION"; then r=caught; elif echo "$out" | grep -q "^OK "; then r=MISSED; else r="inconclusive($(echo "$out" | tail -1 | cut -c1-80))"; fi
    echo "$id $name $r $((e-s))s" >> .work/mutants.txt
  done
done
echo "DONE $ids" >> .work/mutants.txt
