#!/bin/bash
# stage everything except evidence of checks that are not claimed, then commit with the given message
cd "$(dirname "$0")/.." || exit 1
python3 tools/genmanifest.py >/dev/null
git add -A .
git reset -q evidence >/dev/null 2>&1
for id in $(python3 -c "import json;print(' '.join(c['property_id'] for c in json.load(open('MANIFEST.json'))['checks']))"); do
  [ -e evidence/$id.json ] && git add evidence/$id.json
done
# drop tracked evidence of unclaimed checks
for f in $(git ls-files evidence); do
  id=$(basename $f .json)
  python3 -c "import json,sys;sys.exit(0 if '$id' in [c['property_id'] for c in json.load(open('MANIFEST.json'))['checks']] else 1)" || git rm -q --cached $f
done
git commit -qm "$1" && echo committed
