#!/usr/bin/env python3
"""tools/benrecheck.py <name> ["note"]: re-runs ./check on benign/<name>/patch.diff and updates its meta.json"""
import json, os, re, subprocess, sys
V = "/verif"
name = sys.argv[1]
pid = name.split("-")[0]
d = os.path.join(V, "benign", name)
r = subprocess.run("./check %s --patch %s" % (pid, os.path.join(d, "patch.diff")), shell=True, cwd=V, capture_output=True, text=True)
o = r.stdout + r.stderr
last = [l for l in o.strip().splitlines() if l.startswith(("VIOLATION", "OK ", "INCONCLUSIVE"))]
res = last[-1] if last else "NO-VERDICT"
m = json.load(open(os.path.join(d, "meta.json")))
m.setdefault("history", []).append(m.get("check_result"))
m["check_result"] = res
if len(sys.argv) > 2:
    m["note"] = sys.argv[2]
json.dump(m, open(os.path.join(d, "meta.json"), "w"), indent=1)
print(name, res[:160])
