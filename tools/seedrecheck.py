#!/usr/bin/env python3
"""tools/seedrecheck.py <seeded name> [note]  - re-runs ./check <prop> --patch seeded/<name>/patch.diff and updates meta.json"""
import json, os, subprocess, sys
name = sys.argv[1]; note = sys.argv[2] if len(sys.argv) > 2 else ""
d = "/verif/seeded/" + name
m = json.load(open(d + "/meta.json"))
pid = m["property"]
r = subprocess.run("./check %s --patch %s/patch.diff" % (pid, d), shell=True, cwd="/verif", capture_output=True, text=True)
o = r.stdout + r.stderr
last = [l for l in o.strip().splitlines() if l.startswith(("VIOLATION", "OK ", "INCONCLUSIVE"))]
det = bool(last and last[-1].startswith("VIOLATION"))
m.setdefault("history", []).append(m.get("detected_by", ""))
m["detected_by"] = ("caught by ./check %s (quick tier)" % pid if det else "NOT caught by the quick tier") + ((" — " + note) if note else "")
m.setdefault("verified_by_lead", []).append("re-run: ./check %s --patch seeded/%s/patch.diff -> %s" % (pid, name, last[-1] if last else o[-200:]))
json.dump(m, open(d + "/meta.json", "w"), indent=1)
print(name, "detected" if det else "MISSED")
