#!/usr/bin/env python3
"""Runs the repository's own suite (guard off) and compares with BASELINE.json stable_pass."""
import json, subprocess, sys, os
out = "/verif/.work/baseline.json"
if "--reuse" not in sys.argv:
    with open(out, "w") as f:
        subprocess.run("go test -mod=mod -json -vet=off -count=1 -timeout 25m ./...", shell=True, cwd="/repo", stdout=f, stderr=subprocess.STDOUT,
                       env=dict(os.environ, GOFLAGS="-mod=mod", GOPROXY="off"))
res = {}
for line in open(out, errors="replace"):
    try:
        e = json.loads(line)
    except ValueError:
        continue
    if e.get("Test") and e.get("Action") in ("pass", "fail", "skip"):
        res["%s::%s" % (e["Package"], e["Test"])] = e["Action"]
stable = json.load(open("/root/.vp/BASELINE.json"))["stable_pass"]
bad = [(t, res.get(t, "MISSING")) for t in stable if res.get(t) != "pass"]
print("stable_pass: %d, passing now: %d, not passing: %d" % (len(stable), len(stable) - len(bad), len(bad)))
for t, r in bad[:60]:
    print("  ", r, t)
