#!/usr/bin/env python3
"""Regenerates /verif/MANIFEST.json from conf/*.json (one file per claimed property)."""
import glob, json, os
V = os.path.dirname(os.path.dirname(os.path.abspath(__file__)))
props = [json.loads(l) for l in open(os.path.join(V, "properties.jsonl")) if l.strip()]
confs = {}
for p in sorted(glob.glob(os.path.join(V, "conf", "C*.json"))):
    c = json.load(open(p))
    confs[c["id"]] = c
na_reasons = {}
nap = os.path.join(V, "conf", "not_applicable.json")
if os.path.exists(nap):
    na_reasons = json.load(open(nap))
hold = {}
hp = os.path.join(V, "conf", "hold.json")
if os.path.exists(hp):
    hold = json.load(open(hp))
claimed_ok = set(json.load(open(os.path.join(V, "conf", "claimed.json"))))
checks, na = [], []
for pr in props:
    pid = pr["id"]
    c = confs.get(pid)
    if not c or c.get("disabled") or pid in hold or pid not in claimed_ok:
        na.append({"property_id": pid, "reason": hold.get(pid) or na_reasons.get(pid, "check not built yet in this session; not claimed")})
        continue
    checks.append({
        "property_id": pid,
        "quick_cmd": "./check %s --tier quick" % pid,
        "thorough_cmd": "./check %s --tier thorough" % pid,
        "evidence_file": "/verif/evidence/%s.json" % pid,
        "replay_cmd_template": "./check %s --replay {path}" % pid,
        "engine": "rapid-inpackage",
        "level_claimed": {"category": c["level"], "text": c.get("level_text", c["rule"]), "design_ref": "DESIGN.md section 4 / %s" % pid},
        "level_note": c.get("level_note", "; ".join(c.get("assumptions", [])) or "generated-input search: no claim beyond the cases explored"),
        "technique": c.get("technique", "property-based testing (rapid) against an explicit oracle"),
    })
m = {
    "version": 1,
    "setup_cmd": "./setup.sh",
    "hooks": {
        "guard": "verif",
        "enable": "go test -tags verif (the harness itself is injected with -overlay/-modfile; no source hooks are required)",
        "baseline_off_cmd": "cd /repo && go test -mod=mod -vet=off -count=1 -timeout 25m ./...",
        "source_commits": json.load(open(os.path.join(V, "conf", "hook_commits.json"))) if os.path.exists(os.path.join(V, "conf", "hook_commits.json")) else [],
        "add_only": True,
    },
    "engines": [{"name": "rapid-inpackage", "path": "/verif/check",
                 "serves_properties": [c["property_id"] for c in checks],
                 "kind_free_text": "pgregory.net/rapid v1.3.0 property tests compiled into the restic packages via go test -overlay/-modfile; Python driver shards, merges statistics, writes evidence"}],
    "checks": checks,
    "not_applicable": na,
    "notes": "All checks are generated-input search against an explicit oracle (property-based testing / fuzzing). See DESIGN.md.",
}
json.dump(m, open(os.path.join(V, "MANIFEST.json"), "w"), indent=1)
print("claimed %d, not claimed %d" % (len(checks), len(na)))
