#!/bin/bash
# re-runs every stored seeded change against the current checks: .work/seedsweep.txt
cd "$(dirname "$0")/.." || exit 1
: > .work/seedsweep.txt
for d in seeded/*/; do
  n=$(basename $d); p=${n%%-*}
  out=$(./check $p --patch $d/patch.diff 2>&1 | grep -E "^(VIOLATION|OK |INCONCLUSIVE)" | tail -1)
  case "$out" in VIOLATION*) r=caught;; OK*) r=MISSED;; *) r="inconclusive: $out";; esac
  echo "$n $r" >> .work/seedsweep.txt
done
echo SWEEPDONE >> .work/seedsweep.txt
