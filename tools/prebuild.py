#!/usr/bin/env python3
"""Builds every check's test binaries once so that later quick runs hit a warm cache."""
import glob, json, os, subprocess, sys
from concurrent.futures import ThreadPoolExecutor
V = os.path.dirname(os.path.dirname(os.path.abspath(__file__)))
claimed = set(c["property_id"] for c in json.load(open(os.path.join(V, "MANIFEST.json")))["checks"])
ids = sorted(i for i in (json.load(open(p))["id"] for p in glob.glob(os.path.join(V, "conf", "C*.json"))) if i in claimed)
def one(pid):
    env = dict(os.environ, VERIF_BUILD_ONLY="1")
    r = subprocess.run([os.path.join(V, "check"), pid], env=env, capture_output=True, text=True)
    return pid, r.returncode, r.stdout[-2000:]
with ThreadPoolExecutor(max_workers=3) as ex:
    for pid, rc, out in ex.map(one, ids):
        print("prebuild", pid, "ok" if rc == 0 else "FAILED\n" + out)
