#!/usr/bin/env python3
"""prints the prompt for an independent agent that plants PROPERTY-PRESERVING changes (to look for
false alarms of the checks): tools/benignprompt.py C57 C56"""
import json, sys
props = {json.loads(l)["id"]: json.loads(l) for l in open("/verif/properties.jsonl") if l.strip()}
ids = sys.argv[1:]
tag = "-".join(ids)
txt = []
for i in ids:
    p = props[i]
    txt.append("PROPERTY %s — %s\nStatement: %s\nQuantified over: %s\nWhere it lives (starting points only): %s" % (
        i, p["title"], p["statement"], p["quantifier"]["text"], ", ".join(p["anchors"]["files"][:8])))
print("""You are testing a verification harness for the restic backup program (Go) for FALSE ALARMS: the harness must stay silent on code where a property still holds. You work ONLY in your own scratch git worktree of the restic repository; create it with:
  git -C /repo worktree add --detach /tmp/ben-%s HEAD
and work inside /tmp/ben-%s. Never edit /repo itself, never commit anywhere, never use `git stash` (the stash is shared between worktrees), and do NOT read anything under /verif (your changes must be independent of the harness). Go is installed (run `go` from inside the worktree; it builds offline; set GOFLAGS=-mod=mod if go complains; never use the network). The machine is shared and loaded: run only the tests you need, and be patient with build times.

For EACH of the properties below, produce TWO different changes to the restic source (non-test .go files) in or next to the code that implements the property, each of which CHANGES observable or internal behaviour but KEEPS THE PROPERTY TRUE exactly as stated (read the statement literally; anything it does not promise may change). They must compile and keep the existing tests of the touched packages and of ./cmd/restic green. Think of what a maintainer really does between releases: refactor a function (split, inline, reorder independent steps, replace a loop by a helper, change a data structure), change an internal constant, default or heuristic that the property does not pin (buffer sizes, worker counts, retry counts, pack/index size targets, intervals that are not part of the statement, cache sizes), reword a log/progress/error message or add a new message, add a field to an internal struct or to JSON output, tighten validation so that MORE invalid input is rejected with a clean error, return a more specific or differently wrapped error, process independent items in another order or with different parallelism, do extra (harmless) work such as an additional verification read, additional fsync, earlier cleanup. Make the change real (it must alter what the code does, not only comments or names of local variables), 3-30 lines, and different in kind for the two changes of one property. Do NOT weaken the property in any way; if in doubt whether a change still satisfies the statement, choose another.

%s

Deliverables, per property and change, in /tmp/ben-%s/OUT/<PROPERTY-ID>-a/ and /tmp/ben-%s/OUT/<PROPERTY-ID>-b/ (create them):
  patch.diff — `git diff` of the source change only (paths relative to the repo root, applies with `git apply` on a clean checkout of HEAD)
  meta.json  — {"property": "<ID>", "summary": "<one sentence: what the change does>", "why_property_still_holds": "<argument>", "files": ["..."], "ran": ["<commands you ran and their outcome>"]}
Verify yourself, in the worktree, for every change: `go build ./...` and `go vet` of the touched packages, `go test ./<touched pkg>/...` and `go test ./cmd/restic -count=1` show no failure that the clean tree does not show as well (TestBackupErrors, TestMount*, fixture-based EOF failures in internal/repository and internal/checker, TestArchiverErrorReporting, TestScannerError fail on the clean tree too; timing-based TestLockWait* may flake under load: re-run). Revert between changes with `git checkout -- .` inside YOUR worktree and leave it clean at the end (OUT/ is untracked, fine). Do not remove the worktree; I will.

Report back briefly: for each change the summary and why the property still holds.""" % (tag, tag, "\n\n".join(txt), tag, tag))
