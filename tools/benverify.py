#!/usr/bin/env python3
"""tools/benverify.py <ben worktree dir> [more...]

Takes OUT/<ID>-a|b/ of an independent agent that planted PROPERTY-PRESERVING changes, stores each
under /verif/benign/<ID>-<x>/ and runs ./check <ID> --patch on it. A VIOLATION is a candidate false
alarm (to be analysed by hand: either the change does break the property, or the check is wrong)."""
import json, os, re, shutil, subprocess, sys

V = "/verif"


def sh(cmd, cwd=None, timeout=7200):
    env = dict(os.environ, GOFLAGS="-mod=mod", GOPROXY="off")
    r = subprocess.run(cmd, shell=True, cwd=cwd, capture_output=True, text=True, timeout=timeout, env=env)
    return r.returncode, r.stdout + r.stderr


def main():
    for src in sys.argv[1:]:
        out = os.path.join(src, "OUT")
        if not os.path.isdir(out):
            print("no OUT in", src)
            continue
        for d in sorted(os.listdir(out)):
            m = re.match(r"^(C\d\d)-([a-z])$", d)
            if not m or not os.path.exists(os.path.join(out, d, "patch.diff")):
                continue
            pid = m.group(1)
            dst = os.path.join(V, "benign", d)
            os.makedirs(dst, exist_ok=True)
            for f in os.listdir(os.path.join(out, d)):
                p = os.path.join(out, d, f)
                if os.path.isfile(p):
                    shutil.copy(p, dst)
            try:
                meta = json.load(open(os.path.join(dst, "meta.json")))
            except Exception:
                meta = {}
            patch = os.path.join(dst, "patch.diff")
            rc, o = sh("git -C /repo apply --check %s" % patch)
            if rc != 0:
                res = "DOES-NOT-APPLY"
            else:
                rc, o = sh("./check %s --patch %s" % (pid, patch), cwd=V)
                last = [l for l in o.strip().splitlines() if l.startswith(("VIOLATION", "OK ", "INCONCLUSIVE"))]
                res = last[-1] if last else "NO-VERDICT rc=%d %s" % (rc, o[-300:].replace("\n", " | "))
            meta.update({"id": d, "property": pid, "check_result": res})
            json.dump(meta, open(os.path.join(dst, "meta.json"), "w"), indent=1)
            line = "%s %s" % (d, res[:200])
            print(line, flush=True)
            with open(os.path.join(V, ".work", "benign.txt"), "a") as f:
                f.write(line + "\n")


if __name__ == "__main__":
    main()
