#!/bin/bash
# usage: tools/seedbatch.sh "<worktree> <ID> [suffix]" ...   (runs sequentially, log in .work/seedverify.txt)
cd "$(dirname "$0")/.." || exit 1
for a in "$@"; do
  python3 tools/seedverify.py $a >> .work/seedverify.txt 2>&1
done
echo BATCHDONE >> .work/seedverify.txt
