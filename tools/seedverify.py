#!/usr/bin/env python3
"""tools/seedverify.py <seed worktree dir> <PROPERTY-ID> [suffix]

Takes OUT/<ID>/ of an independent mutation agent, confirms it in my own scratch worktree
(/tmp/vw-<ID>: patch applies on current /repo HEAD, demo fails with it and passes without, the
existing tests of the touched packages show no new failures), stores it under
/verif/seeded/<ID>-<suffix>/ and runs ./check <ID> --patch on it. Prints a one-line verdict and
updates seeded/<ID>-<suffix>/meta.json."""
import json, os, re, shutil, subprocess, sys

V = "/verif"
KNOWN_BASELINE_FAILS = {
    "TestGapInBlobs", "TestRepositoryLoadIndex", "TestRepositoryLoadUnpackedRetryBroken",
    "TestCheckRepo", "TestMissingPack", "TestUnreferencedPack", "TestUnreferencedBlobs", "TestModifiedIndex",
    "TestCheckerNoDuplicateTreeDecodes", "TestBackupErrors", "TestArchiverErrorReporting", "TestScannerError",
    # timing based, flaky on a loaded machine with or without any patch
    "TestLockWaitTimeout", "TestLockWaitCancel", "TestLockWaitSuccess", "TestLockSuccessfulRefresh",
}


def sh(cmd, cwd=None, timeout=3600):
    env = dict(os.environ, GOFLAGS="-mod=mod", GOPROXY="off")
    r = subprocess.run(cmd, shell=True, cwd=cwd, capture_output=True, text=True, timeout=timeout, env=env)
    return r.returncode, r.stdout + r.stderr


STABLE = set(json.load(open("/root/.vp/BASELINE.json"))["stable_pass"])
FLAKY_UNDER_LOAD = {"TestLockWaitTimeout", "TestLockWaitCancel", "TestLockWaitSuccess", "TestLockSuccessfulRefresh", "TestLockFailedRefresh", "TestLockRefreshStale"}


def failing_tests(out, pkg=None):
    """top-level failing tests; with pkg: only those the baseline lists as stable passes"""
    ft = set(m.split("/")[0] for m in re.findall(r"^\s*--- FAIL: (\S+)", out, re.M))
    if pkg is not None:
        ft = set(t for t in ft if ("github.com/restic/restic/%s::%s" % (pkg.strip("./"), t)) in STABLE)
    return ft


def main():
    src, pid = sys.argv[1], sys.argv[2]
    suffix = sys.argv[3] if len(sys.argv) > 3 else "1"
    out = os.path.join(src, "OUT", pid)
    meta = json.load(open(os.path.join(out, "meta.json")))
    name = "%s-%s" % (pid, suffix)
    dst = os.path.join(V, "seeded", name)
    os.makedirs(dst, exist_ok=True)
    for f in os.listdir(out):
        p = os.path.join(out, f)
        if os.path.isfile(p):
            shutil.copy(p, dst)
        elif os.path.isdir(p):
            shutil.copytree(p, os.path.join(dst, f), dirs_exist_ok=True)
    patch = os.path.join(dst, "patch.diff")
    wt = "/tmp/vw-" + name
    sh("git -C /repo worktree remove --force %s" % wt)
    rc, o = sh("git -C /repo worktree add --detach %s HEAD" % wt)
    ran = []
    verdict = {}
    try:
        rc, o = sh("git apply --check %s" % patch, cwd=wt)
        if rc != 0:
            rc3, o3 = sh("git apply --3way %s" % patch, cwd=wt)
            if rc3 != 0:
                verdict["applies"] = False
                ran.append("git apply on current HEAD: FAILED: " + o[-300:])
                raise SystemExit
            sh("git reset -q", cwd=wt)
            sh("git diff > %s" % patch, cwd=wt)
            ran.append("patch rebased onto current /repo HEAD with git apply --3way")
            sh("git checkout -- .", cwd=wt)
        verdict["applies"] = True
        demo_dir = meta.get("demo_dir", "").strip("./")
        demo_run = meta.get("demo_run", "TestDemo").replace("-run ", "").strip()
        demos = [f for f in os.listdir(dst) if f.endswith("_test.go")]
        for f in demos:
            shutil.copy(os.path.join(dst, f), os.path.join(wt, demo_dir, "zz_" + f))
        # without the patch: demo passes
        rc, o = sh("go test ./%s/ -run '%s' -count=1" % (demo_dir, demo_run), cwd=wt)
        verdict["demo_passes_without"] = rc == 0
        ran.append("clean HEAD: go test ./%s/ -run '%s' -> %s" % (demo_dir, demo_run, "ok" if rc == 0 else "FAIL " + o[-300:]))
        # with the patch
        sh("git apply %s" % patch, cwd=wt)
        rc, o = sh("go build ./...", cwd=wt)
        verdict["builds"] = rc == 0
        rc, o = sh("go test ./%s/ -run '%s' -count=1" % (demo_dir, demo_run), cwd=wt)
        verdict["demo_fails_with"] = rc != 0
        ran.append("patched: go test ./%s/ -run '%s' -> %s" % (demo_dir, demo_run, "FAIL (expected)" if rc != 0 else "ok (UNEXPECTED)"))
        for f in demos:
            os.remove(os.path.join(wt, demo_dir, "zz_" + f))
        pkgs = sorted(set(os.path.dirname(f) for f in meta.get("files", []) if f.endswith(".go")))
        new_fail = set()
        for pk in pkgs:
            rc, o = sh("go test ./%s/ -count=1" % pk, cwd=wt, timeout=3000)
            ft = failing_tests(o, pk) - KNOWN_BASELINE_FAILS
            if rc != 0 and not failing_tests(o):
                ft.add("BUILD-OR-PANIC:" + o[-200:])
            if ft:
                # re-run once to rule out load flakes
                rc2, o2 = sh("go test ./%s/ -count=1 -run '%s'" % (pk, "|".join(t for t in ft if not t.startswith("BUILD"))), cwd=wt, timeout=3000)
                ft = (failing_tests(o2, pk) - KNOWN_BASELINE_FAILS) if not any(t.startswith("BUILD") for t in ft) else ft
            new_fail |= ft
            ran.append("patched: go test ./%s/ -> %s" % (pk, "no new failures" if not ft else "NEW FAILURES %s" % sorted(ft)))
        if not any(p.startswith("cmd/restic") for p in pkgs):
            rc, o = sh("go test ./cmd/restic -count=1", cwd=wt, timeout=3000)
            ft = failing_tests(o, "cmd/restic") - KNOWN_BASELINE_FAILS
            if ft:
                rc2, o2 = sh("go test ./cmd/restic -count=1 -run '%s'" % "|".join(ft), cwd=wt, timeout=3000)
                ft = failing_tests(o2, "cmd/restic") - KNOWN_BASELINE_FAILS
            new_fail |= ft
            ran.append("patched: go test ./cmd/restic -> %s" % ("no new failures" if not ft else "NEW FAILURES %s" % sorted(ft)))
        verdict["existing_tests_pass"] = not new_fail
    except SystemExit:
        pass
    finally:
        sh("git -C /repo worktree remove --force %s" % wt)
        sh("git -C /repo worktree prune")
    ok = verdict.get("applies") and verdict.get("builds") and verdict.get("demo_passes_without") and verdict.get("demo_fails_with") and verdict.get("existing_tests_pass")
    detected = None
    if ok:
        rc, o = sh("./check %s --patch %s" % (pid, patch), cwd=V, timeout=7200)
        last = [l for l in o.strip().splitlines() if l.startswith(("VIOLATION", "OK ", "INCONCLUSIVE"))]
        detected = bool(last and last[-1].startswith("VIOLATION"))
        ran.append("./check %s --patch seeded/%s/patch.diff (quick) -> %s" % (pid, name, last[-1] if last else o[-200:]))
    meta.update({"id": name, "property": pid, "confirmed": bool(ok), "verdict": verdict,
                 "verified_by_lead": ran,
                 "detected_by": ("caught by ./check %s (quick tier)" % pid) if detected else ("NOT caught by the quick tier" if detected is False else "not run (not confirmed)")})
    json.dump(meta, open(os.path.join(dst, "meta.json"), "w"), indent=1)
    print("%s confirmed=%s detected=%s %s" % (name, bool(ok), detected, verdict))


if __name__ == "__main__":
    main()
