#!/bin/sh
# Warm the Go build cache for every harness binary (offline; nothing is fetched).
cd "$(dirname "$0")" || exit 1
python3 tools/prebuild.py
exit 0
